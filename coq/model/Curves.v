(* Model of the curve-dependent code of circomspect (property C11), written
   over the fragments regenerated from the current tree on every run
   (Gen.CurveTables, Gen.Primes):

     program_structure/src/utils/constants.rs     Curve, FromStr, UsefulConstants
     program_analysis/src/bn254_specific_circuit.rs      find_bn254_specific_circuits
     program_analysis/src/nonstrict_binary_conversion.rs find_nonstrict_binary_conversion
     program_analysis/src/unconstrained_less_than.rs     find_unconstrained_less_than

   The passes walk the statements of one definition's CFG.  Only what they
   inspect is kept of a statement (type knowledge of the assigned variable,
   the call on the right-hand side with the value knowledge of its arguments,
   the access path and the right-hand side of a constraint assignment).
   Definitions only; the lemmas are in Proofs.CurvesProofs. *)
From Coq Require Import ZArith List Bool String Ascii NArith.
Require Import Model.Base.
Require Import Gen.CurveTables Gen.Primes.
Import ListNotations.
Local Open Scope Z_scope.

(* ------------------------------------------------------------------ *)
(* enum Curve, UsefulConstants                                          *)
(* ------------------------------------------------------------------ *)
Inductive curve := Bn254 | Bls12_381 | Goldilocks.

Definition all_curves : list curve := [Bn254; Bls12_381; Goldilocks].

Definition variant_name (c : curve) : string :=
  match c with Bn254 => "Bn254" | Bls12_381 => "Bls12_381" | Goldilocks => "Goldilocks" end.

Definition curve_eqb (a b : curve) : bool :=
  match a, b with
  | Bn254, Bn254 | Bls12_381, Bls12_381 | Goldilocks, Goldilocks => true
  | _, _ => false
  end.

Definition curve_of_variant (s : string) : option curve :=
  find (fun c => String.eqb (variant_name c) s) all_curves.

(* first entry with the given key *)
Fixpoint assoc {A} (k : string) (l : list (string * A)) : option A :=
  match l with
  | [] => None
  | (k', v) :: r => if String.eqb k k' then Some v else assoc k r
  end.

(* UsefulConstants::new(curve): executed, see Gen.Primes.  The defaults are
   never used: Proofs.CurvesProofs.tables_total. *)
Definition constants (c : curve) : option (string * (Z * Z)) := assoc (variant_name c) prime_table.
Definition prime (c : curve) : Z := match constants c with Some (_, (p, _)) => p | None => 0 end.
Definition prime_size (c : curve) : Z := match constants c with Some (_, (_, s)) => s | None => 0 end.
Definition stored_curve (c : curve) : option curve :=
  match constants c with Some (v, _) => curve_of_variant v | None => None end.

Definition cmp_eval (o : cmp) (a b : Z) : bool :=
  match o with
  | CLt => a <? b | CLe => a <=? b | CGt => b <? a | CGe => b <=? a
  | CEq => a =? b | CNe => negb (a =? b)
  | CUnrecognised => false
  end.

(* ------------------------------------------------------------------ *)
(* what the passes see of a statement                                   *)
(* ------------------------------------------------------------------ *)
(* arg.value(): Some(FieldElement{value}) | Some(Boolean{value}) | None *)
Inductive argval := VField (v : Z) | VBool (b : bool) | VUnknown.

Record call := mkCall { cname : string; cargs : list argval }.

(* meta.type_knowledge(): is_local() / is_signal() / anything else *)
Inductive tk := TLocal | TSignal | TComponent | TNone.
Definition tk_exits (k : tk) : bool := match k with TLocal | TSignal => true | _ => false end.

(* AccessType::ArrayAccess(index expression, here a literal) | ComponentAccess(name) *)
Inductive access := AIndex (i : Z) | AField (f : string).

Inductive rhs := RCall (c : call) | ROther.

Inductive stmt :=
  (* Substitution { op: AssignLocalOrComponent }: `var = rhs` (acc = []) or
     `var[acc] = rhs`, where rhe = Update { access: acc, rhe: rhs } *)
| SAssign (k : tk) (var : string) (acc : list access) (r : rhs)
  (* Substitution { op: AssignConstraintSignal, rhe: Update { access: acc, rhe: value } }:
     `var.acc <== value`; [value] is the identity of the expression under
     Expression::eq (its printed form).  acc = [] stands for a right-hand side
     that is not an Update node (`out <== value`). *)
| SConstrain (var : string) (acc : list access) (value : string)
| SOther.

Inductive deftype := DFunction | DTemplate | DCustomTemplate.

Definition indices_where {A} (f : A -> bool) (l : list A) : list nat :=
  map fst (filter (fun p => f (snd p)) (combine (seq 0 (length l)) l)).

(* ------------------------------------------------------------------ *)
(* find_bn254_specific_circuits                                         *)
(* ------------------------------------------------------------------ *)
(* match cfg.constants().curve() { X => HashSet::from(ARRAY), Y => return } *)
Definition problematic_templates (c : curve) : option (list string) :=
  match assoc (variant_name c) bn254_dispatch with
  | Some (Some arr) => match assoc arr const_arrays with Some (_, items) => Some items | None => None end
  | _ => None
  end.

(* problematic_templates.contains(&&component_name[..]) *)
Definition flagged (c : curve) (name : string) : bool :=
  match problematic_templates c with
  | Some l => bn254_exact_match && existsb (String.eqb name) l
  | None => false
  end.

Definition bn254_visit (c : curve) (s : stmt) : bool :=
  match s with
  | SAssign k _ _ (RCall cl) => negb (tk_exits k) && flagged c (cname cl)
  | _ => false
  end.

(* positions of the statements a report is pushed for *)
Definition bn254_reports (c : curve) (prog : list stmt) : list nat :=
  indices_where (bn254_visit c) prog.

(* ------------------------------------------------------------------ *)
(* find_nonstrict_binary_conversion                                     *)
(* ------------------------------------------------------------------ *)
Definition deftype_name (d : deftype) : string :=
  match d with DFunction => "Function" | DTemplate => "Template" | DCustomTemplate => "CustomTemplate" end.

(* the two early exits of the pass *)
Definition nonstrict_active (c : curve) (d : deftype) : bool :=
  if existsb (String.eqb (deftype_name d)) nonstrict_exempt_definitions then false
  else
    match nonstrict_curve_guard with
    | (CEq, v) => negb (String.eqb (variant_name c) v)
    | (CNe, v) => String.eqb (variant_name c) v
    | _ => false
    end.

(* the chain of `if component_name == LIT && args.len() == N { ... }` blocks
   inside `if let Call {..} = rhe`: number of reports pushed.  A `return`
   leaves the function, so later blocks are skipped; `args[i]` out of range is
   a panic site. *)
Fixpoint nonstrict_call (ps : Z) (gs : list (string * (Z * (Z * (cmp * Z))))) (cl : call) : outcome nat :=
  match gs with
  | [] => Ok 0%nat
  | (name, (arity, (idx, (op, off)))) :: rest =>
    if String.eqb (cname cl) name && (Z.of_nat (length (cargs cl)) =? arity) then
      match nth_error (cargs cl) (Z.to_nat idx) with
      | None => Panic 1
      | Some (VField v) =>
        if cmp_eval op v (ps + off) then Ok 0%nat
        else n <- nonstrict_call ps rest cl ;; Ok (S n)
      | Some _ => n <- nonstrict_call ps rest cl ;; Ok (S n)
      end
    else nonstrict_call ps rest cl
  end.

Definition nonstrict_visit (c : curve) (s : stmt) : outcome nat :=
  match s with
  | SAssign k _ _ (RCall cl) =>
    if tk_exits k then Ok 0%nat else nonstrict_call (prime_size c) nonstrict_guards cl
  | _ => Ok 0%nat
  end.

Fixpoint mapM {A B} (f : A -> outcome B) (l : list A) : outcome (list B) :=
  match l with
  | [] => Ok []
  | x :: r => y <- f x ;; ys <- mapM f r ;; Ok (y :: ys)
  end.

(* number of reports per statement *)
Definition nonstrict_reports (c : curve) (d : deftype) (prog : list stmt) : outcome (list nat) :=
  if nonstrict_active c d then mapM (nonstrict_visit c) prog else Ok (map (fun _ => 0%nat) prog).

(* `component x = name(a)` in a template: is a report pushed?  (None: panic) *)
Definition num2bits_flagged (c : curve) (name : string) (a : argval) : option bool :=
  if nonstrict_active c DTemplate then
    match nonstrict_call (prime_size c) nonstrict_guards (mkCall name [a]) with
    | Ok n => Some (negb (Nat.eqb n 0))
    | _ => None
    end
  else Some false.

(* ------------------------------------------------------------------ *)
(* find_unconstrained_less_than                                         *)
(* ------------------------------------------------------------------ *)
Definition access_eqb (a b : access) : bool :=
  match a, b with
  | AIndex i, AIndex j => i =? j
  | AField f, AField g => String.eqb f g
  | _, _ => false
  end.

Fixpoint list_eqb {A} (e : A -> A -> bool) (l m : list A) : bool :=
  match l, m with
  | [], [] => true
  | x :: l', y :: m' => e x y && list_eqb e l' m'
  | _, _ => false
  end.

(* VariableAccess { var (version dropped), access } *)
Definition ckey := (string * list access)%type.
Definition ckey_eqb (a b : ckey) : bool := String.eqb (fst a) (fst b) && list_eqb access_eqb (snd a) (snd b).

Inductive component := CLessThan | CNum2Bits (size : argval).

(* HashMap<VariableAccess, Component>; newest entry first, insert overwrites *)
Definition comps := list (ckey * component).
Definition comp_get (k : ckey) (m : comps) : option component :=
  match find (fun e => ckey_eqb (fst e) k) m with Some (_, c) => Some c | None => None end.

(* fn update_components; `args[0]` with an empty argument list is a panic site *)
Definition components_panic (s : stmt) : bool :=
  match s with
  | SAssign k _ _ (RCall cl) =>
    negb (tk_exits k) &&
    negb (String.eqb (cname cl) (fst lessthan_template) && (Z.of_nat (length (cargs cl)) =? snd lessthan_template)) &&
    (String.eqb (cname cl) (fst rangecheck_template) && (Z.of_nat (length (cargs cl)) =? snd rangecheck_template)) &&
    match cargs cl with [] => true | _ => false end
  | _ => false
  end.

Definition update_components (m : comps) (s : stmt) : comps :=
  match s with
  | SAssign k var acc (RCall cl) =>
    if tk_exits k then m
    else if String.eqb (cname cl) (fst lessthan_template) && (Z.of_nat (length (cargs cl)) =? snd lessthan_template)
    then ((var, acc), CLessThan) :: m
    else if String.eqb (cname cl) (fst rangecheck_template) && (Z.of_nat (length (cargs cl)) =? snd rangecheck_template)
    then match cargs cl with a :: _ => ((var, acc), CNum2Bits a) :: m | [] => m end
    else m
  | _ => m
  end.

(* Vec::pop *)
Definition pop {A} (l : list A) : list A * option A :=
  match rev l with [] => ([], None) | x :: r => (rev r, Some x) end.

Inductive cinput := ILessThan (v : string) | INum2Bits (v : string) (size : argval).

(* fn update_inputs: the inputs pushed for one statement *)
Definition update_inputs (m : comps) (s : stmt) : list cinput :=
  match s with
  | SConstrain var acc v =>
    match acc with
    | [] => []
    | _ =>
      let '(ca1, sig1) := pop acc in
      let first : option (list cinput) :=          (* None: `return` *)
        match comp_get (var, ca1) m with
        | Some (CNum2Bits size) =>
          match sig1 with
          | Some (AField f) => if String.eqb f rangecheck_signal then Some [INum2Bits v size] else None
          | _ => None
          end
        | _ => Some []
        end in
      match first with
      | None => []
      | Some l1 =>
        let '(ca2a, idx) := pop acc in
        let '(ca2, sig2) := pop ca2a in
        match comp_get (var, ca2) m with
        | Some CLessThan =>
          match sig2, idx with
          | Some (AField f), Some (AIndex _) => if String.eqb f lessthan_signal then l1 ++ [ILessThan v] else l1
          | _, _ => l1
          end
        | _ => l1
        end
      end
    end
  | _ => []
  end.

Definition input_value (i : cinput) : string :=
  match i with ILessThan v => v | INum2Bits v _ => v end.
Definition is_lt_input (v : string) (i : cinput) : bool :=
  match i with ILessThan v' => String.eqb v v' | _ => false end.
Definition sizes_of (v : string) (inputs : list cinput) : list argval :=
  flat_map (fun i => match i with INum2Bits v' s => if String.eqb v v' then [s] else [] | _ => [] end) inputs.

(* `if let Some(FieldElement{value}) = bit_size.value() { if value < &max_value {..} }`
   with max_value = BigInt::from(prime_size() - 1) *)
Definition lt_guard (c : curve) (size : argval) : bool :=
  match size with
  | VField k => cmp_eval (fst lessthan_guard) k (prime_size c + snd lessthan_guard)
  | _ => false
  end.
Definition lessthan_range_checked (c : curve) (k : Z) : bool := lt_guard c (VField k).

Definition collected_inputs (prog : list stmt) : list cinput :=
  flat_map (update_inputs (fold_left update_components prog [])) prog.

(* the values a report is generated for (HashMap iteration: as a set; listed
   here in order of first occurrence) *)
Definition lessthan_values (c : curve) (prog : list stmt) : list string :=
  let inputs := collected_inputs prog in
  filter (fun v => existsb (is_lt_input v) inputs && negb (existsb (lt_guard c) (sizes_of v inputs)))
         (nodup string_dec (map input_value inputs)).

(* `prime_size() - 1` is usize arithmetic: a negative result is a panic *)
Definition lessthan_reports (c : curve) (prog : list stmt) : outcome (list string) :=
  if existsb components_panic prog then Panic 2
  else if prime_size c + snd lessthan_guard <? 0 then Panic 3
  else Ok (lessthan_values c prog).

(* ------------------------------------------------------------------ *)
(* <Curve as FromStr>::from_str, for ASCII input                        *)
(* ------------------------------------------------------------------ *)
Definition upper_ascii (a : ascii) : ascii :=
  let n := N_of_ascii a in
  if (97 <=? n)%N && (n <=? 122)%N then ascii_of_N (n - 32) else a.

Fixpoint upper (s : string) : string :=
  match s with EmptyString => EmptyString | String a r => String (upper_ascii a) (upper r) end.

Fixpoint ascii_only (s : string) : bool :=
  match s with EmptyString => true | String a r => (N_of_ascii a <? 128)%N && ascii_only r end.

(* str::to_uppercase applies the Unicode case mapping; on ASCII text it is
   [upper].  Text with a byte >= 128 is outside this model. *)
Inductive parse_result := Accepted (c : curve) | Rejected | OutsideModel.

Definition parse_curve (s : string) : parse_result :=
  if negb (String.eqb from_str_normaliser "to_uppercase") then OutsideModel
  else if negb (ascii_only s) then OutsideModel
  else match assoc (upper s) from_str_arms with
       | Some v => match curve_of_variant v with Some c => Accepted c | None => OutsideModel end
       | None => Rejected
       end.
