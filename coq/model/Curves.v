(* Model of the curve-dependent code of circomspect (property C11), written
   over the fragments regenerated from the current tree on every run
   (Gen.CurveTables, Gen.Primes):

     program_structure/src/utils/constants.rs     Curve, FromStr, UsefulConstants
     program_analysis/src/bn254_specific_circuit.rs      find_bn254_specific_circuits
     program_analysis/src/nonstrict_binary_conversion.rs find_nonstrict_binary_conversion
     program_analysis/src/unconstrained_less_than.rs     find_unconstrained_less_than

   The passes walk the statements of one definition's CFG.  Only what they
   inspect is kept of a statement (type knowledge of the assigned variable,
   the call on the right-hand side with the value knowledge of its arguments,
   the access path and the right-hand side of a constraint assignment).
   Definitions only; the lemmas are in Proofs.CurvesProofs. *)
From Coq Require Import ZArith List Bool String Ascii NArith.
Require Import Model.Base.
Require Import Gen.CurveTables Gen.Primes Gen.CurveNames.
Import ListNotations.
Local Open Scope Z_scope.

(* ------------------------------------------------------------------ *)
(* enum Curve, UsefulConstants                                          *)
(* ------------------------------------------------------------------ *)
Inductive curve := Bn254 | Bls12_381 | Goldilocks.

Definition all_curves : list curve := [Bn254; Bls12_381; Goldilocks].

Definition variant_name (c : curve) : string :=
  match c with Bn254 => "Bn254" | Bls12_381 => "Bls12_381" | Goldilocks => "Goldilocks" end.

Definition curve_eqb (a b : curve) : bool :=
  match a, b with
  | Bn254, Bn254 | Bls12_381, Bls12_381 | Goldilocks, Goldilocks => true
  | _, _ => false
  end.

Definition curve_of_variant (s : string) : option curve :=
  find (fun c => String.eqb (variant_name c) s) all_curves.

(* first entry with the given key *)
Fixpoint assoc {A} (k : string) (l : list (string * A)) : option A :=
  match l with
  | [] => None
  | (k', v) :: r => if String.eqb k k' then Some v else assoc k r
  end.

(* UsefulConstants::new(curve): executed, see Gen.Primes.  The defaults are
   never used: Proofs.CurvesProofs.tables_total. *)
Definition constants (c : curve) : option (string * (Z * Z)) := assoc (variant_name c) prime_table.
Definition prime (c : curve) : Z := match constants c with Some (_, (p, _)) => p | None => 0 end.
Definition prime_size (c : curve) : Z := match constants c with Some (_, (_, s)) => s | None => 0 end.
Definition stored_curve (c : curve) : option curve :=
  match constants c with Some (v, _) => curve_of_variant v | None => None end.

Definition cmp_eval (o : cmp) (a b : Z) : bool :=
  match o with
  | CLt => a <? b | CLe => a <=? b | CGt => b <? a | CGe => b <=? a
  | CEq => a =? b | CNe => negb (a =? b)
  | CUnrecognised => false
  end.

(* ------------------------------------------------------------------ *)
(* what the passes see of a statement                                   *)
(* ------------------------------------------------------------------ *)
(* arg.value(): Some(FieldElement{value}) | Some(Boolean{value}) | None *)
Inductive argval := VField (v : Z) | VBool (b : bool) | VUnknown.

Record call := mkCall { cname : string; cargs : list argval }.

(* meta.type_knowledge(): is_local() / is_signal() / anything else *)
Inductive tk := TLocal | TSignal | TComponent | TNone.
Definition tk_exits (k : tk) : bool := match k with TLocal | TSignal => true | _ => false end.

(* AccessType::ArrayAccess(index expression) | ComponentAccess(name).  The index
   is an Expression compared with Expression::eq: kept is its structural identity
   (every field but the metas, written out - harness `curves ir`, fn ident) *)
Inductive access := AIndex (i : string) | AField (f : string).

Inductive rhs := RCall (c : call) | ROther.

Inductive stmt :=
  (* Substitution { op: AssignLocalOrComponent }: `var = rhs` (acc = []) or
     `var[acc] = rhs`, where rhe = Update { access: acc, rhe: rhs } *)
| SAssign (k : tk) (var : string) (acc : list access) (r : rhs)
  (* Substitution { op: AssignConstraintSignal, rhe: Update { access: acc, rhe: value } }:
     `var.acc <== value`; [value] is the structural identity of the expression
     (every field but the metas written out; the real Expression::eq / Hash are
     compared with it pair by pair on every run, harness `curves ir`).  acc = []
     stands for a right-hand side that is not an Update node (`out <== value`).
     [var] is the variable without its SSA version (name and shadowing suffix). *)
| SConstrain (var : string) (acc : list access) (value : string)
| SOther.

Inductive deftype := DFunction | DTemplate | DCustomTemplate.

Definition indices_where {A} (f : A -> bool) (l : list A) : list nat :=
  map fst (filter (fun p => f (snd p)) (combine (seq 0 (length l)) l)).

(* ------------------------------------------------------------------ *)
(* find_bn254_specific_circuits                                         *)
(* ------------------------------------------------------------------ *)
(* match cfg.constants().curve() { X => HashSet::from(ARRAY), Y => return } *)
Definition problematic_templates (c : curve) : option (list string) :=
  match assoc (variant_name c) bn254_dispatch with
  | Some (Some arr) => match assoc arr const_arrays with Some (_, items) => Some items | None => None end
  | _ => None
  end.

(* problematic_templates.contains(&&component_name[..]) *)
Definition flagged (c : curve) (name : string) : bool :=
  match problematic_templates c with
  | Some l => bn254_exact_match && existsb (String.eqb name) l
  | None => false
  end.

Definition bn254_visit (c : curve) (s : stmt) : bool :=
  match s with
  | SAssign k _ _ (RCall cl) => negb (tk_exits k) && flagged c (cname cl)
  | _ => false
  end.

(* positions of the statements a report is pushed for *)
Definition bn254_reports (c : curve) (prog : list stmt) : list nat :=
  indices_where (bn254_visit c) prog.

(* ------------------------------------------------------------------ *)
(* find_nonstrict_binary_conversion                                     *)
(* ------------------------------------------------------------------ *)
Definition deftype_name (d : deftype) : string :=
  match d with DFunction => "Function" | DTemplate => "Template" | DCustomTemplate => "CustomTemplate" end.

(* the two early exits of the pass *)
Definition nonstrict_active (c : curve) (d : deftype) : bool :=
  if existsb (String.eqb (deftype_name d)) nonstrict_exempt_definitions then false
  else
    match nonstrict_curve_guard with
    | (CEq, v) => negb (String.eqb (variant_name c) v)
    | (CNe, v) => String.eqb (variant_name c) v
    | _ => false
    end.

(* the chain of `if component_name == LIT && args.len() == N { ... }` blocks
   inside `if let Call {..} = rhe`: number of reports pushed.  A `return`
   leaves the function, so later blocks are skipped; `args[i]` out of range is
   a panic site. *)
Fixpoint nonstrict_call (ps : Z) (gs : list (string * (Z * (Z * (cmp * Z))))) (cl : call) : outcome nat :=
  match gs with
  | [] => Ok 0%nat
  | (name, (arity, (idx, (op, off)))) :: rest =>
    if String.eqb (cname cl) name && (Z.of_nat (length (cargs cl)) =? arity) then
      match nth_error (cargs cl) (Z.to_nat idx) with
      | None => Panic 1
      | Some (VField v) =>
        if cmp_eval op v (ps + off) then Ok 0%nat
        else n <- nonstrict_call ps rest cl ;; Ok (S n)
      | Some _ => n <- nonstrict_call ps rest cl ;; Ok (S n)
      end
    else nonstrict_call ps rest cl
  end.

Definition nonstrict_visit (c : curve) (s : stmt) : outcome nat :=
  match s with
  | SAssign k _ _ (RCall cl) =>
    if tk_exits k then Ok 0%nat else nonstrict_call (prime_size c) nonstrict_guards cl
  | _ => Ok 0%nat
  end.

Fixpoint mapM {A B} (f : A -> outcome B) (l : list A) : outcome (list B) :=
  match l with
  | [] => Ok []
  | x :: r => y <- f x ;; ys <- mapM f r ;; Ok (y :: ys)
  end.

(* number of reports per statement *)
Definition nonstrict_reports (c : curve) (d : deftype) (prog : list stmt) : outcome (list nat) :=
  if nonstrict_active c d then mapM (nonstrict_visit c) prog else Ok (map (fun _ => 0%nat) prog).

(* `component x = name(a)` in a template: is a report pushed?  (None: panic) *)
Definition num2bits_flagged (c : curve) (name : string) (a : argval) : option bool :=
  if nonstrict_active c DTemplate then
    match nonstrict_call (prime_size c) nonstrict_guards (mkCall name [a]) with
    | Ok n => Some (negb (Nat.eqb n 0))
    | _ => None
    end
  else Some false.

(* ------------------------------------------------------------------ *)
(* find_unconstrained_less_than                                         *)
(* ------------------------------------------------------------------ *)
Definition access_eqb (a b : access) : bool :=
  match a, b with
  | AIndex i, AIndex j => String.eqb i j
  | AField f, AField g => String.eqb f g
  | _, _ => false
  end.

Fixpoint list_eqb {A} (e : A -> A -> bool) (l m : list A) : bool :=
  match l, m with
  | [], [] => true
  | x :: l', y :: m' => e x y && list_eqb e l' m'
  | _, _ => false
  end.

(* VariableAccess { var (version dropped), access } *)
Definition ckey := (string * list access)%type.
Definition ckey_eqb (a b : ckey) : bool := String.eqb (fst a) (fst b) && list_eqb access_eqb (snd a) (snd b).

Inductive component := CLessThan | CNum2Bits (size : argval).

(* HashMap<VariableAccess, Component>; newest entry first, insert overwrites *)
Definition comps := list (ckey * component).
Definition comp_get (k : ckey) (m : comps) : option component :=
  match find (fun e => ckey_eqb (fst e) k) m with Some (_, c) => Some c | None => None end.

(* A second assignment of a key to the range-check template (Gen.CurveTables.rangecheck_policy, read from the
   source): "insert" = `components.insert(..)`, the last assignment wins (the code of the current tree: a
   `Num2Bits(300)` on one path and a `Num2Bits(20)` on a later one count as the latter - deviation
   C11-component-assigned-on-two-paths); "weakest" = the proposed repair, `keep_old`: an entry whose size is not
   a known field element stays, of two known sizes the larger stays.  Any other policy: nothing is recorded
   (the model then disagrees with the binary). *)
Definition keep_old (o : option component) (a : argval) : bool :=
  if String.eqb rangecheck_policy "insert" then false
  else if String.eqb rangecheck_policy "weakest" then
    match o with
    | Some (CNum2Bits old) =>
      match old, a with
      | VField o', VField n => n <=? o'
      | VField _, _ => false
      | _, _ => true
      end
    | _ => false
    end
  else true.

(* fn update_components; `args[0]` with an empty argument list is a panic site *)
Definition components_panic (s : stmt) : bool :=
  match s with
  | SAssign k _ _ (RCall cl) =>
    negb (tk_exits k) &&
    negb (String.eqb (cname cl) (fst lessthan_template) && (Z.of_nat (length (cargs cl)) =? snd lessthan_template)) &&
    (String.eqb (cname cl) (fst rangecheck_template) && (Z.of_nat (length (cargs cl)) =? snd rangecheck_template)) &&
    match cargs cl with [] => true | _ => false end
  | _ => false
  end.

Definition update_components (m : comps) (s : stmt) : comps :=
  match s with
  | SAssign k var acc (RCall cl) =>
    if tk_exits k then m
    else if String.eqb (cname cl) (fst lessthan_template) && (Z.of_nat (length (cargs cl)) =? snd lessthan_template)
    then ((var, acc), CLessThan) :: m
    else if String.eqb (cname cl) (fst rangecheck_template) && (Z.of_nat (length (cargs cl)) =? snd rangecheck_template)
    then match cargs cl with
         | a :: _ => if keep_old (comp_get (var, acc) m) a then m else ((var, acc), CNum2Bits a) :: m
         | [] => m
         end
    else m
  | _ => m
  end.

(* Vec::pop *)
Definition pop {A} (l : list A) : list A * option A :=
  match rev l with [] => ([], None) | x :: r => (rev r, Some x) end.

Inductive cinput := ILessThan (v : string) | INum2Bits (v : string) (size : argval).

(* fn update_inputs: the inputs pushed for one statement *)
Definition update_inputs (m : comps) (s : stmt) : list cinput :=
  match s with
  | SConstrain var acc v =>
    match acc with
    | [] => []
    | _ =>
      let '(ca1, sig1) := pop acc in
      let first : option (list cinput) :=          (* None: `return` *)
        match comp_get (var, ca1) m with
        | Some (CNum2Bits size) =>
          match sig1 with
          | Some (AField f) => if String.eqb f rangecheck_signal then Some [INum2Bits v size] else None
          | _ => None
          end
        | _ => Some []
        end in
      match first with
      | None => []
      | Some l1 =>
        let '(ca2a, idx) := pop acc in
        let '(ca2, sig2) := pop ca2a in
        match comp_get (var, ca2) m with
        | Some CLessThan =>
          match sig2, idx with
          | Some (AField f), Some (AIndex _) => if String.eqb f lessthan_signal then l1 ++ [ILessThan v] else l1
          | _, _ => l1
          end
        | _ => l1
        end
      end
    end
  | _ => []
  end.

Definition input_value (i : cinput) : string :=
  match i with ILessThan v => v | INum2Bits v _ => v end.
Definition is_lt_input (v : string) (i : cinput) : bool :=
  match i with ILessThan v' => String.eqb v v' | _ => false end.
Definition sizes_of (v : string) (inputs : list cinput) : list argval :=
  flat_map (fun i => match i with INum2Bits v' s => if String.eqb v v' then [s] else [] | _ => [] end) inputs.

(* `if let Some(FieldElement{value}) = bit_size.value() { if value < &max_value {..} }`
   with max_value = BigInt::from(prime_size() - 1) *)
Definition lt_guard (c : curve) (size : argval) : bool :=
  match size with
  | VField k => cmp_eval (fst lessthan_guard) k (prime_size c + snd lessthan_guard)
  | _ => false
  end.
Definition lessthan_range_checked (c : curve) (k : Z) : bool := lt_guard c (VField k).

Definition collected_inputs (prog : list stmt) : list cinput :=
  flat_map (update_inputs (fold_left update_components prog [])) prog.

(* the values a report is generated for (HashMap iteration: as a set; listed
   here in order of first occurrence) *)
Definition lessthan_values (c : curve) (prog : list stmt) : list string :=
  let inputs := collected_inputs prog in
  filter (fun v => existsb (is_lt_input v) inputs && negb (existsb (lt_guard c) (sizes_of v inputs)))
         (nodup string_dec (map input_value inputs)).

(* `prime_size() - 1` is usize arithmetic: a negative result is a panic *)
Definition lessthan_reports (c : curve) (prog : list stmt) : outcome (list string) :=
  if existsb components_panic prog then Panic 2
  else if prime_size c + snd lessthan_guard <? 0 then Panic 3
  else Ok (lessthan_values c prog).

(* ------------------------------------------------------------------ *)
(* <Curve as FromStr>::from_str, for EVERY string (a Coq string is the  *)
(* sequence of the bytes of the Rust &str)                              *)
(* ------------------------------------------------------------------ *)
(* u8::to_ascii_uppercase: bytes 97..122 lose 32, every other byte - the bytes
   >= 128 of a multi-byte character included - is left alone *)
Definition upper_ascii (a : ascii) : ascii :=
  let n := N_of_ascii a in
  if (97 <=? n)%N && (n <=? 122)%N then ascii_of_N (n - 32) else a.

(* str::to_ascii_uppercase *)
Fixpoint upper (s : string) : string :=
  match s with EmptyString => EmptyString | String a r => String (upper_ascii a) (upper r) end.

(* UTF-8: the code points of a string.  [need] continuation bytes are still
   expected for the code point accumulated in [acc], whose shortest encoding has
   that length iff it is >= [minv].  None: not UTF-8 (never the case of a Rust
   &str; such byte strings are rejected by the model). *)
Fixpoint utf8_decode (s : string) (need : nat) (acc minv : Z) : option (list Z) :=
  match s with
  | EmptyString => match need with O => Some [] | S _ => None end
  | String a r =>
    let b := Z.of_N (N_of_ascii a) in
    match need with
    | O =>
      if b <? 128 then match utf8_decode r O 0 0 with Some l => Some (b :: l) | None => None end
      else if (192 <=? b) && (b <? 224) then utf8_decode r 1%nat (b - 192) 128
      else if (224 <=? b) && (b <? 240) then utf8_decode r 2%nat (b - 224) 2048
      else if (240 <=? b) && (b <? 248) then utf8_decode r 3%nat (b - 240) 65536
      else None
    | S n =>
      if (128 <=? b) && (b <? 192) then
        let acc' := acc * 64 + (b - 128) in
        match n with
        | O =>
          if (minv <=? acc') && (acc' <=? 1114111) && negb ((55296 <=? acc') && (acc' <=? 57343)) then
            match utf8_decode r O 0 0 with Some l => Some (acc' :: l) | None => None end
          else None
        | S _ => utf8_decode r n acc' minv
        end
      else None
    end
  end.

Fixpoint assocZ {A} (k : Z) (l : list (Z * A)) : option A :=
  match l with
  | [] => None
  | (k', v) :: r => if k =? k' then Some v else assocZ k r
  end.

(* char::to_uppercase of one code point, when the result is ASCII text:
   an ASCII character maps like [upper_ascii]; a character >= 128 maps to ASCII
   text exactly when Gen.CurveNames.unicode_upper_ascii lists it (the table is
   obtained by EXECUTING char::to_uppercase on every code point >= 128 and
   keeping the all-ASCII results: dotless i -> I, long s -> S, sharp s -> SS,
   the Latin ligatures).  None: the upper-cased character is not ASCII. *)
Definition upper_char (cp : Z) : option string :=
  if cp <? 128 then Some (String (upper_ascii (ascii_of_N (Z.to_N cp))) EmptyString)
  else assocZ cp unicode_upper_ascii.

(* str::to_uppercase is the concatenation of char::to_uppercase over the
   characters (the only context-sensitive rule of Rust's case conversion, final
   sigma, belongs to to_lowercase).  None: the result contains a character
   >= 128, so that it equals no ASCII literal. *)
Fixpoint upper_chars (l : list Z) : option string :=
  match l with
  | [] => Some EmptyString
  | cp :: r =>
    match upper_char cp, upper_chars r with
    | Some u, Some v => Some (u ++ v)%string
    | _, _ => None
    end
  end.

Definition unicode_upper (s : string) : option string :=
  match utf8_decode s O 0 0 with Some l => upper_chars l | None => None end.

(* the two normalisers the reader recognises in `match &curve.<normaliser>()[..]`,
   each modelled as it behaves.  None: another normaliser (not modelled);
   Some None: the normalised text is not ASCII. *)
Definition normalise (s : string) : option (option string) :=
  if String.eqb from_str_normaliser "to_ascii_uppercase" then Some (Some (upper s))
  else if String.eqb from_str_normaliser "to_uppercase" then Some (unicode_upper s)
  else None.

Fixpoint ascii_only (s : string) : bool :=
  match s with EmptyString => true | String a r => (N_of_ascii a <? 128)%N && ascii_only r end.

(* Unmodelled: the source has a normaliser or an arm the model does not know
   (never the case on the current tree: Proofs.CurvesProofs.nothing_else_accepted) *)
Inductive parse_result := Accepted (c : curve) | Rejected | Unmodelled.

Definition parse_curve (s : string) : parse_result :=
  match normalise s with
  | None => Unmodelled
  | Some None => Rejected          (* the arms are ASCII literals (from_str_arms_ascii) *)
  | Some (Some u) =>
    match assoc u from_str_arms with
    | Some v => match curve_of_variant v with Some c => Accepted c | None => Unmodelled end
    | None => Rejected
    end
  end.

(* what the model of `to_uppercase` alone answers, whatever the current source
   says: used to state that the repaired normaliser matters *)
Definition parse_curve_unicode (s : string) : parse_result :=
  match unicode_upper s with
  | None => Rejected
  | Some u =>
    match assoc u from_str_arms with
    | Some v => match curve_of_variant v with Some c => Accepted c | None => Unmodelled end
    | None => Rejected
    end
  end.
