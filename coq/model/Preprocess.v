(* Mirror of parser/src/parser_logic.rs `preprocess` (the comment stripper), as
   repaired by the fix: commit recorded in known_findings.jsonl (ids C05-...).  The
   mirror of the code before the repair is kept in Model.PreprocessOld.

   Input: the file as the list of its Unicode scalar values (`str::chars`).
   Output: `Ok text` (scalars of the returned String) or
   `Err (unclosed start)` where `start` is the BYTE offset that the Rust code
   stores in `State::BlockComment(start)` (taken from `char_indices`), i.e. the
   start of the primary label of the "Unterminated comment." report; the label
   range is `start .. start + 2` ([unclosed_range]).  Executable definitions
   only; the lemmas are in Proofs.PreprocessProofs. *)
Require Import Model.Base.
From Coq Require Import NArith.
Local Open Scope N_scope.

(* char::len_utf8 *)
Definition utf8_len (c : N) : nat :=
  if c <? 128 then 1%nat else if c <? 2048 then 2%nat else if c <? 65536 then 3%nat else 4%nat.

(* byte length of a text = what char_indices adds up *)
Fixpoint bytes (l : list N) : nat :=
  match l with
  | [] => 0%nat
  | c :: r => (utf8_len c + bytes r)%nat
  end.

(* `for _ in 0..c.len_utf8() { pp.push(' ') }` *)
Definition blank (c : N) : list N := repeat 32 (utf8_len c).

(* UnclosedCommentError { location: start..start + 2, file_id } *)
Definition unclosed (start : nat) : error := EOther (Z.of_nat start).
Definition unclosed_range (start : nat) : nat * nat := (start, (start + 2)%nat).

(* `pp.push(..)` before the rest of the loop runs: the pushed scalars precede
   whatever the remaining iterations push; an error discards the text. *)
Definition emit (out : list N) (m : outcome (list N)) : outcome (list N) :=
  omap (app out) m.

(* enum State { Code, LineComment, BlockComment(usize) } *)
Inductive state :=
| Code
| LineComment
| BlockComment (start : nat).

(* One iteration of `while let Some((offset, c0)) = it.next()` per recursive
   call; `off` is the `offset` that `char_indices` yields for `c0`; `c1` is
   `it.peek()`; the three arms that call `it.next()` a second time recurse on
   the tail of the tail.  After the loop: `if let State::BlockComment(start)`. *)
Fixpoint pp (s : state) (off : nat) (l : list N) : outcome (list N) :=
  match l with
  | [] =>
      match s with
      | BlockComment start => Err (unclosed start)
      | _ => Ok []
      end
  | c0 :: r =>
      let off1 := (off + utf8_len c0)%nat in
      match s with
      | Code =>
          if c0 =? 47 then
            match r with
            | c1 :: r' =>
                if c1 =? 47 then emit [32; 32] (pp LineComment (off1 + utf8_len c1) r')
                else if c1 =? 42 then emit [32; 32] (pp (BlockComment off) (off1 + utf8_len c1) r')
                else emit [c0] (pp Code off1 r)
            | [] => emit [c0] (pp Code off1 r)
            end
          else emit [c0] (pp Code off1 r)
      | LineComment =>
          if c0 =? 10 then emit [c0] (pp Code off1 r)
          else emit (blank c0) (pp LineComment off1 r)
      | BlockComment start =>
          if c0 =? 42 then
            match r with
            | c1 :: r' =>
                if c1 =? 47 then emit [32; 32] (pp Code (off1 + utf8_len c1) r')
                else emit (blank c0) (pp (BlockComment start) off1 r)
            | [] => emit (blank c0) (pp (BlockComment start) off1 r)
            end
          else emit (blank c0) (pp (BlockComment start) off1 r)
      end
  end.

Definition preprocess (src : list N) : outcome (list N) := pp Code 0 src.

(* what the drivers print for an error: the label range *)
Definition error_range (e : error) : nat * nat :=
  match e with
  | EOther z => unclosed_range (Z.to_nat z)
  | _ => (0%nat, 0%nat)
  end.
