(* ReportLabels (C03, third audit) — what `Report::primary_file_ids()` holds.
   Definitions only.

   program_structure/src/program_library/report.rs
     Report::new            `primary_file_ids: Vec::new(), primary: Vec::new(), secondary: Vec::new()`   [new_report]
     Report::add_primary    `self.primary_mut().push(label); self.primary_file_ids_mut().push(file_id);` [add_primary]
     Report::add_secondary  `self.secondary_mut().push(label);`                                         [add_secondary]
   (the fields are private: these three functions are the only writers; `primary_file_ids()` / `primary()` /
   `secondary()` are the readers)
   cli/src/main.rs
     filter_by_file         `file_ids.is_empty() || file_ids.iter().any(|id| user_inputs.contains(id))`  [filter_by_file]

   Model.Runner carries only the result ([r_pfiles]); this file mirrors how a producer builds it, so that "a finding
   is located solely in a file that was only included" can be stated on the LABELS (where codespan and SARIF print the
   finding) and proved to be what the filter reads. *)
From Coq Require Import ZArith List Bool.
Import ListNotations.
Local Open Scope Z_scope.

(* ReportLabel: file id and byte range (the message is irrelevant here) *)
Record label := mkLabel { l_file : Z; l_start : Z; l_end : Z }.

Record labelled := mkLabelled {
  lr_pfiles : list Z;          (* primary_file_ids *)
  lr_primary : list label;     (* primary *)
  lr_secondary : list label    (* secondary *)
}.

Definition new_report : labelled := mkLabelled [] [] [].

Definition add_primary (r : labelled) (l : label) : labelled :=
  mkLabelled (lr_pfiles r ++ [l_file l]) (lr_primary r ++ [l]) (lr_secondary r).

Definition add_secondary (r : labelled) (l : label) : labelled :=
  mkLabelled (lr_pfiles r) (lr_primary r) (lr_secondary r ++ [l]).

(* what a producer does with a fresh report: a sequence of add_primary / add_secondary calls *)
Inductive label_op := OpPrimary (l : label) | OpSecondary (l : label).

Definition apply_op (r : labelled) (op : label_op) : labelled :=
  match op with OpPrimary l => add_primary r l | OpSecondary l => add_secondary r l end.

Definition build (ops : list label_op) : labelled := fold_left apply_op ops new_report.

Definition zmem (x : Z) (l : list Z) : bool := existsb (Z.eqb x) l.

Definition filter_by_file (user : list Z) (pfiles : list Z) : bool :=
  match pfiles with [] => true | _ => existsb (fun f => zmem f user) pfiles end.
