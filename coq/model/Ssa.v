(* Mirror of the SSA construction:
     static_single_assignment/mod.rs   insert_phi_statements (work list),
                                       insert_ssa_variables_impl (recursion over the dominator tree)
     control_flow_graph/ssa_impl.rs    Environment (global and scoped version maps, keyed by
                                       (name, suffix) after fix 51769f1), visit_expression,
                                       insert_ssa_variables for statements, ensure_phi_argument,
                                       update_declarations
     control_flow_graph/cfg.rs         into_ssa (parameters get version 0)
   The dominance frontiers and dominator-tree children are inputs (lists whose
   order stands for the HashSet iteration order of the implementation); the work
   list and the tree recursion run on fuel.  Definitions only. *)
From Coq Require Import ZArith NArith List Bool.
Require Import Model.Base Model.Ir Model.SsaCheck.
Import ListNotations.

Inductive ssa_result (A : Type) :=
| SOk (a : A)
| SErrUndefined            (* SSAError::UndefinedVariableError *)
| SPanic                   (* an assert! or expect() of the construction *)
| SFuel.
Arguments SOk {A} a.
Arguments SErrUndefined {A}.
Arguments SPanic {A}.
Arguments SFuel {A}.

Definition sbind {A B} (m : ssa_result A) (f : A -> ssa_result B) : ssa_result B :=
  match m with SOk a => f a | SErrUndefined => SErrUndefined | SPanic => SPanic | SFuel => SFuel end.
Notation "x <~ m ;; f" := (sbind m (fun x => f)) (at level 61, m at next level, right associativity).

(* ---- Environment ---- *)
Record senv := { se_global : vmap; se_scoped : list vmap (* innermost block first *) }.

Fixpoint scoped_get (bs : list vmap) (k : key) : option N :=
  match bs with
  | [] => None
  | b :: tl => match vget b k with Some n => Some n | None => scoped_get tl k end
  end.

Definition cur_version (env : senv) (v : vname) : option N := scoped_get (se_scoped env) (key_of v).

Definition next_version (env : senv) (v : vname) : N * senv :=
  let k := key_of v in
  let n := match vget (se_global env) k with None => 0%N | Some m => N.succ m end in
  (n, {| se_global := vset (se_global env) k n;
         se_scoped := match se_scoped env with
                      | [] => [vset [] k n]
                      | b :: tl => vset b k n :: tl
                      end |}).

Definition push_scope (env : senv) : senv := {| se_global := se_global env; se_scoped := [] :: se_scoped env |}.
Definition pop_scope (env : senv) : senv :=
  {| se_global := se_global env; se_scoped := match se_scoped env with [] => [] | _ :: tl => tl end |}.

(* declarations of the pre-SSA graph are unversioned *)
Definition is_local_in (decls : list (vname * vtype)) (v : vname) : bool :=
  existsb (fun d => key_eqb (key_of (fst d)) (key_of v) &&
                    match snd d with TLocal => true | _ => false end) decls.

(* ---- visit_expression ---- *)
Section Rename.
Variable decls : list (vname * vtype).

Definition rename_read (env : senv) (v : vname) : ssa_result vname :=
  match vn_version v with
  | Some _ => SPanic                      (* assert!(name.version().is_none()) *)
  | None =>
    if is_local_in decls v then
      match cur_version env v with
      | Some n => SOk (with_version v n)
      | None => SErrUndefined
      end
    else SOk v
  end.

Fixpoint ssa_expr (env : senv) (e : expr) {struct e} : ssa_result (expr * senv) :=
  let fix ssa_list (env : senv) (es : list expr) {struct es} : ssa_result (list expr * senv) :=
      match es with
      | [] => SOk ([], env)
      | x :: tl =>
        r <~ ssa_expr env x ;; let '(x', env1) := r in
        t <~ ssa_list env1 tl ;; let '(tl', env2) := t in SOk (x' :: tl', env2)
      end in
  let fix ssa_acc (env : senv) (acc : list (access expr)) {struct acc} : ssa_result (list (access expr) * senv) :=
      match acc with
      | [] => SOk ([], env)
      | AComp n :: tl => t <~ ssa_acc env tl ;; let '(tl', env2) := t in SOk (AComp n :: tl', env2)
      | AIdx x :: tl =>
        r <~ ssa_expr env x ;; let '(x', env1) := r in
        t <~ ssa_acc env1 tl ;; let '(tl', env2) := t in SOk (AIdx x' :: tl', env2)
      end in
  match e with
  | ENum _ _ | EPhi _ _ => SOk (e, env)
  | EVar v k =>
    (* non-locals are returned before the assertion is reached *)
    if is_local_in decls v then (v' <~ rename_read env v ;; SOk (EVar v' k, env)) else SOk (e, env)
  | EInfix op l r k =>
    a <~ ssa_expr env l ;; let '(l', env1) := a in
    b <~ ssa_expr env1 r ;; let '(r', env2) := b in SOk (EInfix op l' r' k, env2)
  | EPrefix op x k => a <~ ssa_expr env x ;; let '(x', env1) := a in SOk (EPrefix op x' k, env1)
  | ESwitch c t f k =>
    a <~ ssa_expr env c ;; let '(c', env1) := a in
    b <~ ssa_expr env1 t ;; let '(t', env2) := b in
    d <~ ssa_expr env2 f ;; let '(f', env3) := d in SOk (ESwitch c' t' f' k, env3)
  | ECall n args k => a <~ ssa_list env args ;; let '(args', env1) := a in SOk (ECall n args' k, env1)
  | EArray vs k => a <~ ssa_list env vs ;; let '(vs', env1) := a in SOk (EArray vs' k, env1)
  | EAccess v acc k =>
    a <~ ssa_acc env acc ;; let '(acc', env1) := a in
    if is_local_in decls v then (v' <~ rename_read env1 v ;; SOk (EAccess v' acc' k, env1))
    else SOk (EAccess v acc' k, env1)
  | EUpdate v acc rhe k =>
    a <~ ssa_expr env rhe ;; let '(rhe', env1) := a in
    b <~ ssa_acc env1 acc ;; let '(acc', env2) := b in
    if is_local_in decls v then
      match vn_version v with
      | Some _ => SPanic
      | None =>
        match cur_version env2 v with
        | Some n => SOk (EUpdate (with_version v n) acc' rhe' k, env2)
        | None => let '(n, env3) := next_version env2 v in SOk (EUpdate (with_version v n) acc' rhe' k, env3)
        end
      end
    else SOk (EUpdate v acc' rhe' k, env2)
  end.

Fixpoint ssa_exprs (env : senv) (es : list expr) : ssa_result (list expr * senv) :=
  match es with
  | [] => SOk ([], env)
  | x :: tl =>
    r <~ ssa_expr env x ;; let '(x', env1) := r in
    t <~ ssa_exprs env1 tl ;; let '(tl', env2) := t in SOk (x' :: tl', env2)
  end.

Fixpoint ssa_logargs (env : senv) (es : list logarg) : ssa_result (list logarg * senv) :=
  match es with
  | [] => SOk ([], env)
  | LStr :: tl => t <~ ssa_logargs env tl ;; let '(tl', env2) := t in SOk (LStr :: tl', env2)
  | LExpr x :: tl =>
    r <~ ssa_expr env x ;; let '(x', env1) := r in
    t <~ ssa_logargs env1 tl ;; let '(tl', env2) := t in SOk (LExpr x' :: tl', env2)
  end.

(* Statement::insert_ssa_variables *)
Definition ssa_stmt (env : senv) (s : stmt) : ssa_result (stmt * senv) :=
  match s with
  | SDecl m names t dims => a <~ ssa_exprs env dims ;; let '(dims', env1) := a in SOk (SDecl m names t dims', env1)
  | SSubst m v op rhe sval stype =>
    match vn_version v with
    | Some _ => SPanic                      (* assert!(var.version().is_none()) *)
    | None =>
      a <~ ssa_expr env rhe ;; let '(rhe', env1) := a in
      if is_local_in decls v then
        let '(n, env2) := next_version env1 v in SOk (SSubst m (with_version v n) op rhe' sval stype, env2)
      else SOk (SSubst m v op rhe' sval stype, env1)
    end
  | SCeq m l r =>
    a <~ ssa_expr env l ;; let '(l', env1) := a in
    b <~ ssa_expr env1 r ;; let '(r', env2) := b in SOk (SCeq m l' r', env2)
  | SLog m args => a <~ ssa_logargs env args ;; let '(args', env1) := a in SOk (SLog m args', env1)
  | SIf m c t f => a <~ ssa_expr env c ;; let '(c', env1) := a in SOk (SIf m c' t f, env1)
  | SRet m e => a <~ ssa_expr env e ;; let '(e', env1) := a in SOk (SRet m e', env1)
  | SAssert m e => a <~ ssa_expr env e ;; let '(e', env1) := a in SOk (SAssert m e', env1)
  end.

Fixpoint ssa_stmts (env : senv) (ss : list stmt) : ssa_result (list stmt * senv) :=
  match ss with
  | [] => SOk ([], env)
  | s :: tl =>
    r <~ ssa_stmt env s ;; let '(s', env1) := r in
    t <~ ssa_stmts env1 tl ;; let '(tl', env2) := t in SOk (s' :: tl', env2)
  end.
End Rename.

(* ---- phi insertion ---- *)
Definition phi_stmt_for (v : vname) : stmt :=
  SSubst {| m_start := 0%N; m_end := 0%N; m_file := None |} (without_version v) OpVar
         (EPhi [] know0) None (Some TLocal).

Definition is_phi_for (v : vname) (s : stmt) : bool :=
  match s with
  | SSubst _ x _ (EPhi _ _) _ _ => vname_eqb x v
  | _ => false
  end.

(* locals written by a block (statement order, without duplicates) *)
Definition stmt_local_written (s : stmt) : option vname :=
  match s with
  | SSubst _ v _ _ _ (Some TLocal) => Some v
  | _ => None
  end.

Fixpoint dedup_v (l : list vname) : list vname :=
  match l with
  | [] => []
  | x :: tl => if existsb (vname_eqb x) tl then dedup_v tl else x :: dedup_v tl
  end.

Definition vars_written (b : block) : list vname :=
  dedup_v (flat_map (fun s => match stmt_local_written s with Some v => [v] | None => [] end) (b_stmts b)).

Fixpoint update_nth {A} (l : list A) (i : nat) (f : A -> A) : list A :=
  match l, i with
  | [], _ => []
  | x :: tl, O => f x :: tl
  | x :: tl, S j => x :: update_nth tl j f
  end.

(* one frontier block: insert the missing phis, report whether any was inserted per variable *)
Fixpoint add_phis (vars : list vname) (b : block) (pushes : nat) : block * nat :=
  match vars with
  | [] => (b, pushes)
  | v :: tl =>
    if existsb (is_phi_for v) (b_stmts b) then add_phis tl b pushes
    else add_phis tl (set_stmts b (phi_stmt_for v :: b_stmts b)) (S pushes)
  end.

Fixpoint process_frontier (vars : list vname) (fr : list N) (bs : list block) (work : list nat)
  : list block * list nat :=
  match fr with
  | [] => (bs, work)
  | f :: tl =>
    match nth_error bs (N.to_nat f) with
    | None => process_frontier vars tl bs work
    | Some b =>
      let '(b', pushes) := add_phis vars b 0 in
      (* work_list.push(frontier_index) once per inserted phi *)
      process_frontier vars tl (update_nth bs (N.to_nat f) (fun _ => b')) (repeat (N.to_nat f) pushes ++ work)
    end
  end.

(* work list as a stack: the head is the next element popped *)
Fixpoint insert_phis (fuel : nat) (frontier : list (list N)) (bs : list block) (work : list nat)
  : ssa_result (list block) :=
  match work with
  | [] => SOk bs
  | cur :: rest =>
    match fuel with
    | O => SFuel
    | S fuel' =>
      match nth_error bs cur with
      | None => SPanic
      | Some b =>
        let vars := vars_written b in
        match vars with
        | [] => insert_phis fuel' frontier bs rest
        | _ =>
          let '(bs', work') := process_frontier vars (nth cur frontier []) bs rest in
          insert_phis fuel' frontier bs' work'
        end
      end
    end
  end.

(* ---- renaming along the dominator tree ---- *)
Definition ensure_phi_arg (env : senv) (s : stmt) : stmt :=
  match s with
  | SSubst m x op (EPhi args k) sv st =>
    match cur_version env x with
    | Some n =>
      if existsb (fun a => opt_eqb N.eqb (vn_version a) (Some n)) args then s
      else SSubst m x op (EPhi (args ++ [with_version x n]) k) sv st
    | None =>
      (* no version reaches along this edge: the unversioned name records the
         path on which the variable is still unassigned (fix for the phi without
         the default path) *)
      if existsb (vname_eqb (without_version x)) args then s
      else SSubst m x op (EPhi (args ++ [without_version x]) k) sv st
    end
  | _ => s
  end.

Fixpoint update_phis (env : senv) (ss : list stmt) : list stmt :=
  match ss with
  | s :: tl => if is_phi_stmt s then ensure_phi_arg env s :: update_phis env tl else ss
  | [] => []
  end.

Fixpoint update_succ_phis (env : senv) (succs : list N) (bs : list block) : list block :=
  match succs with
  | [] => bs
  | s :: tl => update_succ_phis env tl (update_nth bs (N.to_nat s) (fun b => set_stmts b (update_phis env (b_stmts b))))
  end.

Fixpoint rename_tree (fuel : nat) (decls : list (vname * vtype)) (children : list (list N))
         (cur : nat) (bs : list block) (env : senv) : ssa_result (list block * senv) :=
  match fuel with
  | O => SFuel
  | S fuel' =>
    match nth_error bs cur with
    | None => SPanic                       (* expect("invalid block index during SSA generation") *)
    | Some b =>
      r <~ ssa_stmts decls env (b_stmts b) ;;
      let '(ss', env1) := r in
      let bs1 := update_nth bs cur (fun b0 => set_stmts b0 ss') in
      let bs2 := update_succ_phis env1 (b_succs b) bs1 in
      (fix go (kids : list N) (bs : list block) (env : senv) {struct kids} : ssa_result (list block * senv) :=
         match kids with
         | [] => SOk (bs, env)
         | k :: tl =>
           r <~ rename_tree fuel' decls children (N.to_nat k) bs (push_scope env) ;;
           let '(bs', env') := r in
           go tl bs' (pop_scope env')
         end) (nth cur children []) bs2 env1
    end
  end.

(* ---- update_declarations and into_ssa ---- *)
Definition versions_of (env : senv) (v : vname) : list N :=
  match vget (se_global env) (key_of v) with
  | Some m => map N.of_nat (seq 0 (S (N.to_nat m)))
  | None => [0%N]                           (* never assigned *)
  end.

Definition update_decl_stmt (env : senv) (s : stmt) : stmt :=
  match s with
  | SDecl m (name :: _) TLocal dims => SDecl m (map (with_version name) (versions_of env name)) TLocal dims
  | _ => s
  end.

Definition into_ssa (frontier children : list (list N)) (c : cfg) : ssa_result cfg :=
  let n := length (c_blocks c) in
  let env0 := fold_left (fun env x => snd (next_version env x)) (c_params c) {| se_global := []; se_scoped := [[]] |} in
  let fuel := S (n * n * (S (length (c_decls c))) + n) in
  bs1 <~ insert_phis fuel frontier (c_blocks c) (rev (seq 0 n)) ;;
  r <~ rename_tree (S n) (c_decls c) children 0 bs1 env0 ;;
  let '(bs2, env) := r in
  let bs3 := map (fun b => set_stmts b (map (update_decl_stmt env) (b_stmts b))) bs2 in
  SOk {| c_kind := c_kind c;
         c_params := map (fun x => with_version x 0%N) (c_params c);
         c_decls := [];                      (* declarations are compared through the statements *)
         c_blocks := bs3 |}.
