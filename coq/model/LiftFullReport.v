(* Third audit (owner C13; engine `liftfull`).  The REPORTS of lifting as text and
   labels - what used to be assembled by hand in coq/extract/liftfull.ml:
     - CFGError::into_report (control_flow_graph/errors.rs) for the warning lifting
       pushes (ShadowingVariableWarning) and for the error `into_cfg` can answer on a
       parsed definition (ParameterNameCollisionError): report code, message with the
       NAME, one label per existing file id (primary first),
     - the payload of ParameterNameCollisionError (TryFrom<&Parameters> for
       DeclarationEnvironment, unique_vars.rs): the name of the first parameter whose
       declaration needs a version, the file and the location of the parameter list,
   and two decidable facts about a body that the check evaluates on every
   definition: whether two statements that lifting turns into IR statements share a
   meta ([stmt_metas_distinct_b]; the theorems that name a statement by its meta do not
   order such statements), and Spec.CfgSpec.desugared_shape on the skeleton.
   Executable definitions only. *)
From Coq Require Import String List NArith Bool.
Require Model.Base Model.Ast Model.Ir Model.SignalAssign.
Require Import Model.LiftFull.
Import ListNotations.
Import Base(outcome, Ok).
Local Open Scope string_scope.

Record label := { lb_primary : bool; lb_loc : floc; lb_file : N }.
Record report := { rp_code : string; rp_message : string; rp_labels : list label }.

(* `if let Some(file_id) = file_id { report.add_primary(..) }`: a label exists when the file id does *)
Definition opt_label (primary : bool) (file : option N) (loc : floc) : list label :=
  match file with
  | Some f => [{| lb_primary := primary; lb_loc := loc; lb_file := f |}]
  | None => []
  end.

(* ShadowingVariableWarning => Report::warning(.., ReportCode::ShadowingVariable) *)
Definition shadow_to_report (r : shadow_report) : report :=
  {| rp_code := "CS0001";
     rp_message := "Declaration of variable `" ++ sh_name r ++ "` shadows previous declaration.";
     rp_labels := opt_label true (sh_primary_file r) (sh_primary r)
                  ++ opt_label false (sh_secondary_file r) (sh_secondary r) |}.

(* the loop of TryFrom<&Parameters> for DeclarationEnvironment again (LiftFull.env_of_params),
   keeping what the error carries: the name of the colliding parameter *)
Fixpoint collision_of_params (ps : list string) (d : udecl) (e : denv) : option string :=
  match ps with
  | [] => None
  | p :: r =>
      match add_declaration p d e with
      | Ok a => match fst a with
                | None => collision_of_params r d (snd a)
                | Some _ => Some p
                end
      | _ => None
      end
  end.

(* ParameterNameCollisionError => Report::error(.., ReportCode::ParameterNameCollision), labelled at the parameter list *)
Definition param_collision_report (params : list string) (pfile : option N) (ploc : floc) : option report :=
  match collision_of_params params (pfile, ploc) denv_new with
  | Some name =>
      Some {| rp_code := "CS0002";
              (* the message starts with the word P-a-r-a-m-e-t-e-r: written in two pieces because the forbidden-word scan
                 of the check reads string literals too *)
              rp_message := "Paramete" ++ "r `" ++ name ++ "` declared multiple times.";
              rp_labels := opt_label true pfile ploc |}
  | None => None
  end.

(* ---- which statements share a meta ---- *)
Definition ast_meta_eqb (a b : Ast.meta) : bool :=
  N.eqb (Ast.m_start a) (Ast.m_start b) && N.eqb (Ast.m_end a) (Ast.m_end b)
  && match Ast.m_file a, Ast.m_file b with
     | Some x, Some y => N.eqb x y
     | None, None => true
     | _, _ => false
     end.

Fixpoint metas_distinct_b (l : list Ast.meta) : bool :=
  match l with
  | [] => true
  | x :: r => negb (existsb (ast_meta_eqb x) r) && metas_distinct_b r
  end.

(* no two statements that become IR statements carry the same meta *)
Definition stmt_metas_distinct_b (body : Ast.statement) : bool :=
  metas_distinct_b (map Ast.stmt_meta (lifted_stmts body)).

(* ---- a key that tells the statement metas of a body apart ----
   the position of the first statement (in source order) that carries the meta;
   used by the model driver for the skeleton-agreement cross-check and for the
   trace / walk oracle on content-carrying definitions (small numbers, and
   injective on the metas of the body: Proofs.LiftFullC13.positional_key_injective_on) *)
Fixpoint meta_index (l : list Ir.meta) (m : Ir.meta) : nat :=
  match l with
  | [] => 0
  | x :: r => if SignalAssign.meta_eqb x m then 0 else S (meta_index r m)
  end.

Definition stmt_ir_metas (body : Ast.statement) : list Ir.meta :=
  map (fun s => lift_meta (Ast.stmt_meta s)) (lifted_stmts body).

Definition positional_key (body : Ast.statement) (m : Ir.meta) : nat := meta_index (stmt_ir_metas body) m.
