(* Executable validator of value claims: every constant attached to a node of
   an annotated SSA graph is locally justified (a literal's residue; the claim
   shared by all defining assignments of the versioned local that is read; the
   operator applied to the claims of the operands; a phi whose arguments all
   carry the claim).  Soundness of justified claims w.r.t. the execution
   semantics is proved in Proofs.ValueProofs; the validator is also run on
   the implementation's real output at every pass budget (C06, C20).
   Definitions only. *)
From Coq Require Import ZArith NArith List Bool.
Require Import Model.Base Model.Field Model.Ir Model.Propagate.
Import ListNotations.
Local Open Scope Z_scope.

Definition all_stmts (bs : list block) : list stmt := flat_map b_stmts bs.

Definition opt_vred_eqb (a : option vred) (c : vred) : bool :=
  match a with Some x => vred_eqb x c | None => false end.

(* does statement s define local v with claim c (or not define v at all)? *)
Definition def_ok (v : vname) (c : vred) (s : stmt) : bool :=
  match s with
  | SSubst _ x _ rhe _ stype =>
    if vname_eqb x v
    then stype_is_local stype && negb (is_update rhe) && opt_vred_eqb (expr_val rhe) c
    else true
  | _ => true
  end.
Definition defines (v : vname) (s : stmt) : bool :=
  match s with SSubst _ x _ _ _ _ => vname_eqb x v | _ => false end.

(* every defining assignment of v carries the claim c, and there is one *)
Definition all_defs_claim (ss : list stmt) (v : vname) (c : vred) : bool :=
  forallb (def_ok v c) ss && existsb (defines v) ss.

Definition claim_none (k : know) : bool := match kval k with None => true | Some _ => false end.

Fixpoint vjust_expr (ss : list stmt) (p : Z) (e : expr) {struct e} : bool :=
  let fix vjust_list (es : list expr) : bool :=
      match es with [] => true | x :: tl => vjust_expr ss p x && vjust_list tl end in
  let fix vjust_acc (acc : list (access expr)) : bool :=
      match acc with
      | [] => true
      | AIdx x :: tl => vjust_expr ss p x && vjust_acc tl
      | AComp _ :: tl => vjust_acc tl
      end in
  match e with
  | ENum z k =>
    (0 <=? z) && match kval k with None => true | Some c => vred_eqb c (VField (Z.rem z p)) end
  | EVar v k =>
    match kval k with None => true | Some c => all_defs_claim ss v c end
  | EInfix op l r k =>
    vjust_expr ss p l && vjust_expr ss p r &&
    match kval k with
    | None => true
    | Some c => match infix_values op (expr_val l) (expr_val r) p with
                | Ok (Some c') => vred_eqb c c'
                | _ => false
                end
    end
  | EPrefix op x k =>
    vjust_expr ss p x &&
    match kval k with
    | None => true
    | Some c => opt_vred_eqb (prefix_values op (expr_val x) p) c
    end
  | ESwitch c t f k =>
    vjust_expr ss p c && vjust_expr ss p t && vjust_expr ss p f &&
    match kval k with
    | None => true
    | Some x => opt_vred_eqb (switch_value (expr_val c) (expr_val t) (expr_val f)) x
    end
  | ECall _ args k => vjust_list args && claim_none k
  | EArray vs k => vjust_list vs && claim_none k
  | EAccess _ acc k => vjust_acc acc && claim_none k
  | EUpdate _ acc rhe k => vjust_expr ss p rhe && vjust_acc acc && claim_none k
  | EPhi args k =>
    match kval k with
    | None => true
    | Some c => negb (match args with [] => true | _ => false end) && forallb (fun a => all_defs_claim ss a c) args
    end
  end.

Definition vjust_logarg (ss : list stmt) (p : Z) (a : logarg) : bool :=
  match a with LStr => true | LExpr e => vjust_expr ss p e end.

Definition vjust_stmt (ss : list stmt) (p : Z) (s : stmt) : bool :=
  match s with
  | SDecl _ _ _ dims => forallb (vjust_expr ss p) dims
  | SIf _ c _ _ => vjust_expr ss p c
  | SRet _ e => vjust_expr ss p e
  | SSubst _ _ _ rhe sval _ =>
    vjust_expr ss p rhe &&
    match sval with
    | None => true
    | Some c => negb (is_update rhe) && opt_vred_eqb (expr_val rhe) c
    end
  | SCeq _ l r => vjust_expr ss p l && vjust_expr ss p r
  | SLog _ args => forallb (vjust_logarg ss p) args
  | SAssert _ e => vjust_expr ss p e
  end.

Definition vjust_cfg (p : Z) (c : cfg) : bool :=
  let ss := all_stmts (c_blocks c) in forallb (vjust_stmt ss p) ss.

(* a variable that has a local defining assignment has no other assignment
   (true of SSA graphs: C14) - the side condition of the universal C20 theorem *)
Definition tgt (s : stmt) : option vname := match s with SSubst _ v _ _ _ _ => Some v | _ => None end.
Definition is_ldef (s : stmt) : bool := match s with SSubst _ _ _ _ _ st => stype_is_local st | _ => false end.
Definition ldefs_unique (ss : list stmt) : bool :=
  forallb (fun s => negb (is_ldef s) ||
                    match tgt s with
                    | Some v => Nat.eqb (length (filter (defines v) ss)) 1
                    | None => true
                    end) ss.
Definition ldefs_unique_cfg (c : cfg) : bool := ldefs_unique (all_stmts (c_blocks c)).
