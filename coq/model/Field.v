(* Mirror of /repo/circom_algebra/src/modular_arithmetic.rs (all 24 public
   functions), over Z.  Rust `%` on BigInt is truncated remainder (Z.rem),
   `/` is truncated quotient (Z.quot); bit operations on BigInt follow two's
   complement semantics like Z.land/Z.lor/Z.lxor.  Definitions only. *)
From Coq Require Import ZArith Zpow_facts.
Require Import Model.Base.
Local Open Scope Z_scope.

(* fn modulus(a, b) = ((a % b) + b) % b *)
Definition modulus (a b : Z) : Z := Z.rem (Z.rem a b + b) b.

(* elem.to_radix_le(2).1.len(): zero is written with one digit *)
Definition radix_len (x : Z) : Z := if x =? 0 then 1 else Z.log2 (Z.abs x) + 1.
(* BigInt::bits(): zero has no bits *)
Definition bits (x : Z) : Z := if x =? 0 then 0 else Z.log2 (Z.abs x) + 1.

Definition mask (p : Z) : Z := 2 ^ (radix_len p) - 1.

Definition add (l r p : Z) : Z := modulus (l + r) p.
Definition mul (l r p : Z) : Z := modulus (l * r) p.
Definition sub (l r p : Z) : Z := modulus (l - r) p.

(* extended Euclid as in num-bigint-dig's extended_gcd; fuel = bit size *)
Fixpoint egcd (fuel : nat) (a b : Z) : option (Z * Z * Z) :=
  if b =? 0 then Some (a, 1, 0)
  else match fuel with
       | O => None
       | S n =>
         match egcd n b (a mod b) with
         | Some (g, x, y) => Some (g, y, x - (a / b) * y)
         | None => None
         end
       end.

Definition egcd_fuel (a b : Z) : nat := Z.to_nat (Z.log2 (Z.abs a) + Z.log2 (Z.abs b) + 4).

(* BigInt::mod_inverse for a non-negative element and a positive modulus *)
Definition mod_inverse (g n : Z) : outcome (option Z) :=
  match egcd (egcd_fuel g n) g n with
  | None => OutOfFuel
  | Some (d, x, _) =>
    if d =? 1 then Ok (Some (if x <? 0 then x + n else x)) else Ok None
  end.

Definition div (l r p : Z) : outcome Z :=
  i <- mod_inverse r p ;;
  match i with
  | None => Err EDivisionByZero
  | Some ri => Ok (mul l ri p)
  end.

Definition idiv (l r p : Z) : outcome Z :=
  let l := modulus l p in
  let r := modulus r p in
  if r =? 0 then Err EDivisionByZero else Ok (Z.quot l r).

Definition mod_op (l r p : Z) : outcome Z :=
  let l := modulus l p in
  let r := modulus r p in
  if r =? 0 then Err EDivisionByZero else Ok (modulus l r).

(* base.modpow(exp, field) for non-negative base, exponent, positive modulus *)
Definition pow (b e p : Z) : Z := Zpow_mod b e p.

Definition prefix_sub (x p : Z) : Z := mul x (-1) p.

Definition complement_256 (x p : Z) : Z :=
  let m := (2 ^ 256 - 1) - (Z.abs x mod 2 ^ 256) in
  let cp := if x <? 0 then - m else m in
  modulus cp p.

(* right.to_usize(): None above 2^64 - 1 (64-bit target) or when negative *)
Definition to_usize (x : Z) : option Z :=
  if (0 <=? x) && (x <? 2 ^ 64) then Some x else None.

(* shift_l and shift_r call each other at most once (p - r <= p/2 when
   r > p/2), so the mutual recursion is unfolded one level, with the
   unreachable second bounce an explicit OutOfFuel. [built] is the exponent k
   of the power 2^k that the code materialises, if any. *)
Definition shl_direct (l r p : Z) : outcome Z :=
  match to_usize r with
  | None => Err EDivisionByZero
  | Some k =>
    if radix_len p <=? k then Ok 0
    else Ok (modulus (Z.land (l * 2 ^ k) (mask p)) p)
  end.

Definition shr_direct (l r p : Z) : outcome Z :=
  match to_usize r with
  | None => Err EDivisionByZero
  | Some k =>
    if bits l <=? k then Ok 0
    else Ok (Z.quot l (2 ^ k))
  end.

Definition shift_l (l r p : Z) : outcome Z :=
  let top := Z.quot p 2 in
  if r <=? top then shl_direct l r p
  else let r' := p - r in
       if r' <=? top then shr_direct l r' p
       else let r'' := p - r' in
            if r'' <=? top then shl_direct l r'' p else OutOfFuel.

Definition shift_r (l r p : Z) : outcome Z :=
  let top := Z.quot p 2 in
  if r <=? top then shr_direct l r p
  else let r' := p - r in
       if r' <=? top then shl_direct l r' p
       else let r'' := p - r' in
            if r'' <=? top then shr_direct l r'' p else OutOfFuel.

(* The mutual recursion of shift_l / shift_r AS WRITTEN (one Fixpoint on fuel, [left] says which
   of the two functions is running), instrumented with the work it does:
     sw_calls  number of calls of shift_l / shift_r made (the entry call included),
     sw_built  exponent k of the power of two `num_traits::pow(two, usize_repr)` it materialises
               (None: none is built - error, or the early `return Ok(0)`),
     sw_bits   bit size of the largest of: that power, the product `left * 2^k` formed from it
               (left shift), and the power 2^radix_len(p) from which `mask(field)` is made (left shift);
               0 when no power is built.  NOT in the record: `field - right`, `field / 2`, the results
               of `&`, `/` and `%` (which only shrink their operands) and the digit vectors of
               `to_radix_le(2)` (one byte per bit of the field, resp. of the operand).
   Value and work come from ONE definition (fourth audit: the work used to be computed by a second
   copy of the guards): [pow2_tick k w] is the only way a power of two enters a value, and it is what
   writes the record; Proofs.FieldProofs.shl_direct_w_value / shr_direct_w_value prove that the value
   part is shl_direct / shr_direct, shift_w_value that the recursion's value is shift_l / shift_r. *)
Record shift_work := { sw_calls : nat; sw_built : option Z; sw_bits : Z }.

Definition no_work : shift_work := {| sw_calls := 1; sw_built := None; sw_bits := 0 |}.

(* `num_traits::pow(two, k)`: the power, and the record saying that it was built *)
Definition pow2_tick (k : Z) (w : shift_work) : Z * shift_work :=
  (2 ^ k, {| sw_calls := sw_calls w; sw_built := Some k; sw_bits := Z.max (sw_bits w) (bits (2 ^ k)) |}).

(* a value computed from the power: its size enters the record *)
Definition sized (v : Z) (w : shift_work) : Z * shift_work :=
  (v, {| sw_calls := sw_calls w; sw_built := sw_built w; sw_bits := Z.max (sw_bits w) (bits v) |}).

Definition shl_direct_w (l r p : Z) : outcome Z * shift_work :=
  match to_usize r with
  | None => (Err EDivisionByZero, no_work)
  | Some k =>
    if radix_len p <=? k then (Ok 0, no_work)
    else
      let '(pw, w1) := pow2_tick k no_work in
      let '(prod, w2) := sized (l * pw) w1 in
      let '(mpow, w3) := sized (2 ^ radix_len p) w2 in        (* mask(field) = 2^b - 1 *)
      (Ok (modulus (Z.land prod (mpow - 1)) p), w3)
  end.

Definition shr_direct_w (l r p : Z) : outcome Z * shift_work :=
  match to_usize r with
  | None => (Err EDivisionByZero, no_work)
  | Some k =>
    if bits l <=? k then (Ok 0, no_work)
    else
      let '(pw, w1) := pow2_tick k no_work in
      (Ok (Z.quot l pw), w1)
  end.

Fixpoint shift_w (fuel : nat) (left : bool) (l r p : Z) : outcome Z * shift_work :=
  match fuel with
  | O => (OutOfFuel, {| sw_calls := 0; sw_built := None; sw_bits := 0 |})
  | S n =>
    let top := Z.quot p 2 in
    if r <=? top then
      (if left then shl_direct_w l r p else shr_direct_w l r p)
    else
      let '(res, w) := shift_w n (negb left) l (p - r) p in
      (res, {| sw_calls := S (sw_calls w); sw_built := sw_built w; sw_bits := sw_bits w |})
  end.

Definition bit_or (l r p : Z) : Z := modulus (Z.lor l r) p.
Definition bit_and (l r p : Z) : Z := modulus (Z.land l r) p.
Definition bit_xor (l r p : Z) : Z := modulus (Z.lxor l r) p.

Definition val (x p : Z) : Z :=
  let c := Z.quot p 2 + 1 in
  if (c <=? x) && (x <? p) then x - p else x.
Definition comparable_element (x p : Z) : Z := val (modulus x p) p.
Definition normalize (x p : Z) : Z := if comparable_element x p =? 0 then 0 else 1.
Definition as_bool (x p : Z) : bool := negb (normalize x p =? 0).
Definition not (x p : Z) : Z := Z.rem (normalize x p + 1) 2.
Definition bool_and (l r p : Z) : Z := normalize l p * normalize r p.
Definition bool_or (l r p : Z) : Z :=
  Z.rem (normalize l p + normalize r p + bool_and l r p) 2.
Definition eq (l r p : Z) : Z := if modulus l p =? modulus r p then 1 else 0.
Definition lesser (l r p : Z) : Z :=
  if comparable_element l p <? comparable_element r p then 1 else 0.
Definition not_eq (l r p : Z) : Z := not (eq l r p) p.
Definition lesser_eq (l r p : Z) : Z := bool_or (lesser l r p) (eq l r p) p.
Definition greater (l r p : Z) : Z := not (lesser_eq l r p) p.
Definition greater_eq (l r p : Z) : Z := bool_or (greater l r p) (eq l r p) p.

(* Uniform entry point used by the correspondence driver and the theorems. *)
Inductive fop :=
| OAdd | OMul | OSub | ODiv | OIDiv | OMod | OPow | ONeg | OCompl | OShl | OShr
| OBor | OBand | OBxor | OAsBool | ONot | OOr | OAnd | OEq | OLt | ONeq | OLe | OGt | OGe.

Definition all_fops : list fop :=
  [OAdd; OMul; OSub; ODiv; OIDiv; OMod; OPow; ONeg; OCompl; OShl; OShr;
   OBor; OBand; OBxor; OAsBool; ONot; OOr; OAnd; OEq; OLt; ONeq; OLe; OGt; OGe].

Definition eval (o : fop) (a b p : Z) : outcome Z :=
  match o with
  | OAdd => Ok (add a b p) | OMul => Ok (mul a b p) | OSub => Ok (sub a b p)
  | ODiv => div a b p | OIDiv => idiv a b p | OMod => mod_op a b p
  | OPow => Ok (pow a b p) | ONeg => Ok (prefix_sub a p)
  | OCompl => Ok (complement_256 a p)
  | OShl => shift_l a b p | OShr => shift_r a b p
  | OBor => Ok (bit_or a b p) | OBand => Ok (bit_and a b p) | OBxor => Ok (bit_xor a b p)
  | OAsBool => Ok (if as_bool a p then 1 else 0)
  | ONot => Ok (not a p) | OOr => Ok (bool_or a b p) | OAnd => Ok (bool_and a b p)
  | OEq => Ok (eq a b p) | OLt => Ok (lesser a b p) | ONeq => Ok (not_eq a b p)
  | OLe => Ok (lesser_eq a b p) | OGt => Ok (greater a b p) | OGe => Ok (greater_eq a b p)
  end.
