(* Shared base of the executable models: outcomes with explicit panic sites. *)
From Coq Require Export ZArith List Bool.
Export ListNotations.

Inductive error :=
| EDivisionByZero
| EBitOverflow
| EOther (code : Z).

(* Every Rust panic site reachable in a mirrored function is an explicit
   [Panic site] outcome; every unbounded loop is recursion on fuel and returns
   [OutOfFuel] when the fuel is exhausted. Neither is ever a normal-looking
   value. *)
Inductive outcome (A : Type) :=
| Ok (a : A)
| Err (e : error)
| Panic (site : Z)
| OutOfFuel.
Arguments Ok {A} a.
Arguments Err {A} e.
Arguments Panic {A} site.
Arguments OutOfFuel {A}.

Definition bind {A B} (m : outcome A) (f : A -> outcome B) : outcome B :=
  match m with
  | Ok a => f a
  | Err e => Err e
  | Panic s => Panic s
  | OutOfFuel => OutOfFuel
  end.

Definition omap {A B} (f : A -> B) (m : outcome A) : outcome B :=
  bind m (fun a => Ok (f a)).

Definition is_ok {A} (m : outcome A) : bool :=
  match m with Ok _ => true | _ => false end.

Definition is_panic {A} (m : outcome A) : bool :=
  match m with Panic _ => true | _ => false end.

Notation "x <- m ;; f" := (bind m (fun x => f))
  (at level 61, m at next level, right associativity).

(* Extraction root that forces the numeric datatypes (and their modules
   BinNums/Datatypes) into every engine's extracted code, for drvlib.ml. *)
Definition base_roots := (Z.add, N.add, Nat.add, Pos.add, @List.length Z).
