(* RunnerSrc — the source level of Model.Runner (property C17 only).

   Model.Runner takes, per definition, the CONCATENATED RESULT of the passes
   ([d_pass]) and the lookups they made ([d_lookups]) as input data.  That
   hides how the result of a pass depends on other definitions.  Here the
   dependence is made explicit, as it is in the code:

     program_analysis/src/unused_output_signal.rs   find_unused_output_signals:
        for every component instantiation `c = T(..)` of the analysed CFG whose
        template name is not on ALLOW_LIST:   context.template(&T)
        and of an Ok(cfg) answer it reads   cfg.output_signals()   and, per
        output signal, the number of   declaration.dimensions().
     program_analysis/src/lib.rs   get_analysis_passes: the other 12 passes
        ignore the context.
     program_analysis/src/analysis_runner.rs   AnalysisContext::template =
        cache_template: Err for an unknown name and for a template whose CFG
        generation fails, Ok(&cfg) of the CFG generated from its own AST otherwise.

   So a definition is given by what is a function of ITS OWN source text
   (the reports and the error of CFG/SSA generation, what a lookup of it can
   show to others, the names its passes look up, in order) and by a FUNCTION
   from the answers to those lookups to the pass reports.  Because that
   function receives nothing but the answers to [s_refs], "the passes depend on
   other definitions only through the lookups they make" holds by construction
   of the model; that the real passes behave like such a function is what
   lib/props/C17.py checks on every case (harness `c17 deps`: the lookups of
   the real runner with their answers; findings grouped by own source text and
   answers must coincide).

   Definitions only (no proofs). *)
From Coq Require Import ZArith List Bool.
Require Import Model.Base Gen.Category Model.Runner.
Import ListNotations.
Local Open Scope Z_scope.

(* what a pass can read from Ok(&cfg): output signal names with their number of dimensions *)
Definition summary := list (Z * nat).
(* the answer to context.template(name): None = Err(UnknownTemplate | FailedToLiftTemplate) *)
Definition answer := option summary.

Record sdef := mkSDef {
  s_kind : kind; s_name : Z; s_file : Z;
  s_lift : list report;                  (* reports pushed while building CFG + SSA *)
  s_err : option report;                 (* Err(report) of generate_cfg *)
  s_summary : summary;                   (* what a lookup of this definition shows (if it lifts) *)
  s_refs : list Z;                       (* template names its passes look up, in order *)
  s_pass : list answer -> list report    (* the 13 passes, given the answers to those lookups *)
}.
Definition s_key (d : sdef) : key := (s_kind d, s_name d).

Fixpoint find_sdef (ds : list sdef) (k : key) : option sdef :=
  match ds with
  | [] => None
  | d :: ds' => if key_eqb k (s_key d) then Some d else find_sdef ds' k
  end.

(* AnalysisContext::template(name) as the passes see it, in the library [ds] *)
Definition answer_of (ds : list sdef) (n : Z) : answer :=
  match find_sdef ds (KTemplate, n) with
  | Some d => match s_err d with None => Some (s_summary d) | Some _ => None end
  | None => None
  end.

(* the stage outputs of one definition inside the library [ds]: the input of Model.Runner *)
Definition inst (ds : list sdef) (d : sdef) : def :=
  mkDef (s_kind d) (s_name d) (s_file d) (s_lift d) (s_err d)
        (s_pass d (map (answer_of ds) (s_refs d))) (s_refs d).

Record sproject := mkSProject {
  sp_parse : list report;      (* ReportCollection returned by parse_files *)
  sp_defs : list sdef;         (* contents of template_asts / function_asts *)
  sp_user : list Z             (* FileLibrary::user_inputs *)
}.

Definition inst_project (sp : sproject) : project :=
  mkProject (sp_parse sp) (map (inst (sp_defs sp)) (sp_defs sp)) (sp_user sp).

(* main, from the sources *)
Definition run_src (sp : sproject) (o : opts) (order : list key) : result :=
  run_keys (inst_project sp) o order.

(* definitions added to / removed from the maps *)
Definition sadd (sp : sproject) (extra : list sdef) : sproject :=
  mkSProject (sp_parse sp) (sp_defs sp ++ extra) (sp_user sp).

(* the maps holding the same definitions, enumerated in another order *)
Definition swith (sp : sproject) (ds : list sdef) : sproject :=
  mkSProject (sp_parse sp) ds (sp_user sp).

Definition s_user_b (user : list Z) (d : sdef) : bool := existsb (Z.eqb (s_file d)) user.

(* is the template named by [x] looked up by the passes of [d]? *)
Definition looks_up_b (d x : sdef) : bool :=
  kind_eqb (s_kind x) KTemplate && existsb (Z.eqb (s_name x)) (s_refs d).

(* what analysing [k] appends to the display, in runner state [s] *)
Definition shown_by (ds : list def) (o : opts) (user : list Z) (s : rstate) (k : key) : list report :=
  skipn (length (shown s)) (shown (analyze ds o user s k)).
