(* Mirror of /repo/parser/src/include_logic.rs (`FileStack`: `new`,
   `add_libraries`, `add_files`, `add_include`, `include_library`, `take_next`,
   `is_user_input`) and of the `parse_files` loop / `parse_file` of
   /repo/parser/src/lib.rs, statement for statement.  Definitions only.

   The file system is abstract: inside the Section it is given by the
   functions [canon] (`fs::canonicalize`), [is_dir] (`Path::is_dir`), [is_file]
   (`Path::is_file`), [read_dir]
   (`fs::read_dir`, the entry names in the order the OS returns them), [join]
   (`PathBuf::push` / `Path::join`), [parent] (`PathBuf::pop`), [file_name]
   (`Path::file_name`), [ext_circom] (`Path::extension() == Some("circom")`),
   [starts_dot] (`include.path.find('.') == Some(0)`), [has_sep]
   (`include.path.find(MAIN_SEPARATOR).is_some()`) and [content] (what reading
   and parsing a file yields, abstracted to its include statements).  Below the
   Section the same functions are computed from finite data ([fs_data]) over
   path spellings that are strings; that instance is what is extracted and run
   against the implementation.

   Conventions
   * `stack: Vec<PathBuf>` is a list whose HEAD is the top (push = cons);
   * `black_paths`, `user_inputs : HashSet<PathBuf>` are lists used only through
     membership (the code never iterates over them);
   * `add_files` recurses into directories: recursion on fuel ([OutOfFuel] when
     directories nest deeper than the fuel); `take_next`'s loop pops the stack
     and is structural; the `while let Some(..) = take_next` loop of
     `parse_files` is recursion on fuel;
   * the two `expect`s are [Panic] sites;
   * [d23 = true] gives the code as it was before the repair recorded as
     C19-D23 in known_findings.jsonl (`include_library` pushed the
     un-canonicalised `lib.path.join(path)`; only that statement is switched,
     the later repairs C02-non-circom-argument and C19-include-unreadable are
     in both); [d23 = false] is the current code.  The theorems are about [false]; the old behaviour is kept for the
     refutation lemma and for replaying the witness. *)
Require Model.Base.
From Coq Require Import ZArith Ascii String.
From stdpp Require Import list strings.

Notation outcome := Base.outcome.
Notation Ok := Base.Ok.
Notation Err := Base.Err.
Notation Panic := Base.Panic.
Notation OutOfFuel := Base.OutOfFuel.
Notation "'let*' x := m 'in' f" := (Base.bind m (fun x => f))
  (at level 200, x name, m at level 100, f at level 200, right associativity).

Definition site_current_location : Z := 1901.   (* current_location.expect("parsing file") *)
Definition site_library_file_name : Z := 1902.  (* file_name().expect("good library file") *)

(* what `open_file` + `parser_logic::parse_file` yield for a path *)
Inductive file_content (path : Type) :=
| Unreadable                                   (* read_to_string fails *)
| Unparsable                                   (* the parser returns an error *)
| Parsed (incs : list (path * nat * nat)).     (* include statements: path, start, end *)
Arguments Unreadable {path}.
Arguments Unparsable {path}.
Arguments Parsed {path} incs.

Section FileStack.
  Context {path : Type} `{EqDecision path}.
  Variable canon : path -> option path.
  Variable is_dir : path -> bool.
  Variable is_file : path -> bool.
  Variable read_dir : path -> option (list path).
  Variable join : path -> path -> path.
  Variable parent : path -> path.
  Variable file_name : path -> option path.
  Variable ext_circom : path -> bool.
  Variable starts_dot : path -> bool.
  Variable has_sep : path -> bool.
  Variable content : path -> file_content path.

  Record library := Library { lib_dir : bool; lib_path : path }.

  (* ast::Include with the parts of its Meta that are used *)
  Record include := Include {
    inc_path : path; inc_file : option nat; inc_start : nat; inc_end : nat }.

  Inductive report :=
  | FileOsError (p : path)                                     (* no label *)
  | IncludeError (p : path) (fid : option nat) (s e : nat)     (* primary label fid, s..e *)
  | ParsingError (fid : nat).

  Record file_stack := FileStack {
    current_location : option path;
    black_paths : list path;
    user_inputs : list path;
    libraries : list library;
    stack : list path }.

  Definition push (p : path) (st : file_stack) : file_stack :=
    FileStack (current_location st) (black_paths st) (user_inputs st) (libraries st) (p :: stack st).

  (* ---- add_libraries ---- *)
  Definition add_library (acc : list library * list report) (p : path) : list library * list report :=
    if is_dir p then (acc.1 ++ [Library true p], acc.2)
    else if ext_circom p then
      match canon p with
      | Some c => (acc.1 ++ [Library false c], acc.2)
      | None => (acc.1, acc.2 ++ [FileOsError p])
      end
    else acc.
  Definition add_libraries (libs : list path) (reports : list report) : list library * list report :=
    foldl add_library ([], reports) libs.

  (* ---- add_files ---- *)
  (* [named]: the paths come from the command line (a non-directory is then
     always an input file); false for the entries of a directory, which are
     filtered on the `.circom` extension *)
  Fixpoint add_files (fuel : nat) (named : bool) (paths : list path) (acc : list path * list report)
      : outcome (list path * list report) :=
    match fuel with
    | O => OutOfFuel
    | S fuel' =>
      (fix go (paths : list path) (acc : list path * list report) : outcome (list path * list report) :=
         match paths with
         | [] => Ok acc
         | p :: rest =>
           if is_dir p then
             match read_dir p with
             | Some names =>
               let* acc' := add_files fuel' false (map (join p) names) acc in go rest acc'
             | None => go rest acc
             end
           else if named || ext_circom p then
             match canon p with
             | Some c => go rest (c :: acc.1, acc.2)
             | None => go rest (acc.1, acc.2 ++ [FileOsError p])
             end
           else go rest acc
         end) paths acc
    end.

  (* the nesting-depth premise of the termination theorems ([Spec.depth_le]),
     decided: the directories below [p] nest at most [k] deep (a directory
     that cannot be listed counts as a leaf, as in `add_files`).  Not part of
     the mirror: it is run by the driver on every project so that the premise
     of C19_run_project_fuel_ok is evaluated, not assumed (third audit) *)
  Fixpoint depth_le_b (k : nat) (p : path) : bool :=
    if is_dir p then
      match read_dir p with
      | None => true
      | Some names =>
        match k with
        | O => false
        | S k' => forallb (fun n => depth_le_b k' (join p n)) names
        end
      end
    else true.

  (* ---- add_files_once (fix 517e7a0) ---- *)
  (* `add_files` as it is now: `directories: &mut HashSet<PathBuf>` holds the
     canonical paths of the directories read so far, a directory met again
     (through a link to itself or to a parent) is skipped (`continue`).  The
     set is [dirs.1] (used through membership only); [dirs.2] is not in the
     code: it records that the `continue` was taken at least once, so that the
     premise "no directory was met twice" of the theorems that speak about
     [Spec.named] can be evaluated on every run.  A directory that cannot be
     canonicalised (`if let Ok(directory)` fails) is read without being
     recorded.  The function [add_files] above — the code before the fix — is
     kept: with the flag false both compute the same (Proofs:
     add_files_once_bridge), and it is the enumerator the specification side
     and C02's proofs are stated about. *)
  Fixpoint add_files_once (fuel : nat) (named : bool) (paths : list path)
           (dirs : list path * bool) (acc : list path * list report)
      : outcome ((list path * bool) * (list path * list report)) :=
    match fuel with
    | O => OutOfFuel
    | S fuel' =>
      (fix go (paths : list path) (dirs : list path * bool) (acc : list path * list report)
         : outcome ((list path * bool) * (list path * list report)) :=
         match paths with
         | [] => Ok (dirs, acc)
         | p :: rest =>
           if is_dir p then
             match canon p with
             | Some d =>
               if decide (d ∈ dirs.1) then go rest (dirs.1, true) acc
               else
                 match read_dir p with
                 | Some names =>
                   let* r := add_files_once fuel' false (map (join p) names) (d :: dirs.1, dirs.2) acc in
                   go rest r.1 r.2
                 | None => go rest (d :: dirs.1, dirs.2) acc
                 end
             | None =>
               match read_dir p with
               | Some names =>
                 let* r := add_files_once fuel' false (map (join p) names) dirs acc in go rest r.1 r.2
               | None => go rest dirs acc
               end
             end
           else if named || ext_circom p then
             match canon p with
             | Some c => go rest dirs (c :: acc.1, acc.2)
             | None => go rest dirs (acc.1, acc.2 ++ [FileOsError p])
             end
           else go rest dirs acc
         end) paths dirs acc
    end.

  (* ---- FileStack::new ---- *)
  Definition new (fuel : nat) (paths libs : list path) (reports : list report)
      : outcome (file_stack * list report) :=
    let '(ls, reports) := add_libraries libs reports in
    let* r := add_files_once fuel true paths ([], false) ([], reports) in
    Ok (FileStack None [] r.2.1 ls r.2.1, r.2.2).

  (* the code before 517e7a0 (every spelling of a named directory expanded) *)
  Definition new_all (fuel : nat) (paths libs : list path) (reports : list report)
      : outcome (file_stack * list report) :=
    let '(ls, reports) := add_libraries libs reports in
    let* r := add_files fuel true paths ([], reports) in
    Ok (FileStack None [] r.1 ls r.1, r.2).

  (* was a directory met twice while the named paths were expanded? *)
  Definition dirs_revisited (fuel : nat) (paths libs : list path) : bool :=
    match add_files_once fuel true paths ([], false) ([], (add_libraries libs []).2) with
    | Ok r => r.1.2
    | _ => false
    end.

  (* ---- include_library: the `for lib in &self.libraries` loop ---- *)
  Fixpoint search_libraries (d23 : bool) (inc : path) (libs : list library) : outcome (option path) :=
    match libs with
    | [] => Ok None
    | lib :: rest =>
      if lib_dir lib then
        if starts_dot inc then search_libraries d23 inc rest
        else
          let libpath := join (lib_path lib) inc in
          match canon libpath with
          | Some c =>
            if is_file c then Ok (Some (if d23 then libpath else c))
            else search_libraries d23 inc rest
          | None => search_libraries d23 inc rest
          end
      else
        if has_sep inc then search_libraries d23 inc rest
        else
          match file_name (lib_path lib) with
          | None => Panic site_library_file_name
          | Some n =>
            if decide (n = inc) then Ok (Some (lib_path lib)) else search_libraries d23 inc rest
          end
    end.

  Definition include_library (d23 : bool) (st : file_stack) (inc : include)
      : outcome (file_stack * option report) :=
    let* r := search_libraries d23 (inc_path inc) (libraries st) in
    match r with
    | Some p => Ok (push p st, None)
    | None => Ok (st, Some (IncludeError (inc_path inc) (inc_file inc) (inc_start inc) (inc_end inc)))
    end.

  (* ---- add_include ---- *)
  Definition add_include (d23 : bool) (st : file_stack) (inc : include)
      : outcome (file_stack * option report) :=
    match current_location st with
    | None => Panic site_current_location
    | Some loc =>
      let location := join loc (inc_path inc) in
      match canon location with
      | Some p =>
        if is_file p then Ok (if decide (p ∈ black_paths st) then st else push p st, None)
        else include_library d23 st inc
      | None => include_library d23 st inc
      end
    end.

  (* ---- take_next ---- *)
  Fixpoint pop_next (black : list path) (stk : list path) : option (path * list path) :=
    match stk with
    | [] => None
    | p :: rest => if decide (p ∈ black) then pop_next black rest else Some (p, rest)
    end.

  Definition take_next (st : file_stack) : option path * file_stack :=
    match pop_next (black_paths st) (stack st) with
    | None => (None, FileStack (current_location st) (black_paths st) (user_inputs st) (libraries st) [])
    | Some (p, rest) =>
      (Some p, FileStack (Some (parent p)) (p :: black_paths st) (user_inputs st) (libraries st) rest)
    end.

  Definition is_user_input (st : file_stack) (p : path) : bool := bool_decide (p ∈ user_inputs st).

  (* ---- parse_files / parse_file ---- *)
  Record parse_state := ParseState {
    ps_stack : file_stack;
    ps_files : list (path * bool);     (* FileLibrary: entry i is file id i (name, is_user_input) *)
    ps_reports : list report;
    ps_read : list path }.             (* the paths `parse_file` was called on, in order *)

  (* for include in &program.includes { if let Err(report) = add_include .. { reports.push } } *)
  Fixpoint add_includes (d23 : bool) (st : file_stack) (incs : list include) (warnings : list report)
      : outcome (file_stack * list report) :=
    match incs with
    | [] => Ok (st, warnings)
    | inc :: rest =>
      let* r := add_include d23 st inc in
      add_includes d23 r.1 rest (match r.2 with Some rep => warnings ++ [rep] | None => warnings end)
    end.

  Definition mk_include (fid : nat) (i : path * nat * nat) : include :=
    Include i.1.1 (Some fid) i.1.2 i.2.

  Definition parse_file (d23 : bool) (p : path) (s : parse_state) : outcome parse_state :=
    let read := ps_read s ++ [p] in
    match content p with
    | Unreadable =>
      Ok (ParseState (ps_stack s) (ps_files s) (ps_reports s ++ [FileOsError p]) read)
    | Unparsable =>
      let fid := length (ps_files s) in
      Ok (ParseState (ps_stack s) (ps_files s ++ [(p, is_user_input (ps_stack s) p)])
                     (ps_reports s ++ [ParsingError fid]) read)
    | Parsed incs =>
      let fid := length (ps_files s) in
      let* r := add_includes d23 (ps_stack s) (map (mk_include fid) incs) [] in
      Ok (ParseState r.1 (ps_files s ++ [(p, is_user_input (ps_stack s) p)]) (ps_reports s ++ r.2) read)
    end.

  Fixpoint parse_loop (d23 : bool) (fuel : nat) (s : parse_state) : outcome parse_state :=
    match fuel with
    | O => OutOfFuel
    | S fuel' =>
      match take_next (ps_stack s) with
      | (None, st) => Ok (ParseState st (ps_files s) (ps_reports s) (ps_read s))
      | (Some p, st) =>
        let* s' := parse_file d23 p (ParseState st (ps_files s) (ps_reports s) (ps_read s)) in
        parse_loop d23 fuel' s'
      end
    end.

  Definition parse_files (d23 : bool) (dir_fuel loop_fuel : nat) (paths libs : list path)
      : outcome parse_state :=
    let* r := new dir_fuel paths libs [] in
    parse_loop d23 loop_fuel (ParseState r.1 [] r.2 []).
End FileStack.

Arguments Library {path}.
Arguments Include {path}.
Arguments FileOsError {path}.
Arguments IncludeError {path}.
Arguments ParsingError {path}.
Arguments FileStack {path}.
Arguments ParseState {path}.

(* ------------------------------------------------------------------------ *)
(* The instance run against the implementation: spellings are byte strings   *)
(* ([list ascii]; not Coq's [string], whose extracted module would shadow    *)
(* OCaml's in the shared driver library), the path functions are those of    *)
(* Unix `PathBuf`, the file system is data.                                  *)
(* ------------------------------------------------------------------------ *)

Notation spath := (list ascii).
Definition str (s : string) : spath := list_ascii_of_string s.

Definition slash : ascii := "/"%char.
Definition dot : ascii := "."%char.

(* (text before the last occurrence of [x], text after it) *)
Fixpoint split_last (x : ascii) (s : spath) : option (spath * spath) :=
  match s with
  | [] => None
  | c :: r =>
    match split_last x r with
    | Some (a, b) => Some (c :: a, b)
    | None => if decide (c = x) then Some ([], r) else None
    end
  end.

Fixpoint strip_trailing_slashes (s : spath) : spath :=
  match s with
  | [] => []
  | c :: r =>
    let r' := strip_trailing_slashes r in
    if decide (c = slash) then (if decide (r' = []) then [] else c :: r')
    else c :: r'
  end.

Definition ends_with_slash (s : spath) : bool := bool_decide (last s = Some slash).

Definition s_is_absolute (s : spath) : bool := bool_decide (head s = Some slash).

(* PathBuf::push on Unix *)
Definition s_join (a b : spath) : spath :=
  if s_is_absolute b then b
  else if bool_decide (a = []) || ends_with_slash a then a ++ b
  else a ++ slash :: b.

(* Path::file_name for spellings whose last component is a normal one or `..` *)
Definition s_file_name (p : spath) : option spath :=
  let q := strip_trailing_slashes p in
  let name := match split_last slash q with Some (_, b) => b | None => q end in
  if decide (name = []) then None
  else if decide (name = [dot; dot]) then None
  else Some name.

(* PathBuf::pop for spellings without a trailing slash and without `.`/`..`
   as last component (all canonical paths are of that form) *)
Definition s_parent (p : spath) : spath :=
  match split_last slash p with
  | Some ([], []) => p              (* "/" has no parent: pop() leaves it *)
  | Some ([], _) => [slash]
  | Some (a, _) => a
  | None => []
  end.

Definition circom_ext : spath := ["c"; "i"; "r"; "c"; "o"; "m"]%char.

(* Path::extension() == Some("circom") *)
Definition s_ext_circom (p : spath) : bool :=
  match s_file_name p with
  | None => false
  | Some name =>
    match split_last dot name with
    | Some (before, after) => negb (bool_decide (before = [])) && bool_decide (after = circom_ext)
    | None => false
    end
  end.

Definition s_starts_dot (s : spath) : bool := bool_decide (head s = Some dot).

Definition s_has_sep (s : spath) : bool := bool_decide (slash ∈ s).

Fixpoint assoc {B} (k : spath) (l : list (spath * B)) : option B :=
  match l with
  | [] => None
  | (k', v) :: r => if decide (k' = k) then Some v else assoc k r
  end.

(* the file system as data *)
Record fs_data := FsData {
  fs_canon : list (spath * option spath);      (* spelling -> canonical path, None: does not exist *)
  fs_dirs : list (spath * list spath);         (* spellings that are directories, with their entry names *)
  fs_files : list spath;                       (* canonical paths that are regular files *)
  fs_content : list (spath * file_content spath) }.

Definition d_canon (d : fs_data) (p : spath) : option spath :=
  match assoc p (fs_canon d) with Some r => r | None => None end.
Definition d_is_dir (d : fs_data) (p : spath) : bool :=
  match assoc p (fs_dirs d) with Some _ => true | None => false end.
Definition d_is_file (d : fs_data) (p : spath) : bool := bool_decide (p ∈ fs_files d).
Definition d_read_dir (d : fs_data) (p : spath) : option (list spath) := assoc p (fs_dirs d).
Definition d_content (d : fs_data) (p : spath) : file_content spath :=
  match assoc p (fs_content d) with Some c => c | None => Unreadable end.

(* canonicalising a canonical path gives the path itself: the premise of the
   theorems, decided on a table *)
Definition canon_idempotent_b (d : fs_data) : bool :=
  forallb (fun kv => match kv.2 with
                     | Some c => bool_decide (d_canon d c = Some c)
                     | None => true
                     end) (fs_canon d).

Definition canonical_paths (d : fs_data) : list spath :=
  omap (fun kv => kv.2) (fs_canon d).

Definition dir_fuel : nat := 64.

(* the two premises of the theorems about [run_project], decided on the table *)
Definition depth_ok_b (d : fs_data) (argv : list spath) : bool :=
  forallb (depth_le_b (d_is_dir d) (d_read_dir d) s_join 63) argv.
Definition dirs_revisited_b (d : fs_data) (argv libs : list spath) : bool :=
  dirs_revisited (d_canon d) (d_is_dir d) (d_read_dir d) s_join s_ext_circom dir_fuel argv libs.

Definition run_project (d23 : bool) (d : fs_data) (argv libs : list spath) : outcome (parse_state (path:=spath)) :=
  parse_files (d_canon d) (d_is_dir d) (d_is_file d) (d_read_dir d) s_join s_parent s_file_name s_ext_circom
              s_starts_dot s_has_sep (d_content d) d23 dir_fuel
              (S (length (fs_canon d) + length (canonical_paths d))) argv libs.
