(* Runner — executable mirror of the report path of circomspect, AFTER the
   fix: commits 62ddfef (label-less reports pass the file filter), 9edc4b5 (a
   failed lift keeps its error in the report cache), 77caaad (cached reports
   are taken after the CFG was generated), 9e1d41b (parameter collisions are
   error level; a property of the ground truth, not of this model):

     program_analysis/src/analysis_runner.rs   AnalysisRunner::{analyze_template,
        analyze_function, analyze_templates, analyze_functions, cache_template,
        cache_function, take_*, replace_*, append_*_reports, take_*_reports}
     program_structure/src/utils/writers.rs    StdoutWriter, CachedStdoutWriter,
        SarifWriter (filter / write_reports / reports_written)
     program_structure/src/utils/sarif_conversion.rs  rule descriptors
     cli/src/main.rs                           filter_by_file/level/id, main
     program_structure/src/program_library/template_library.rs  TemplateLibrary::new

   Definitions only (no proofs).  What the stages *produce* (the parser's
   reports, per definition the reports of CFG/SSA generation, its error, the
   reports of the analysis passes and the templates a pass looks up) is input
   data (collected in process by harness/src/bin/e2e.rs); what is modelled is
   everything that decides whether and how often a produced report reaches the
   user.  HashMap iteration orders are explicit parameters ([order] lists). *)
From Coq Require Import ZArith List Bool.
Require Import Model.Base Gen.Category.
Import ListNotations.
Local Open Scope Z_scope.

(* ---- data ---------------------------------------------------------------- *)

Inductive kind := KFunction | KTemplate.
Definition key := (kind * Z)%type.          (* which map, and the name *)

Definition kind_eqb (a b : kind) : bool :=
  match a, b with KFunction, KFunction | KTemplate, KTemplate => true | _, _ => false end.
Definition key_eqb (a b : key) : bool := kind_eqb (fst a) (fst b) && (snd a =? snd b).

(* Report: category, code (id and rule name are both functions of the code,
   but are carried separately as in ReportCode::{id,name}), the FileIDs of
   the primary labels, and an opaque payload (message, labels, notes). *)
Record report := mkReport {
  r_level : level; r_id : Z; r_name : Z; r_pfiles : list Z; r_payload : Z }.

Record def := mkDef {
  d_kind : kind; d_name : Z; d_file : Z;
  d_lift : list report;        (* reports pushed while building CFG + SSA *)
  d_err : option report;       (* Err(report) of generate_cfg *)
  d_pass : list report;        (* concatenated results of the 13 passes *)
  d_lookups : list Z           (* context.template(name) calls made by the passes, in order *)
}.
Definition d_key (d : def) : key := (d_kind d, d_name d).

Record project := mkProject {
  p_parse : list report;       (* ReportCollection returned by parse_files *)
  p_defs : list def;           (* contents of template_asts / function_asts *)
  p_user : list Z              (* FileLibrary::user_inputs *)
}.

Record opts := mkOpts {
  o_level : level; o_allow : list Z; o_verbose : bool; o_sarif : bool }.

(* ---- cli/src/main.rs: the three filters ----------------------------------- *)

Definition zmem (x : Z) (l : list Z) : bool := existsb (Z.eqb x) l.

(* file_ids.is_empty() || file_ids.iter().any(|id| user_inputs.contains(id)) *)
Definition filter_by_file (r : report) (user : list Z) : bool :=
  match r_pfiles r with
  | [] => true
  | fs => existsb (fun f => zmem f user) fs
  end.

(* report.category() >= output_level   (operator table regenerated in Gen.Category) *)
Definition filter_by_level (r : report) (lv : level) : bool := Category.ge (r_level r) lv.

(* !allow_list.contains(&report.id()) *)
Definition filter_by_id (r : report) (allow : list Z) : bool := negb (zmem (r_id r) allow).

(* filters.iter().all(|f| f.filter(report)), in the order they were added *)
Definition passes_filters (o : opts) (user : list Z) (r : report) : bool :=
  filter_by_level r (o_level o) && filter_by_file r user && filter_by_id r (o_allow o).

(* ---- state ----------------------------------------------------------------- *)

Inductive message :=
| MAnalyzing (k : key)          (* "analyzing template 'T'" / "analyzing function 'f'" *)
| MSarifWritten                 (* "Result written to `file`." *)
| MSummary (n : nat).           (* "No issues found." / "1 issue found." / "n issues found." *)

Record rstate := mkState {
  cfgs : list key;                          (* template_cfgs + function_cfgs (key sets) *)
  rcache : list (key * list report);        (* template_reports + function_reports *)
  shown : list report;                      (* diagnostics emitted on stdout, in order *)
  written : nat;                            (* StdoutWriter::written *)
  cached : list report;                     (* CachedStdoutWriter::reports *)
  log : list message                        (* LogWriter output, in order *)
}.

Definition init : rstate := mkState [] [] [] 0 [] [].

Definition kmem (k : key) (l : list key) : bool := existsb (key_eqb k) l.
Definition kremove (k : key) (l : list key) : list key := filter (fun x => negb (key_eqb k x)) l.
Definition kinsert (k : key) (l : list key) : list key := if kmem k l then l else k :: l.

Definition rc_mem (k : key) (c : list (key * list report)) : bool :=
  existsb (fun e => key_eqb k (fst e)) c.
Fixpoint rc_get (k : key) (c : list (key * list report)) : option (list report) :=
  match c with
  | [] => None
  | (k', rs) :: c' => if key_eqb k k' then Some rs else rc_get k c'
  end.
Definition rc_remove (k : key) (c : list (key * list report)) : list (key * list report) :=
  filter (fun e => negb (key_eqb k (fst e))) c.
(* entry(name).or_default().append(reports) *)
Fixpoint rc_append (k : key) (rs : list report) (c : list (key * list report)) : list (key * list report) :=
  match c with
  | [] => [(k, rs)]
  | (k', rs') :: c' => if key_eqb k k' then (k', rs' ++ rs) :: c' else (k', rs') :: rc_append k rs c'
  end.

Fixpoint find_def (ds : list def) (k : key) : option def :=
  match ds with
  | [] => None
  | d :: ds' => if key_eqb k (d_key d) then Some d else find_def ds' k
  end.

(* ---- AnalysisRunner ---------------------------------------------------------- *)

(* cache_template / cache_function.  Returns the new state and whether the
   result is Ok(&cfg). *)
Definition cache (ds : list def) (k : key) (s : rstate) : rstate * bool :=
  if kmem k (cfgs s) then (s, true)
  else if rc_mem k (rcache s) then (s, false)                (* "already failed to generate the CFG" *)
  else match find_def ds k with
       | None => (s, false)                                  (* UnknownTemplate / UnknownFunction *)
       | Some d =>
         match d_err d with
         | Some e =>                                         (* push the error report; append; return Err *)
           (mkState (cfgs s) (rc_append k (d_lift d ++ [e]) (rcache s))
                    (shown s) (written s) (cached s) (log s), false)
         | None =>                                           (* append reports; insert the CFG *)
           (mkState (kinsert k (cfgs s)) (rc_append k (d_lift d) (rcache s))
                    (shown s) (written s) (cached s) (log s), true)
         end
       end.

(* take_template / take_function *)
Definition take (ds : list def) (k : key) (s : rstate) : rstate * bool :=
  let '(s1, ok) := cache ds k s in
  if ok then (mkState (kremove k (cfgs s1)) (rcache s1) (shown s1) (written s1) (cached s1) (log s1), true)
  else (s1, false).

(* take_template_reports / take_function_reports *)
Definition take_reports (k : key) (s : rstate) : list report * rstate :=
  (match rc_get k (rcache s) with Some rs => rs | None => [] end,
   mkState (cfgs s) (rc_remove k (rcache s)) (shown s) (written s) (cached s) (log s)).

(* replace_template / replace_function: insert, overwriting *)
Definition replace (k : key) (s : rstate) : rstate :=
  mkState (kinsert k (cfgs s)) (rcache s) (shown s) (written s) (cached s) (log s).

(* AnalysisContext::template, as called by the passes (only templates are
   ever looked up: unused_output_signal.rs) *)
Definition lookup (ds : list def) (s : rstate) (n : Z) : rstate := fst (cache ds (KTemplate, n) s).

(* ---- writers ---------------------------------------------------------------- *)

Definition write_message (m : message) (s : rstate) : rstate :=
  mkState (cfgs s) (rcache s) (shown s) (written s) (cached s) (log s ++ [m]).

(* CachedStdoutWriter::write_reports: cache everything, emit what passes all
   filters, written += number emitted *)
Definition write_reports (o : opts) (user : list Z) (rs : list report) (s : rstate) : rstate :=
  let out := filter (passes_filters o user) rs in
  mkState (cfgs s) (rcache s) (shown s ++ out) (written s + length out)%nat (cached s ++ rs) (log s).

(* analyze_template / analyze_function *)
Definition analyze (ds : list def) (o : opts) (user : list Z) (s : rstate) (k : key) : rstate :=
  let s0 := write_message (MAnalyzing k) s in
  let '(s1, ok) := take ds k s0 in
  let '(rs, s2) := take_reports k s1 in
  if ok then
    match find_def ds k with
    | Some d =>
      let s3 := fold_left (lookup ds) (d_lookups d) s2 in      (* the passes run *)
      write_reports o user (rs ++ d_pass d) (replace k s3)
    | None => write_reports o user rs s2                        (* unreachable: ok implies a definition *)
    end
  else write_reports o user rs s2.

(* template_names(true) / function_names(true): the keys whose AST lives in a
   user-specified file (in HashMap order: any permutation of this list) *)
Definition is_user (user : list Z) (d : def) : bool := zmem (d_file d) user.
Definition user_keys (p : project) : list key := map d_key (filter (is_user (p_user p)) (p_defs p)).

(* ---- SARIF -------------------------------------------------------------------- *)

Definition rule := (Z * Z)%type.                     (* (name, id) *)
Definition rule_eqb (a b : rule) : bool := (fst a =? fst b) && (snd a =? snd b).
Fixpoint rules_of (rs : list report) : list rule :=  (* the HashSet of (name, id), as a duplicate-free list *)
  match rs with
  | [] => []
  | r :: rs' => let t := rules_of rs' in
                if existsb (rule_eqb (r_name r, r_id r)) t then t else (r_name r, r_id r) :: t
  end.

Record result := mkResult {
  res_shown : list report;        (* diagnostics on stdout *)
  res_log : list message;         (* circomspect: ... lines *)
  res_exit : Z;                   (* ExitCode::SUCCESS = 0, FAILURE = 1 *)
  res_summary : nat;              (* the number in the summary line *)
  res_sarif : option (list report * list rule)   (* results and rules of the SARIF file *)
}.

(* main, given the orders in which the name maps are iterated *)
Definition run_keys (p : project) (o : opts) (order : list key) : result :=
  let ds := p_defs p in
  let user := p_user p in
  let s0 := write_reports o user (p_parse p) init in
  let s1 := fold_left (analyze ds o user) order s0 in
  let '(sarif, s2) :=
    if o_sarif o then
      let rs := filter (passes_filters o user) (cached s1) in
      (Some (rs, rules_of rs),
       if (0 <? length rs)%nat then write_message MSarifWritten s1 else s1)
    else (None, s1) in
  let n := written s2 in
  let s3 := write_message (MSummary n) s2 in
  mkResult (shown s3) (log s3) (match n with O => 0 | _ => 1 end) n sarif.

Definition run (p : project) (o : opts) (order_f order_t : list Z) : result :=
  run_keys p o (map (pair KFunction) order_f ++ map (pair KTemplate) order_t).

(* ---- TemplateLibrary::new ------------------------------------------------------ *)

(* functions.insert(name, ..) / templates.insert(name, ..): the last
   definition inserted under a name wins, silently.  [srcs] is the sequence of
   definitions in the order in which the HashMap<FileID, Vec<Definition>> is
   iterated. *)
Fixpoint lib_insert (d : def) (m : list def) : list def :=
  match m with
  | [] => [d]
  | d' :: m' => if key_eqb (d_key d) (d_key d') then d :: m' else d' :: lib_insert d m'
  end.
Definition build_library (srcs : list def) : list def := fold_left (fun m d => lib_insert d m) srcs [].

(* known finding D22: the same name defined twice in the sources *)
Fixpoint has_duplicate_b (l : list key) : bool :=
  match l with
  | [] => false
  | k :: l' => kmem k l' || has_duplicate_b l'
  end.
Definition KF_duplicate_definition_b (srcs : list def) : bool := has_duplicate_b (map d_key srcs).
