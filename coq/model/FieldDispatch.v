(* C16: the path from an operator of the language to a function of
   modular_arithmetic.rs when both operands are constants.

   The operator tables themselves (ExpressionInfixOpcode::propagate_values,
   ExpressionPrefixOpcode::propagate_values, the Number arm of
   Expression::propagate_values in expression_impl.rs) are mirrored once, in
   Model.Propagate (infix_values, prefix_values, pv_expr); this file only adds
   what the field engine needs to drive them on closed expressions built from
   literals:

     [pass_loop]     Cfg::propagate_values for a definition whose only
                     statement is `return e;`: visits are repeated while some
                     node was written (`rerun`), each visit being
                     Propagate.pv_expr with its `result || ...` short-circuits;
     [lit_dispatch]  the value the loop converges to, computed bottom-up with
                     the same tables - the function the theorems speak about
                     (Proofs.DispatchProofs), compared with [pass_loop] and
                     with the implementation on every explored expression.

   Definitions only. *)
From Coq Require Import ZArith List Bool.
Require Import Model.Base Model.Field Model.Ir Model.Propagate.
Import ListNotations.
Local Open Scope Z_scope.

(* closed expressions over literals *)
Inductive lexpr :=
| LNum (z : Z)
| LInfix (op : infix_op) (l r : lexpr)
| LPrefix (op : prefix_op) (x : lexpr).

Fixpoint to_expr (e : lexpr) : expr :=
  match e with
  | LNum z => ENum z know0
  | LInfix op l r => EInfix op (to_expr l) (to_expr r) know0
  | LPrefix op x => EPrefix op (to_expr x) know0
  end.

Fixpoint lsize (e : lexpr) : nat :=
  match e with
  | LNum _ => 1
  | LInfix _ l r => S (lsize l + lsize r)
  | LPrefix _ x => S (lsize x)
  end.

(* `while rerun { rerun = false; for bb { rerun = rerun || bb.propagate_values(env) } }`
   for the single statement `return e;` (Statement::Return => value.propagate_values(env)).
   Every pass that reports a change has written one more node, so the number
   of nodes plus one bounds the number of passes; the fuel is never exhausted
   on the explored inputs (an exhausted fuel would print `outoffuel`). *)
Fixpoint pass_loop (fuel : nat) (p : Z) (e : expr) : outcome expr :=
  match fuel with
  | O => OutOfFuel
  | S n =>
    r <- pv_expr p [] e ;;
    let '(changed, e') := r in
    if changed then pass_loop n p e' else Ok e'
  end.

Definition propagate_lit (p : Z) (e : lexpr) : outcome expr :=
  pass_loop (S (S (lsize e))) p (to_expr e).

(* the constant at the fixpoint, bottom-up: Number => FieldElement(value % p),
   InfixOp / PrefixOp => the operator tables on the operands' constants *)
Fixpoint lit_dispatch (p : Z) (e : lexpr) : outcome (option vred) :=
  match e with
  | LNum z => Ok (Some (VField (Z.rem z p)))
  | LInfix op l r =>
    a <- lit_dispatch p l ;;
    b <- lit_dispatch p r ;;
    infix_values op a b p
  | LPrefix op x =>
    a <- lit_dispatch p x ;;
    Ok (prefix_values op a p)
  end.
