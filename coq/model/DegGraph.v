(* Decidable hypotheses of the graph-level degree theorem (C07) about the GRAPH and
   the immediate-dominator TABLE (third audit, item 6: DegJustify.idom_shape accepts
   any table whose entries name earlier blocks; with a wrong table the validator's
   walk and the semantics' [decides] shrink together and the theorem silently says
   less).
     graph_consistent c            b_index of every block is its position; the
                                   predecessor / successor lists form a rooted graph
                                   in the sense of C15 (Spec.DomSpec.rooted_b: in
                                   range, b_preds exactly the inverse of b_succs, the
                                   entry block has no predecessor, every block is
                                   reachable from the entry);
     idom_is_dominator_table c t   t is, entry by entry, the immediate-dominator
                                   table that the mirror of DominatorTree::new
                                   (Model.Dom, C15) computes on that graph - which
                                   C15_idom_exact proves to be the path-based
                                   immediate dominators.
   Both are evaluated by the check on every graph (command `deggraph` of the ir
   driver).  Definitions only. *)
From Coq Require Import ZArith NArith List Bool Arith.
Require Import Model.Base Model.Ir.
Require Model.Dom Spec.DomSpec.
Import ListNotations.

(* DominatorTree::new(&self.basic_blocks) reads the predecessor and successor sets
   (the same function as Proofs.SsaDomBridge.graph_of / PipelineMirrors.dom_of_ir) *)
Definition dom_graph_of (c : cfg) : list Dom.node :=
  map (fun b => Dom.Node (map N.to_nat (b_preds b)) (map N.to_nat (b_succs b))) (c_blocks c).

Definition index_is_position (c : cfg) : bool :=
  forallb (fun ib => N.eqb (b_index (snd ib)) (N.of_nat (fst ib)))
          (combine (seq 0 (length (c_blocks c))) (c_blocks c)).

Definition graph_consistent (c : cfg) : bool :=
  index_is_position c && DomSpec.rooted_b (dom_graph_of c).

(* the table as propagation reads it (block index -> immediate dominator) *)
Definition idom_table_of (t : Dom.dom_tree) : list (option N) :=
  map (fun o => match o with Some j => Some (N.of_nat j) | None => None end) (Dom.dt_idom t).

Definition computed_idom (c : cfg) : option (list (option N)) :=
  let g := dom_graph_of c in
  match Dom.dominator_tree (Dom.dom_fuel g) Dom.id_order g with
  | Ok t => Some (idom_table_of t)
  | _ => None
  end.

Fixpoint idom_tables_eqb (a b : list (option N)) : bool :=
  match a, b with
  | [], [] => true
  | x :: ta, y :: tb => opt_eqb N.eqb x y && idom_tables_eqb ta tb
  | _, _ => false
  end.

Definition idom_is_dominator_table (c : cfg) (idom : list (option N)) : bool :=
  match computed_idom c with
  | Some t => idom_tables_eqb idom t
  | None => false
  end.

(* both, as one answer for the driver *)
Definition deg_graph_ok (c : cfg) (idom : list (option N)) : bool :=
  graph_consistent c && idom_is_dominator_table c idom.

(* ---- decidable hypotheses of the theorems about DIVERGING runs (Proofs.DegRunDecided) ----
     single_assignment_b c   every declared local that is not a parameter is the target of at
                             most one statement of the graph
     forward_b c             every successor has a larger index than its block: the graph is
                             loop-free and its blocks are numbered along the edges, so every
                             walk visits strictly increasing indices *)
Require Import Model.Justify Model.DegJustify.

Definition stores_local_m (c : cfg) (x : vname) : bool :=
  match decl_of c x with Some TLocal => true | _ => false end && negb (is_param c x).

Definition local_targets_m (c : cfg) : list vname :=
  flat_map (fun st => match st with
                      | SSubst _ x _ _ _ _ => if stores_local_m c x then [x] else []
                      | _ => []
                      end) (all_stmts (c_blocks c)).

Fixpoint nodup_vnames (l : list vname) : bool :=
  match l with
  | [] => true
  | x :: tl => negb (existsb (vname_eqb x) tl) && nodup_vnames tl
  end.

Definition single_assignment_b (c : cfg) : bool := nodup_vnames (local_targets_m c).

Definition forward_b (c : cfg) : bool :=
  forallb (fun ib => forallb (fun s => (fst ib <? N.to_nat s)%nat) (b_succs (snd ib)))
          (combine (seq 0 (length (c_blocks c))) (c_blocks c)).

Definition loop_free_ok (c : cfg) : bool := single_assignment_b c && forward_b c.
