(* Decidable hypotheses of the graph-level degree theorem (C07) about the GRAPH and
   the immediate-dominator TABLE (third audit, item 6: DegJustify.idom_shape accepts
   any table whose entries name earlier blocks; with a wrong table the validator's
   walk and the semantics' [decides] shrink together and the theorem silently says
   less).
     graph_consistent c            b_index of every block is its position; the
                                   predecessor / successor lists form a rooted graph
                                   in the sense of C15 (Spec.DomSpec.rooted_b: in
                                   range, b_preds exactly the inverse of b_succs, the
                                   entry block has no predecessor, every block is
                                   reachable from the entry);
     idom_is_dominator_table c t   t is, entry by entry, the immediate-dominator
                                   table that the mirror of DominatorTree::new
                                   (Model.Dom, C15) computes on that graph - which
                                   C15_idom_exact proves to be the path-based
                                   immediate dominators.
   Both are evaluated by the check on every graph (command `deggraph` of the ir
   driver).  Definitions only. *)
From Coq Require Import ZArith NArith List Bool Arith.
Require Import Model.Base Model.Ir.
Require Model.Dom Spec.DomSpec.
Import ListNotations.

(* DominatorTree::new(&self.basic_blocks) reads the predecessor and successor sets
   (the same function as Proofs.SsaDomBridge.graph_of / PipelineMirrors.dom_of_ir) *)
Definition dom_graph_of (c : cfg) : list Dom.node :=
  map (fun b => Dom.Node (map N.to_nat (b_preds b)) (map N.to_nat (b_succs b))) (c_blocks c).

Definition index_is_position (c : cfg) : bool :=
  forallb (fun ib => N.eqb (b_index (snd ib)) (N.of_nat (fst ib)))
          (combine (seq 0 (length (c_blocks c))) (c_blocks c)).

Definition graph_consistent (c : cfg) : bool :=
  index_is_position c && DomSpec.rooted_b (dom_graph_of c).

(* the table as propagation reads it (block index -> immediate dominator) *)
Definition idom_table_of (t : Dom.dom_tree) : list (option N) :=
  map (fun o => match o with Some j => Some (N.of_nat j) | None => None end) (Dom.dt_idom t).

Definition computed_idom (c : cfg) : option (list (option N)) :=
  let g := dom_graph_of c in
  match Dom.dominator_tree (Dom.dom_fuel g) Dom.id_order g with
  | Ok t => Some (idom_table_of t)
  | _ => None
  end.

Fixpoint idom_tables_eqb (a b : list (option N)) : bool :=
  match a, b with
  | [], [] => true
  | x :: ta, y :: tb => opt_eqb N.eqb x y && idom_tables_eqb ta tb
  | _, _ => false
  end.

Definition idom_is_dominator_table (c : cfg) (idom : list (option N)) : bool :=
  match computed_idom c with
  | Some t => idom_tables_eqb idom t
  | None => false
  end.

(* both, as one answer for the driver *)
Definition deg_graph_ok (c : cfg) (idom : list (option N)) : bool :=
  graph_consistent c && idom_is_dominator_table c idom.
