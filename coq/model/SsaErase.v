(* Executable erasure check (C14): the SSA graph is the original graph with
   versions added and phi statements prepended.  [erase_eqb pre c] compares the
   graph before SSA conversion with the graph after it, block by block and
   statement by statement, up to versions and value/degree knowledge:
     - same number of blocks, same predecessor and successor lists,
     - the statements of the original block and the statements of the SSA block
       behind its leading phis are pairwise similar ([stmt_sim]): same kind,
       same location, same assignment operator, the same variable (name and
       suffix) at every position, the same literals and operators; a declaration
       of the SSA graph lists the versions of exactly the declared names.
   [mixed_keys_ok c]: no variable is assigned both with and without a version.
   Together with SsaCheck.ssa_check this gives Proofs.SsaEraseProofs: on every
   path, the version a read names was assigned by (the image of) the source
   assignment that reaches the read in the ORIGINAL program along that path.
   Definitions only. *)
From Coq Require Import ZArith NArith List Bool.
Require Import Model.Base Model.Ir Model.SsaCheck.
Import ListNotations.

Definition vname_sim (a b : vname) : bool := key_eqb (key_of a) (key_of b).

Definition infix_eqb (a b : infix_op) : bool :=
  match a, b with
  | IMul, IMul | IDiv, IDiv | IAdd, IAdd | ISub, ISub | IPow, IPow | IIntDiv, IIntDiv | IMod, IMod
  | IShl, IShl | IShr, IShr | ILe, ILe | IGe, IGe | ILt, ILt | IGt, IGt | IEq, IEq | INeq, INeq
  | IOr, IOr | IAnd, IAnd | IBor, IBor | IBand, IBand | IBxor, IBxor => true
  | _, _ => false
  end.
Definition prefix_eqb (a b : prefix_op) : bool :=
  match a, b with PNot, PNot | PNeg, PNeg | PCompl, PCompl => true | _, _ => false end.
Definition assign_eqb (a b : assign_op) : bool :=
  match a, b with OpSig, OpSig | OpCSig, OpCSig | OpVar, OpVar => true | _, _ => false end.
Definition meta_eqb (a b : meta) : bool :=
  N.eqb (m_start a) (m_start b) && N.eqb (m_end a) (m_end b) && opt_eqb N.eqb (m_file a) (m_file b).

Fixpoint expr_sim (a b : expr) {struct a} : bool :=
  let fix list_sim (xs ys : list expr) {struct xs} : bool :=
      match xs, ys with
      | [], [] => true
      | x :: tx, y :: ty => expr_sim x y && list_sim tx ty
      | _, _ => false
      end in
  let fix acc_sim (xs ys : list (access expr)) {struct xs} : bool :=
      match xs, ys with
      | [], [] => true
      | AIdx x :: tx, AIdx y :: ty => expr_sim x y && acc_sim tx ty
      | AComp n :: tx, AComp n' :: ty => ident_eqb n n' && acc_sim tx ty
      | _, _ => false
      end in
  match a, b with
  | ENum z _, ENum z' _ => Z.eqb z z'
  | EVar v _, EVar v' _ => vname_sim v v'
  | EInfix op l r _, EInfix op' l' r' _ => infix_eqb op op' && expr_sim l l' && expr_sim r r'
  | EPrefix op x _, EPrefix op' x' _ => prefix_eqb op op' && expr_sim x x'
  | ESwitch c t f _, ESwitch c' t' f' _ => expr_sim c c' && expr_sim t t' && expr_sim f f'
  | ECall n args _, ECall n' args' _ => ident_eqb n n' && list_sim args args'
  | EArray vs _, EArray vs' _ => list_sim vs vs'
  | EAccess v acc _, EAccess v' acc' _ => vname_sim v v' && acc_sim acc acc'
  | EUpdate v acc rhe _, EUpdate v' acc' rhe' _ => vname_sim v v' && acc_sim acc acc' && expr_sim rhe rhe'
  | _, _ => false          (* in particular a phi is similar to nothing *)
  end.

Fixpoint exprs_sim (xs ys : list expr) : bool :=
  match xs, ys with
  | [], [] => true
  | x :: tx, y :: ty => expr_sim x y && exprs_sim tx ty
  | _, _ => false
  end.

Fixpoint logargs_sim (xs ys : list logarg) : bool :=
  match xs, ys with
  | [], [] => true
  | LStr :: tx, LStr :: ty => logargs_sim tx ty
  | LExpr x :: tx, LExpr y :: ty => expr_sim x y && logargs_sim tx ty
  | _, _ => false
  end.

(* the declared names, as sets of keys *)
Definition names_sim (xs ys : list vname) : bool :=
  forallb (fun x => existsb (vname_sim x) ys) xs && forallb (fun y => existsb (fun x => vname_sim x y) xs) ys.

Definition stmt_sim (a b : stmt) : bool :=
  match a, b with
  | SDecl m names t dims, SDecl m' names' t' dims' =>
      meta_eqb m m' && names_sim names names' && vtype_eqb t t' && exprs_sim dims dims'
  | SIf m c t f, SIf m' c' t' f' => meta_eqb m m' && expr_sim c c' && N.eqb t t' && opt_eqb N.eqb f f'
  | SRet m e, SRet m' e' => meta_eqb m m' && expr_sim e e'
  | SSubst m x op rhe _ _, SSubst m' x' op' rhe' _ _ =>
      meta_eqb m m' && vname_sim x x' && assign_eqb op op' && expr_sim rhe rhe'
  | SCeq m l r, SCeq m' l' r' => meta_eqb m m' && expr_sim l l' && expr_sim r r'
  | SLog m args, SLog m' args' => meta_eqb m m' && logargs_sim args args'
  | SAssert m e, SAssert m' e' => meta_eqb m m' && expr_sim e e'
  | _, _ => false
  end.

Fixpoint stmts_sim (xs ys : list stmt) : bool :=
  match xs, ys with
  | [], [] => true
  | x :: tx, y :: ty => stmt_sim x y && stmts_sim tx ty
  | _, _ => false
  end.

Fixpoint ns_eqb (xs ys : list N) : bool :=
  match xs, ys with
  | [], [] => true
  | x :: tx, y :: ty => N.eqb x y && ns_eqb tx ty
  | _, _ => false
  end.

Definition body_of (b : block) : list stmt := snd (leading_phis (b_stmts b)).

Definition block_sim (bp bs : block) : bool :=
  ns_eqb (b_preds bp) (b_preds bs) && ns_eqb (b_succs bp) (b_succs bs) &&
  stmts_sim (b_stmts bp) (body_of bs).

Fixpoint blocks_sim (xs ys : list block) : bool :=
  match xs, ys with
  | [], [] => true
  | x :: tx, y :: ty => block_sim x y && blocks_sim tx ty
  | _, _ => false
  end.

Definition erase_eqb (pre c : cfg) : bool := blocks_sim (c_blocks pre) (c_blocks c).

(* ---- assignment targets ---- *)
Definition assigns (s : stmt) : option vname :=
  match s with SSubst _ x _ _ _ _ => Some x | _ => None end.

Definition all_targets (c : cfg) : list vname :=
  flat_map (fun b => flat_map (fun s => match assigns s with Some x => [x] | None => [] end) (b_stmts b)) (c_blocks c).

(* no variable is assigned without a version while a version of it is assigned
   somewhere or it is a (versioned) parameter *)
Definition versioned (y : vname) : bool := match vn_version y with Some _ => true | None => false end.
Definition mixed_keys_ok (c : cfg) : bool :=
  let ts := all_targets c in
  let vs := ts ++ c_params c in
  forallb (fun x => versioned x || negb (existsb (fun y => vname_sim x y && versioned y) vs)) ts.

Definition erase_check (pre c : cfg) : bool := erase_eqb pre c && mixed_keys_ok c.
