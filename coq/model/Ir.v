(* Mirror of /repo/program_structure/src/intermediate_representation/ir.rs:
   the IR of a definition as a list of basic blocks, each node carrying the
   value and degree knowledge the analysis has attached so far.
   Definitions only. *)
From Coq Require Import ZArith NArith List Bool.
Require Import Model.Base.
Import ListNotations.

Definition ident := list N.                       (* UTF-8 bytes *)

Definition ident_eqb (a b : ident) : bool :=
  if list_eq_dec N.eq_dec a b then true else false.

Definition opt_eqb {A} (eqb : A -> A -> bool) (a b : option A) : bool :=
  match a, b with
  | Some x, Some y => eqb x y
  | None, None => true
  | _, _ => false
  end.

(* VariableName { name, suffix, version } *)
Record vname := { vn_name : ident; vn_suffix : option ident; vn_version : option N }.

Definition vname_eqb (a b : vname) : bool :=
  ident_eqb (vn_name a) (vn_name b) && opt_eqb ident_eqb (vn_suffix a) (vn_suffix b)
  && opt_eqb N.eqb (vn_version a) (vn_version b).

Definition without_version (v : vname) : vname :=
  {| vn_name := vn_name v; vn_suffix := vn_suffix v; vn_version := None |}.
Definition with_version (v : vname) (n : N) : vname :=
  {| vn_name := vn_name v; vn_suffix := vn_suffix v; vn_version := Some n |}.

(* ValueReduction *)
Inductive vred := VBool (b : bool) | VField (z : Z).

Definition vred_eqb (a b : vred) : bool :=
  match a, b with
  | VBool x, VBool y => Bool.eqb x y
  | VField x, VField y => Z.eqb x y
  | _, _ => false
  end.

(* Degree, DegreeRange *)
Inductive degree := DConst | DLin | DQuad | DNonQuad.
Definition drange := (degree * degree)%type.

Definition degree_eqb (a b : degree) : bool :=
  match a, b with
  | DConst, DConst | DLin, DLin | DQuad, DQuad | DNonQuad, DNonQuad => true
  | _, _ => false
  end.

Record know := { kval : option vred; kdeg : option drange }.
Definition know0 : know := {| kval := None; kdeg := None |}.

Inductive infix_op :=
| IMul | IDiv | IAdd | ISub | IPow | IIntDiv | IMod | IShl | IShr
| ILe | IGe | ILt | IGt | IEq | INeq | IOr | IAnd | IBor | IBand | IBxor.

Inductive prefix_op := PNot | PNeg | PCompl.

Inductive access (E : Type) := AIdx (e : E) | AComp (n : ident).
Arguments AIdx {E} e.
Arguments AComp {E} n.

Inductive expr :=
| ENum (z : Z) (k : know)
| EVar (v : vname) (k : know)
| EInfix (op : infix_op) (l r : expr) (k : know)
| EPrefix (op : prefix_op) (e : expr) (k : know)
| ESwitch (c t f : expr) (k : know)
| ECall (name : ident) (args : list expr) (k : know)
| EArray (vs : list expr) (k : know)
| EAccess (v : vname) (acc : list (access expr)) (k : know)
| EUpdate (v : vname) (acc : list (access expr)) (rhe : expr) (k : know)
| EPhi (args : list vname) (k : know).

Definition expr_know (e : expr) : know :=
  match e with
  | ENum _ k | EVar _ k | EInfix _ _ _ k | EPrefix _ _ k | ESwitch _ _ _ k
  | ECall _ _ k | EArray _ k | EAccess _ _ k | EUpdate _ _ _ k | EPhi _ k => k
  end.
Definition expr_val (e : expr) : option vred := kval (expr_know e).
Definition expr_deg (e : expr) : option drange := kdeg (expr_know e).

Record meta := { m_start : N; m_end : N; m_file : option N }.

Inductive vtype := TLocal | TComponent | TAnonComponent | TSigIn | TSigOut | TSigInt.
Definition vtype_eqb (a b : vtype) : bool :=
  match a, b with
  | TLocal, TLocal | TComponent, TComponent | TAnonComponent, TAnonComponent
  | TSigIn, TSigIn | TSigOut, TSigOut | TSigInt, TSigInt => true
  | _, _ => false
  end.
Definition is_signal (t : vtype) : bool :=
  match t with TSigIn | TSigOut | TSigInt => true | _ => false end.

Inductive assign_op := OpSig | OpCSig | OpVar.

Inductive logarg := LStr | LExpr (e : expr).

Inductive stmt :=
| SDecl (m : meta) (names : list vname) (t : vtype) (dims : list expr)
| SIf (m : meta) (c : expr) (t : N) (f : option N)
| SRet (m : meta) (e : expr)
| SSubst (m : meta) (v : vname) (op : assign_op) (rhe : expr) (sval : option vred) (stype : option vtype)
| SCeq (m : meta) (l r : expr)
| SLog (m : meta) (args : list logarg)
| SAssert (m : meta) (e : expr).

Record block := {
  b_index : N; b_depth : N; b_stmts : list stmt; b_preds : list N; b_succs : list N }.

Inductive defkind := KFunction | KTemplate | KCustom.

Record cfg := {
  c_kind : defkind; c_params : list vname; c_decls : list (vname * vtype); c_blocks : list block }.

Definition set_blocks (c : cfg) (bs : list block) : cfg :=
  {| c_kind := c_kind c; c_params := c_params c; c_decls := c_decls c; c_blocks := bs |}.
Definition set_stmts (b : block) (ss : list stmt) : block :=
  {| b_index := b_index b; b_depth := b_depth b; b_stmts := ss; b_preds := b_preds b; b_succs := b_succs b |}.
