(* Executable validator of degree claims (C07): every degree range attached
   to a node of an annotated SSA graph is the one the operator tables give for
   the ranges of the operands; a variable read carries the range of its
   declaration kind (signal or component: linear; template parameter: constant;
   function parameter: constant..linear) or the range shared by all its defining
   assignments; a phi carries the infimum over all its arguments; an inline
   array the infimum over its elements; an access the range of the array if
   every index is known constant, with upper end non-quadratic if one is known
   not to be, and nothing otherwise; an element-wise update the infimum of the
   array's range and the new element's (the new element's alone for the first
   assignment to a never-assigned array, nothing if the array is assigned but its
   range unknown), adjusted by the indices in the same way.  Soundness w.r.t. the
   polynomial-degree semantics is proved in Proofs.DegGraphProofs.
   Definitions only. *)
From Coq Require Import ZArith NArith List Bool.
Require Import Model.Base Model.Ir Model.Propagate Model.Justify Gen.DegreeTable.
Import ListNotations.

Definition drange_eqb (a b : drange) : bool :=
  degree_eqb (fst a) (fst b) && degree_eqb (snd a) (snd b).
Definition opt_drange_eqb (a : option drange) (r : drange) : bool :=
  match a with Some x => drange_eqb x r | None => false end.

(* the degree of a defining assignment *)
Definition ddef_ok (v : vname) (r : drange) (s : stmt) : bool :=
  match s with
  | SSubst _ x _ rhe _ stype =>
    if vname_eqb x v then stype_is_local stype && opt_drange_eqb (expr_deg rhe) r else true
  | _ => true
  end.

Definition decl_of (c : cfg) (v : vname) : option vtype :=
  match find (fun d => vname_eqb (fst d) v) (c_decls c) with Some d => Some (snd d) | None => None end.

Definition is_param (c : cfg) (v : vname) : bool := existsb (vname_eqb v) (c_params c).

(* the range a read of v must carry *)
Definition local_def_range (ss : list stmt) (v : vname) : option drange :=
  match filter (defines v) ss with
  | SSubst _ _ _ rhe _ stype :: _ =>
    match expr_deg rhe with
    | Some r => if forallb (ddef_ok v r) ss then Some r else None
    | None => None
    end
  | _ => None
  end.

Definition var_range (c : cfg) (v : vname) : option drange :=
  let ss := all_stmts (c_blocks c) in
  if is_param c v then
    if existsb (defines v) ss then None
    else Some (match c_kind c with KFunction => (DConst, DLin) | _ => (DConst, DConst) end)
  else
    match decl_of c v with
    | Some TLocal => local_def_range ss v
    | Some _ => Some (DLin, DLin)           (* signals and components *)
    | None => None
    end.

(* a local (or undeclared) name that no statement assigns and that is not a
   parameter: it holds zeros (Circom), and an element-wise update of it is its
   first assignment *)
Definition unassigned (c : cfg) (v : vname) : bool :=
  negb (existsb (defines v) (all_stmts (c_blocks c))) && negb (is_param c v) &&
  match decl_of c v with Some TLocal | None => true | Some _ => false end.

Definition update_base_range (c : cfg) (v : vname) (rhe_deg : option drange) : option drange :=
  match var_range c v with
  | Some rv => iter_opt [Some rv; rhe_deg]
  | None => if unassigned c v then rhe_deg else None
  end.

Definition opt_index_adjust (acc : list (access expr)) (o : option drange) : option drange :=
  match o with Some rg => index_adjust acc rg | None => None end.

Definition deg_claim_is (k : know) (o : option drange) : bool :=
  match kdeg k with None => true | Some r => opt_drange_eqb o r end.

Fixpoint djust_expr (c : cfg) (e : expr) {struct e} : bool :=
  let fix dj_list (es : list expr) : bool :=
      match es with [] => true | x :: tl => djust_expr c x && dj_list tl end in
  let fix dj_acc (acc : list (access expr)) : bool :=
      match acc with
      | [] => true
      | AIdx x :: tl => djust_expr c x && dj_acc tl
      | AComp _ :: tl => dj_acc tl
      end in
  match e with
  | ENum _ k => deg_claim_is k (Some (DConst, DConst))
  | EVar v k => deg_claim_is k (var_range c v)
  | EInfix op l r k =>
    djust_expr c l && djust_expr c r && deg_claim_is k (opt_range_infix op (expr_deg l) (expr_deg r))
  | EPrefix op x k =>
    djust_expr c x && deg_claim_is k (opt_range_prefix op (expr_deg x))
  | ESwitch cd t f k =>
    djust_expr c cd && djust_expr c t && djust_expr c f &&
    deg_claim_is k (match expr_deg cd with
                    | Some rc => if range_is_constant rc then iter_opt [expr_deg t; expr_deg f] else None
                    | None => None
                    end)
  | ECall _ args k =>
    dj_list args && deg_claim_is k (if all_constant args then Some (DConst, DConst) else None)
  | EPhi args k => match kdeg k with None => true | Some _ => false end    (* a phi below the top of a statement: no claim *)
  | EArray vs k => dj_list vs && deg_claim_is k (iter_opt (map expr_deg vs))
  | EAccess v acc k => dj_acc acc && deg_claim_is k (opt_index_adjust acc (var_range c v))
  | EUpdate v acc rhe k =>
    dj_acc acc && djust_expr c rhe &&
    deg_claim_is k (opt_index_adjust acc (update_base_range c v (expr_deg rhe)))
  end.

(* a phi statement is judged with what is known about the condition that decides
   along which edge its block is entered (Propagate.block_ctl on the graph itself) *)
Definition djust_stmt (c : cfg) (m : mctl) (s : stmt) : bool :=
  match s with
  | SDecl _ _ _ dims => forallb (djust_expr c) dims
  | SIf _ cd _ _ => djust_expr c cd
  | SRet _ e => djust_expr c e
  | SSubst _ _ _ (EPhi args k) _ _ => deg_claim_is k (phi_adjust m (iter_opt (map (var_range c) args)))
  | SSubst _ _ _ rhe _ _ => djust_expr c rhe
  | SCeq _ l r => djust_expr c l && djust_expr c r
  | SLog _ args => forallb (fun a => match a with LStr => true | LExpr e => djust_expr c e end) args
  | SAssert _ e => djust_expr c e
  end.

Definition djust_block (c : cfg) (idom : list (option N)) (b : block) : bool :=
  forallb (djust_stmt c (block_ctl (c_blocks c) idom b)) (b_stmts b).

(* the immediate-dominator table has the shape of one: every entry names an earlier
   block, and predecessors are blocks of the graph (so walking up from a predecessor
   ends within as many steps as there are blocks) *)
Definition idom_shape (c : cfg) (idom : list (option N)) : bool :=
  forallb (fun '(i, o) => match o with Some d => (N.to_nat d <? i)%nat | None => true end)
          (combine (seq 0 (length idom)) idom) &&
  forallb (fun b => forallb (fun q => (N.to_nat q <? length (c_blocks c))%nat) (b_preds b)) (c_blocks c).

Definition djust_cfg (c : cfg) (idom : list (option N)) : bool :=
  idom_shape c idom && forallb (djust_block c idom) (c_blocks c).
