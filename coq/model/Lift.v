(* Executable mirror of program_structure/src/control_flow_graph/lifting.rs
   (build_basic_blocks, visit_statement, complete_basic_block) on statement
   skeletons.  Definitions only; the proofs are in Proofs.LiftProofs.

   What is kept of a statement is what lifting looks at: its kind, the
   identity of a leaf statement / of a condition, and the sub-statements.  An
   IR statement is a leaf or an `IfThenElse { cond, true_index, false_index }`.
   `NonEmptyVec<BasicBlock>` is a `list block`; `basic_blocks[i]` is a position
   lookup that panics when out of range; `IndexSet = HashSet<usize>` is a
   strictly increasing `list nat` (insertion keeps it canonical, the loops
   `for i in pred_set` run over it in increasing order; Proofs.LiftProofs shows
   that the result does not depend on that order). *)
From stdpp Require Import list.
Require Model.Base.
Import Base(outcome, Ok, Err, Panic, OutOfFuel, bind).
(* Base's bind notation sits at a level that std++ reserves differently *)
Notation "x <- m ;; f" := (bind m (fun x => f))
  (at level 100, m at next level, right associativity, only parsing).
Local Open Scope Z_scope.
Local Open Scope nat_scope.

Inductive sk :=
| SLeaf (id : nat) (is_return : bool)          (* any statement without sub-statements *)
| SInit (ss : list sk)                         (* ast::Statement::InitializationBlock *)
| SBlock (ss : list sk)                        (* ast::Statement::Block *)
| SWhile (c : nat) (body : sk)                 (* ast::Statement::While *)
| SIf (c : nat) (t : sk) (e : option sk).      (* ast::Statement::IfThenElse *)

Inductive item :=
| ILeaf (id : nat)
| IBranch (c : nat) (t : nat) (f : option nat). (* ir::Statement::IfThenElse *)

Record block := Block {
  b_index : nat;          (* BasicBlock::index *)
  b_depth : nat;          (* BasicBlock::loop_depth *)
  b_items : list item;    (* BasicBlock::stmts *)
  b_preds : list nat;     (* BasicBlock::predecessors *)
  b_succs : list nat;     (* BasicBlock::successors *)
}.
Notation graph := (list block).

(* ---- panic sites (line numbers of lifting.rs at the pinned commit) ---- *)
Definition site_body_not_block : Z := 192.   (* assert!(matches!(body, Block)) *)
Definition site_init_nonempty : Z := 228.    (* assert!(visit_statement(..)?.is_empty()) *)
Definition site_while_index : Z := 288.      (* basic_blocks[i] / [header_index] in the While arm *)
Definition site_complete_index : Z := 382.   (* basic_blocks[i] / [j] in complete_basic_block *)
Definition site_nonempty : Z := (-1).        (* model only: a NonEmptyVec has a last element *)

(* ---- IndexSet ---- *)
Fixpoint ins (x : nat) (l : list nat) : list nat :=
  match l with
  | [] => [x]
  | y :: r => if x <? y then x :: l else if x =? y then l else y :: ins x r
  end.

Definition iunion (a b : list nat) : list nat := fold_left (fun acc x => ins x acc) b a.

Definition is_nil {A} (l : list A) : bool := match l with [] => true | _ => false end.

(* ---- BasicBlock ---- *)
Definition new_block (i d : nat) : block := Block i d [] [] [].

Definition add_succ (j : nat) (b : block) : block :=
  Block (b_index b) (b_depth b) (b_items b) (b_preds b) (ins j (b_succs b)).

Definition add_pred (i : nat) (b : block) : block :=
  Block (b_index b) (b_depth b) (b_items b) (ins i (b_preds b)) (b_succs b).

Definition push_item (it : item) (b : block) : block :=
  Block (b_index b) (b_depth b) (b_items b ++ [it]) (b_preds b) (b_succs b).

(* `if j != *true_index && false_index.is_none() { *false_index = Some(j) }` *)
Definition patch_item (j : nat) (it : item) : item :=
  match it with
  | IBranch c t None => if negb (j =? t) then IBranch c t (Some j) else it
  | _ => it
  end.

(* applied to `statements_mut().last_mut()` *)
Fixpoint patch_last (j : nat) (l : list item) : list item :=
  match l with
  | [] => []
  | [x] => [patch_item j x]
  | x :: r => x :: patch_last j r
  end.

Definition patch_false (j : nat) (b : block) : block :=
  Block (b_index b) (b_depth b) (patch_last j (b_items b)) (b_preds b) (b_succs b).

(* ---- NonEmptyVec ---- *)
Definition upd (site : Z) (i : nat) (f : block -> block) (g : graph) : outcome graph :=
  match g !! i with
  | Some _ => Ok (alter f i g)
  | None => Panic site
  end.

Definition last_index (g : graph) : outcome nat :=
  match last g with
  | Some b => Ok (b_index b)
  | None => Panic site_nonempty
  end.

Definition upd_last (f : block -> block) (g : graph) : outcome graph :=
  match g with
  | [] => Panic site_nonempty
  | _ => Ok (alter f (length g - 1) g)
  end.

(* ---- complete_basic_block ---- *)
Definition link (j : nat) (acc : outcome graph) (i : nat) : outcome graph :=
  g <- acc;;
  g <- upd site_complete_index i (add_succ j) g;;
  g <- upd site_complete_index j (add_pred i) g;;
  upd site_complete_index i (patch_false j) g.

Definition complete (g : graph) (ps : list nat) (d : nat) : outcome graph :=
  let j := length g in
  fold_left (link j) ps (Ok (g ++ [new_block j d])).

(* the loop closing a while body: `basic_blocks[i].add_successor(header_index);
   basic_blocks[header_index].add_predecessor(i)` *)
Definition back_edge (h : nat) (acc : outcome graph) (i : nat) : outcome graph :=
  g <- acc;;
  g <- upd site_while_index i (add_succ h) g;;
  upd site_while_index h (add_pred i) g.

(* `if pred_set.is_empty() { pred_set.insert(basic_blocks.last().index()) }` *)
Definition or_last (g : graph) (ps : list nat) : outcome (list nat) :=
  if is_nil ps then (l <- last_index g;; Ok [l]) else Ok ps.

(* ---- visit_statement ---- *)
Fixpoint visit (s : sk) (d : nat) (g : graph) {struct s} : outcome (graph * list nat) :=
  cur <- last_index g;;
  match s with
  | SInit ss =>
      (fix go (ss : list sk) (g : graph) {struct ss} : outcome (graph * list nat) :=
         match ss with
         | [] => Ok (g, [])
         | s :: r =>
             res <- visit s d g;;
             if is_nil (snd res) then go r (fst res) else Panic site_init_nonempty
         end) ss g
  | SBlock ss =>
      (fix go (ss : list sk) (ps : list nat) (g : graph) {struct ss} : outcome (graph * list nat) :=
         match ss with
         | [] => Ok (g, ps)
         | s :: r =>
             g <- (if is_nil ps then Ok g else complete g ps d);;
             res <- visit s d g;;
             go r (snd res) (fst res)
         end) ss [] g
  | SWhile c body =>
      g <- complete g [cur] d;;
      g <- upd_last (push_item (IBranch c (cur + 2) None)) g;;
      let header := cur + 1 in
      g <- complete g [header] (d + 1);;
      res <- visit body (d + 1) g;;
      ps <- or_last (fst res) (snd res);;
      g <- fold_left (back_edge header) ps (Ok (fst res));;
      Ok (g, [header])
  | SIf c t e =>
      g <- upd_last (push_item (IBranch c (cur + 1) None)) g;;
      g <- complete g [cur] d;;
      res <- visit t d g;;
      ps_if <- or_last (fst res) (snd res);;
      match e with
      | Some e =>
          g <- complete (fst res) [cur] d;;
          res <- visit e d g;;
          ps_else <- or_last (fst res) (snd res);;
          Ok (fst res, iunion ps_if ps_else)
      | None => Ok (fst res, ins cur ps_if)
      end
  | SLeaf id _ =>
      g <- upd_last (push_item (ILeaf id)) g;;
      Ok (g, [])
  end.

(* ---- build_basic_blocks ---- *)
Definition lift (body : sk) : outcome graph :=
  match body with
  | SBlock _ =>
      res <- visit body 0 [new_block 0 0];;
      Ok (fst res)
  | _ => Panic site_body_not_block
  end.

(* ---- ast_shortcuts.rs ---- *)
(* for_into_while: build_block(meta, [init, while(cond, build_block([body, step]))]) *)
Definition for_into_while (init : sk) (c : nat) (step body : sk) : sk :=
  SBlock [init; SWhile c (SBlock [body; step])].

(* assign_with_op_shortcut / plusplus / subsub build one substitution
   statement out of one compound assignment: on skeletons a leaf stays the
   same leaf. *)
Definition assign_with_op_shortcut (id : nat) : sk := SLeaf id false.

(* ---- surface skeletons: what the parser's grammar actions are applied to ---- *)
Inductive usk :=
| ULeaf (id : nat) (is_return : bool)
| UCompound (id : nat)                          (* `x += e`, `x++` ... *)
| UInit (ss : list usk)
| UBlock (ss : list usk)
| UWhile (c : nat) (body : usk)
| UIf (c : nat) (t : usk) (e : option usk)
| UFor (init : usk) (c : nat) (step body : usk).

Fixpoint desugar (u : usk) : sk :=
  match u with
  | ULeaf id r => SLeaf id r
  | UCompound id => assign_with_op_shortcut id
  | UInit ss => SInit (map desugar ss)
  | UBlock ss => SBlock (map desugar ss)
  | UWhile c b => SWhile c (desugar b)
  | UIf c t e => SIf c (desugar t) (option_map desugar e)
  | UFor i c st b => for_into_while (desugar i) c (desugar st) (desugar b)
  end.
