(* Mirror of /repo/program_structure/src/static_single_assignment/dominator_tree.rs
   (`DominatorTree::new`, `compute_dominators`, `compute_immediate_dominators`,
   `compute_dominance_frontier`), statement for statement.  Definitions only.

   Conventions
   * a graph is the slice `basic_blocks: &[T]`: a list of nodes, the node at
     position i has index i; `predecessors()` / `successors()` are `HashSet`s,
     modelled as lists in an arbitrary (given) order;
   * a `HashSet<usize>` value is an `N` bit mask (bit i set <-> i in the set), so
     that set equality is `=`, intersection `N.land`, union `N.lor`, difference
     `N.ldiff`; `members` enumerates a mask without any a-priori bound;
   * every slice index `v[i]` is `get site v i` (a `Panic` when out of range),
     the two `assert!`s are `Panic` sites;
   * the `while !done` loop and the `while Some(k) != idom[i]` walk are recursion
     on fuel returning `OutOfFuel`;
   * the one `HashSet` iteration whose order is not obviously irrelevant
     (`for j in &idom_candidates`, with its `continue`) takes the order as an
     explicit parameter [ord]: block index -> members -> the same members in
     iteration order.  Iterations over predecessor sets only intersect / insert,
     and run in the order of the given predecessor list. *)
(* Base is required without Import: its bind notation (level 61, right
   associative) cannot coexist with std++'s level 61; the names are aliased. *)
Require Model.Base.
From stdpp Require Import list.
From Coq Require Import ZArith.

Notation outcome := Base.outcome.
Notation Ok := Base.Ok.
Notation Err := Base.Err.
Notation Panic := Base.Panic.
Notation OutOfFuel := Base.OutOfFuel.
Notation "'let*' x := m 'in' f" := (Base.bind m (fun x => f))
  (at level 200, x name, m at level 100, f at level 200, right associativity).

Record node := Node { preds : list nat; succs : list nat }.
Notation graph := (list node).

(* ---- HashSet<usize> as bit masks ---- *)
Definition mem (i : nat) (s : N) : bool := N.testbit s (N.of_nat i).
Definition ins (i : nat) (s : N) : N := N.setbit s (N.of_nat i).
Definition del (i : nat) (s : N) : N := N.clearbit s (N.of_nat i).
(* (0..n).collect() *)
Definition full (n : nat) : N := N.ones (N.of_nat n).

Fixpoint pos_members (p : positive) (k : nat) : list nat :=
  match p with
  | xH => [k]
  | xO q => pos_members q (S k)
  | xI q => k :: pos_members q (S k)
  end.
Definition members (s : N) : list nat :=
  match s with N0 => [] | Npos p => pos_members p 0 end.
(* HashSet::len *)
Definition card (s : N) : nat := length (members s).

(* ---- panic sites ---- *)
Definition site_blocks_index : Z := 1501.     (* basic_blocks[i] *)
Definition site_dom_index : Z := 1502.        (* dominators[j] *)
Definition site_idom_assert : Z := 1503.      (* assert!(idom_candidates.len() <= 1) *)
Definition site_succ_index : Z := 1504.       (* dominator_successors[j] *)
Definition site_idom_index : Z := 1505.       (* immediate_dominators[k] *)
Definition site_df_index : Z := 1506.         (* dominance_frontier[k] *)
Definition site_entry_assert : Z := 1507.     (* assert!(immediate_dominators[0].is_none()) *)

Definition get {A} (site : Z) (l : list A) (i : nat) : outcome A :=
  match l !! i with Some x => Ok x | None => Panic site end.

(* ---- compute_dominators ---- *)

(* for &j in basic_blocks[i].predecessors() {
       new_dominators = new_dominators.intersection(&dominators[j]) } *)
Fixpoint inter_preds (D : list N) (ps : list nat) (acc : N) : outcome N :=
  match ps with
  | [] => Ok acc
  | j :: ps =>
    match get site_dom_index D j with
    | Ok dj => inter_preds D ps (N.land acc dj)
    | Err e => Err e | Panic s => Panic s | OutOfFuel => OutOfFuel
    end
  end.

(* the value of `new_dominators` for block i in the state D *)
Definition new_dominators (g : graph) (n : nat) (D : list N) (i : nat) : outcome N :=
  let* b := get site_blocks_index g i in
  let* s := inter_preds D (preds b) (full n) in
  Ok (ins i s).

(* one execution of the body of `while !done`: `for i in 1..nof_blocks`, the
   updates are in place (later blocks of the same pass see them) *)
Fixpoint dom_pass (g : graph) (n : nat) (is : list nat) (D : list N) (done : bool)
  : outcome (list N * bool) :=
  match is with
  | [] => Ok (D, done)
  | i :: is =>
    let* new := new_dominators g n D i in
    let* di := get site_dom_index D i in
    if N.eqb new di then dom_pass g n is D done
    else dom_pass g n is (<[i:=new]> D) false
  end.

Fixpoint dom_loop (fuel : nat) (g : graph) (n : nat) (D : list N) : outcome (list N) :=
  match fuel with
  | O => OutOfFuel
  | S fuel =>
    let* r := dom_pass g n (seq 1 (n - 1)) D true in
    if snd r then Ok (fst r) else dom_loop fuel g n (fst r)
  end.

(* dominators.push(HashSet::from([0]));
   for _ in 1..basic_blocks.len() { dominators.push((0..nof_blocks).collect()) } *)
Definition dom_init (n : nat) : list N := ins 0 0%N :: replicate (n - 1) (full n).

Definition compute_dominators (fuel : nat) (g : graph) : outcome (list N) :=
  dom_loop fuel g (length g) (dom_init (length g)).

(* ---- compute_immediate_dominators ---- *)

(* for j in &idom_candidates {
       if all_dominators.contains(j) { continue; }
       all_dominators = (dominators[*j] - {j}) U all_dominators } *)
Fixpoint all_dominators (D : list N) (cs : list nat) (all : N) : outcome N :=
  match cs with
  | [] => Ok all
  | j :: cs =>
    if mem j all then all_dominators D cs all
    else let* dj := get site_dom_index D j in all_dominators D cs (N.lor (del j dj) all)
  end.

(* the candidate set after the `if idom_candidates.len() > 1 { ... }` block *)
Definition idom_candidates (ord : nat -> list nat -> list nat) (D : list N) (i : nat) : outcome N :=
  let* di := get site_dom_index D i in
  let cands := del i di in
  if 1 <? card cands then
    let* all := all_dominators D (ord i (members cands)) 0%N in
    let cands := N.ldiff cands all in
    if card cands <=? 1 then Ok cands else Panic site_idom_assert
  else Ok cands.

(* `for i in 0..nof_blocks`; at `idom_candidates.iter().next()` the set has at
   most one element on every path through the code above, so the element
   returned does not depend on the hash order *)
Fixpoint idom_loop (ord : nat -> list nat -> list nat) (D : list N) (is : list nat)
    (idom : list (option nat)) (ch : list N) : outcome (list (option nat) * list N) :=
  match is with
  | [] => Ok (idom, ch)
  | i :: is =>
    let* cands := idom_candidates ord D i in
    match members cands with
    | j :: _ =>
      let* _ := get site_idom_index idom i in
      let* cj := get site_succ_index ch j in
      idom_loop ord D is (<[i:=Some j]> idom) (<[j:=ins i cj]> ch)
    | [] => idom_loop ord D is idom ch
    end
  end.

Definition compute_immediate_dominators (ord : nat -> list nat -> list nat) (g : graph) (D : list N)
  : outcome (list (option nat) * list N) :=
  let n := length g in
  idom_loop ord D (seq 0 n) (replicate n None) (replicate n 0%N).

(* ---- compute_dominance_frontier ---- *)

(* let mut k = j;
   while Some(k) != immediate_dominators[i] {
       dominance_frontier[k].insert(i);
       k = match immediate_dominators[k] { Some(idom) => idom, None => break } } *)
Fixpoint df_walk (fuel : nat) (idom : list (option nat)) (i k : nat) (DF : list N) : outcome (list N) :=
  match fuel with
  | O => OutOfFuel
  | S fuel =>
    let* ti := get site_idom_index idom i in
    if decide (Some k = ti) then Ok DF
    else
      let* dfk := get site_df_index DF k in
      let DF := <[k:=ins i dfk]> DF in
      let* ik := get site_idom_index idom k in
      match ik with
      | Some k' => df_walk fuel idom i k' DF
      | None => Ok DF
      end
  end.

(* for &j in basic_blocks[i].predecessors() { ...walk from j... } *)
Fixpoint df_preds (fuel : nat) (idom : list (option nat)) (i : nat) (ps : list nat) (DF : list N)
  : outcome (list N) :=
  match ps with
  | [] => Ok DF
  | j :: ps => let* DF := df_walk fuel idom i j DF in df_preds fuel idom i ps DF
  end.

Fixpoint df_loop (fuel : nat) (g : graph) (idom : list (option nat)) (is : list nat) (DF : list N)
  : outcome (list N) :=
  match is with
  | [] => Ok DF
  | i :: is =>
    let* b := get site_blocks_index g i in
    if 1 <? length (preds b) then
      let* DF := df_preds fuel idom i (preds b) DF in df_loop fuel g idom is DF
    else df_loop fuel g idom is DF
  end.

Definition compute_dominance_frontier (fuel : nat) (g : graph) (idom : list (option nat)) : outcome (list N) :=
  let n := length g in
  df_loop fuel g idom (seq 0 n) (replicate n 0%N).

(* ---- DominatorTree::new ---- *)
Record dom_tree := DomTree {
  dt_dominators : list N;
  dt_idom : list (option nat);
  dt_children : list N;          (* dominator_successors *)
  dt_frontier : list N;
}.

Definition dominator_tree (fuel : nat) (ord : nat -> list nat -> list nat) (g : graph) : outcome dom_tree :=
  let* D := compute_dominators fuel g in
  let* ic := compute_immediate_dominators ord g D in
  let* DF := compute_dominance_frontier fuel g (fst ic) in
  let* i0 := get site_entry_assert (fst ic) 0 in     (* immediate_dominators[0] *)
  match i0 with
  | None => Ok (DomTree D (fst ic) (snd ic) DF)
  | Some _ => Panic site_entry_assert
  end.

(* the number of passes / steps that provably suffices (Proofs.DomProofs) *)
Definition dom_fuel (g : graph) : nat := length g * length g + 1.

(* ---- harness side helpers (both engines build the graph the same way):
   n nodes, an edge a->b inserts b into successors(a) and a into
   predecessors(b) (set semantics: no duplicates) ---- *)
Definition add_succ (b : nat) (x : node) : node :=
  if decide (b ∈ succs x) then x else Node (preds x) (succs x ++ [b]).
Definition add_pred (a : nat) (x : node) : node :=
  if decide (a ∈ preds x) then x else Node (preds x ++ [a]) (succs x).
Definition add_edge (g : graph) (e : nat * nat) : graph :=
  alter (add_pred e.1) e.2 (alter (add_succ e.2) e.1 g).
Definition mk_graph (n : nat) (es : list (nat * nat)) : graph :=
  foldl add_edge (replicate n (Node [] [])) es.

Definition id_order (i : nat) (l : list nat) : list nat := l.
Definition rev_order (i : nat) (l : list nat) : list nat := rev l.
(* a third order for the correspondence runs: rotate by the block index *)
Definition rot_order (i : nat) (l : list nat) : list nat := rotate i l.

(* the enumeration of the exhaustive sweep: bit a*(n-1)+(b-1) of [code] is the
   edge a->b, for a < n and 1 <= b < n (no edge enters node 0) *)
Definition edges_of_code (n : nat) (code : N) : list (nat * nat) :=
  a ← seq 0 n;
  b ← seq 1 (n - 1);
  if N.testbit code (N.of_nat (a * (n - 1) + (b - 1))) then [(a, b)] else [].
