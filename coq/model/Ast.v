(* Mirror of program_structure/src/abstract_syntax_tree/ast.rs: the 11 statement
   and 10 expression constructors (Tuple, AnonymousComponent and
   MultiSubstitution included), with their small accessors of
   expression_impl.rs.  Executable definitions only.

   [Meta] is reduced to what the desugarer and the location properties read:
   [start], [end], [file_id : option].  (The line number that enters generated
   names is not stored in a Meta: as in the code it is looked up in the file
   library from [start] and [file_id], see Model.Desugar.get_line.)  [elem_id]
   and the knowledge slots are never read by the mirrored code.
   Identifiers and log strings are Coq [string]s (byte strings); numbers are [Z];
   offsets and file ids are [N]. *)
From Coq Require Import ZArith NArith List Bool String.
Import ListNotations.

Record meta := Meta { m_start : N; m_end : N; m_file : option N }.

Inductive signal_type := SOutput | SInput | SIntermediate.

Inductive variable_type :=
| VVar
| VSignal (st : signal_type) (tags : list string)
| VComponent
| VAnonymousComponent.

Inductive assign_op := AssignVar | AssignSignal | AssignConstraintSignal.

Inductive infix_opcode :=
| IMul | IDiv | IAdd | ISub | IPow | IIntDiv | IMod | IShiftL | IShiftR
| ILesserEq | IGreaterEq | ILesser | IGreater | IEq | INotEq | IBoolOr | IBoolAnd
| IBitOr | IBitAnd | IBitXor.

Inductive prefix_opcode := PSub | PBoolNot | PComplement.

(* [Access] is mutually recursive with [Expression] in ast.rs; here it is the
   instance [access_of expression] of a parametric type, so that [expression] is
   a plain nested inductive type. *)
Inductive access_of (E : Type) :=
| ComponentAccess (s : string)
| ArrayAccess (e : E).
Arguments ComponentAccess {E} s.
Arguments ArrayAccess {E} e.

Inductive expression :=
| InfixOp (m : meta) (lhe : expression) (op : infix_opcode) (rhe : expression)
| PrefixOp (m : meta) (op : prefix_opcode) (rhe : expression)
| InlineSwitchOp (m : meta) (cond if_true if_false : expression)
| ParallelOp (m : meta) (rhe : expression)
| Variable_ (m : meta) (name : string) (acc : list (access_of expression))
| Number (m : meta) (v : Z)
| Call (m : meta) (id : string) (args : list expression)
| AnonymousComponent (m : meta) (id : string) (is_parallel : bool)
    (params signals : list expression) (names : option (list (assign_op * string)))
| ArrayInLine (m : meta) (values : list expression)
| Tuple (m : meta) (values : list expression).

Notation access := (access_of expression).

Inductive log_argument :=
| LogStr (s : string)
| LogExp (e : expression).

Inductive statement :=
| IfThenElse (m : meta) (cond : expression) (if_case : statement) (else_case : option statement)
| While (m : meta) (cond : expression) (body : statement)
| Return (m : meta) (value : expression)
| InitializationBlock (m : meta) (xtype : variable_type) (inits : list statement)
| Declaration (m : meta) (xtype : variable_type) (name : string) (dims : list expression)
    (is_constant : bool)
| Substitution (m : meta) (var : string) (acc : list access) (op : assign_op) (rhe : expression)
| MultiSubstitution (m : meta) (lhe : expression) (op : assign_op) (rhe : expression)
| ConstraintEquality (m : meta) (lhe rhe : expression)
| LogCall (m : meta) (args : list log_argument)
| Block (m : meta) (stmts : list statement)
| Assert (m : meta) (arg : expression).

(* ---- expression_impl.rs ------------------------------------------------ *)

Definition expr_meta (e : expression) : meta :=
  match e with
  | InfixOp m _ _ _ | PrefixOp m _ _ | InlineSwitchOp m _ _ _ | ParallelOp m _
  | Variable_ m _ _ | Number m _ | Call m _ _ | AnonymousComponent m _ _ _ _ _
  | ArrayInLine m _ | Tuple m _ => m
  end.

Definition is_tuple (e : expression) : bool :=
  match e with Tuple _ _ => true | _ => false end.
Definition is_anonymous_component (e : expression) : bool :=
  match e with AnonymousComponent _ _ _ _ _ _ => true | _ => false end.
Definition is_variable (e : expression) : bool :=
  match e with Variable_ _ _ _ => true | _ => false end.
Definition is_call (e : expression) : bool :=
  match e with Call _ _ _ => true | _ => false end.

Definition make_anonymous_parallel (e : expression) : expression :=
  match e with
  | AnonymousComponent m id _ params signals names =>
      AnonymousComponent m id true params signals names
  | _ => e
  end.

Definition stmt_meta (s : statement) : meta :=
  match s with
  | IfThenElse m _ _ _ | While m _ _ | Return m _ | InitializationBlock m _ _
  | Declaration m _ _ _ _ | Substitution m _ _ _ _ | MultiSubstitution m _ _ _
  | ConstraintEquality m _ _ | LogCall m _ | Block m _ | Assert m _ => m
  end.

(* ---- decidable equalities used by the mirrored code -------------------- *)

Definition variable_type_is_component (t : variable_type) : bool :=
  match t with VComponent | VAnonymousComponent => true | _ => false end.
Definition variable_type_is_var (t : variable_type) : bool :=
  match t with VVar => true | _ => false end.
