(* Mirror of value and degree propagation:
     expression_impl.rs  (ValueMeta / DegreeMeta for Expression, operator tables)
     statement_impl.rs   (Statement::propagate_values / propagate_degrees)
     basic_block.rs      (BasicBlock::propagate_values, propagate_degrees)
     cfg.rs              (Cfg::propagate_values / propagate_degrees, the pass loop)
   including the `result = result || f()` short-circuits: once a first write
   has happened in a pass, later siblings are not visited in that pass.
   The wall-clock time box is a pass budget (the hook in cfg.rs).
   Definitions only. *)
From Coq Require Import ZArith NArith List Bool.
Require Import Model.Base Model.Field Model.Ir Gen.DegreeTable.
Import ListNotations.
Local Open Scope Z_scope.

(* ------------------------------------------------------------------ *)
(* knowledge slots                                                     *)

(* ValueKnowledge::set_reduces_to: overwrite, report whether it was the first write *)
Definition set_val (k : know) (v : vred) : know * bool :=
  ({| kval := Some v; kdeg := kdeg k |}, match kval k with None => true | Some _ => false end).

(* DegreeKnowledge::set_degree *)
Definition set_deg (k : know) (r : drange) : know * bool :=
  ({| kval := kval k; kdeg := Some r |}, match kdeg k with None => true | Some _ => false end).

Definition set_know (e : expr) (k : know) : expr :=
  match e with
  | ENum z _ => ENum z k
  | EVar v _ => EVar v k
  | EInfix op l r _ => EInfix op l r k
  | EPrefix op x _ => EPrefix op x k
  | ESwitch c t f _ => ESwitch c t f k
  | ECall n a _ => ECall n a k
  | EArray v _ => EArray v k
  | EAccess v a _ => EAccess v a k
  | EUpdate v a r _ => EUpdate v a r k
  | EPhi a _ => EPhi a k
  end.

(* `result = result || set(...)`: the write happens only if nothing was
   written before in this visit *)
Definition sc_set_val (res : bool) (e : expr) (v : vred) : bool * expr :=
  if res then (true, e)
  else let '(k, b) := set_val (expr_know e) v in (b, set_know e k).
Definition sc_set_deg (res : bool) (e : expr) (r : drange) : bool * expr :=
  if res then (true, e)
  else let '(k, b) := set_deg (expr_know e) r in (b, set_know e k).

(* ------------------------------------------------------------------ *)
(* value environment (ValueEnvironment)                                *)

Definition venv := list (vname * vred).

Fixpoint venv_get (env : venv) (v : vname) : option vred :=
  match env with
  | [] => None
  | (w, x) :: tl => if vname_eqb w v then Some x else venv_get tl v
  end.

Definition site_add_variable : Z := 601.   (* assert_eq!(previous, *value) in add_variable *)

Definition venv_add (env : venv) (v : vname) (x : vred) : outcome venv :=
  match venv_get env v with
  | Some y => if vred_eqb y x then Ok env else Panic site_add_variable
  | None => Ok ((v, x) :: env)
  end.

(* ------------------------------------------------------------------ *)
(* operator tables for values (expression_impl.rs:704-858)             *)

Definition res_to_opt (r : outcome Z) : outcome (option vred) :=
  match r with
  | Ok v => Ok (Some (VField v))
  | Err _ => Ok None
  | Panic s => Panic s
  | OutOfFuel => OutOfFuel
  end.

Definition cmp_val (v p : Z) : outcome (option vred) := Ok (Some (VBool (as_bool v p))).

Definition infix_values (op : infix_op) (l r : option vred) (p : Z) : outcome (option vred) :=
  match l, r with
  | Some (VField a), Some (VField b) =>
    match op with
    | IMul => Ok (Some (VField (mul a b p)))
    | IDiv => res_to_opt (div a b p)
    | IAdd => Ok (Some (VField (add a b p)))
    | ISub => Ok (Some (VField (sub a b p)))
    | IPow => Ok (Some (VField (pow a b p)))
    | IIntDiv => res_to_opt (idiv a b p)
    | IMod => res_to_opt (mod_op a b p)
    | IShl => res_to_opt (shift_l a b p)
    | IShr => res_to_opt (shift_r a b p)
    | ILe => cmp_val (lesser_eq a b p) p
    | IGe => cmp_val (greater_eq a b p) p
    | ILt => cmp_val (lesser a b p) p
    | IGt => cmp_val (greater a b p) p
    | IEq => cmp_val (eq a b p) p
    | INeq => cmp_val (not_eq a b p) p
    | IBor => Ok (Some (VField (bit_or a b p)))
    | IBand => Ok (Some (VField (bit_and a b p)))
    | IBxor => Ok (Some (VField (bit_xor a b p)))
    | IOr | IAnd => Ok None
    end
  | Some (VBool a), Some (VBool b) =>
    match op with
    | IAnd => Ok (Some (VBool (a && b)))
    | IOr => Ok (Some (VBool (a || b)))
    | _ => Ok None
    end
  | _, _ => Ok None
  end.

Definition prefix_values (op : prefix_op) (x : option vred) (p : Z) : option vred :=
  match x with
  | Some (VField a) =>
    match op with
    | PNeg => Some (VField (prefix_sub a p))
    | PCompl => Some (VField (complement_256 a p))
    | PNot => None
    end
  | Some (VBool a) =>
    match op with
    | PNot => Some (VBool (negb a))
    | _ => None
    end
  | None => None
  end.

(* SwitchOp: which branch value is taken *)
Definition switch_value (c t f : option vred) : option vred :=
  match c with
  | Some (VBool true) => match t with Some v => Some v | None => None end
  | Some (VBool false) => match f with Some v => Some v | None => None end
  | Some (VField z) =>
    if negb (z =? 0) then match t with Some v => Some v | None => None end
    else match f with Some v => Some v | None => None end
  | None => None
  end.

(* Phi: all arguments known and all equal *)
Fixpoint phi_values (env : venv) (args : list vname) : option (list vred) :=
  match args with
  | [] => Some []
  | a :: tl =>
    match venv_get env a, phi_values env tl with
    | Some x, Some xs => Some (x :: xs)
    | _, _ => None
    end
  end.
Definition phi_value (env : venv) (args : list vname) : option vred :=
  match phi_values env args with
  | Some (x :: xs) => if forallb (vred_eqb x) xs then Some x else None
  | _ => None
  end.

(* ------------------------------------------------------------------ *)
(* value propagation over expressions                                  *)

Fixpoint pv_expr (p : Z) (env : venv) (e : expr) {struct e} : outcome (bool * expr) :=
  let fix pv_list (res : bool) (es : list expr) {struct es} : outcome (bool * list expr) :=
      match es with
      | [] => Ok (res, [])
      | x :: tl =>
        if res then Ok (true, x :: tl)
        else r <- pv_expr p env x ;;
             let '(b, x') := r in
             t <- pv_list b tl ;;
             let '(b', tl') := t in Ok (b', x' :: tl')
      end in
  let fix pv_acc (res : bool) (acc : list (access expr)) {struct acc} : outcome (bool * list (access expr)) :=
      match acc with
      | [] => Ok (res, [])
      | AComp n :: tl => t <- pv_acc res tl ;; let '(b', tl') := t in Ok (b', AComp n :: tl')
      | AIdx x :: tl =>
        if res then Ok (true, AIdx x :: tl)
        else r <- pv_expr p env x ;;
             let '(b, x') := r in
             t <- pv_acc b tl ;;
             let '(b', tl') := t in Ok (b', AIdx x' :: tl')
      end in
  match e with
  | ENum z k => let '(k', b) := set_val k (VField (Z.rem z p)) in Ok (b, ENum z k')
  | EVar v k =>
    match venv_get env v with
    | Some x => let '(k', b) := set_val k x in Ok (b, EVar v k')
    | None => Ok (false, e)
    end
  | EInfix op l r k =>
    rl <- pv_expr p env l ;;
    let '(b1, l') := rl in
    rr <- (if b1 then Ok (true, r) else pv_expr p env r) ;;
    let '(b2, r') := rr in
    ov <- infix_values op (expr_val l') (expr_val r') p ;;
    match ov with
    | Some v => Ok (sc_set_val b2 (EInfix op l' r' k) v)
    | None => Ok (b2, EInfix op l' r' k)
    end
  | EPrefix op x k =>
    rx <- pv_expr p env x ;;
    let '(b1, x') := rx in
    match prefix_values op (expr_val x') p with
    | Some v => Ok (sc_set_val b1 (EPrefix op x' k) v)
    | None => Ok (b1, EPrefix op x' k)
    end
  | ESwitch c t f k =>
    rc <- pv_expr p env c ;;
    rt <- pv_expr p env t ;;
    rf <- pv_expr p env f ;;
    let '(bc, c') := rc in
    let '(bt, t') := rt in
    let '(bf, f') := rf in
    let res := bc || bt || bf in
    match switch_value (expr_val c') (expr_val t') (expr_val f') with
    | Some v => Ok (sc_set_val res (ESwitch c' t' f' k) v)
    | None => Ok (res, ESwitch c' t' f' k)
    end
  | ECall n args k =>
    r <- pv_list false args ;; let '(b, args') := r in Ok (b, ECall n args' k)
  | EArray vs k =>
    r <- pv_list false vs ;; let '(b, vs') := r in Ok (b, EArray vs' k)
  | EAccess v acc k =>
    r <- pv_acc false acc ;; let '(b, acc') := r in Ok (b, EAccess v acc' k)
  | EUpdate v acc rhe k =>
    rr <- pv_expr p env rhe ;;
    let '(b1, rhe') := rr in
    r <- pv_acc b1 acc ;; let '(b, acc') := r in Ok (b, EUpdate v acc' rhe' k)
  | EPhi args k =>
    match phi_value env args with
    | Some x => let '(k', b) := set_val k x in Ok (b, EPhi args k')
    | None => Ok (false, e)
    end
  end.

Fixpoint pv_exprs (p : Z) (env : venv) (res : bool) (es : list expr) : outcome (bool * list expr) :=
  match es with
  | [] => Ok (res, [])
  | x :: tl =>
    if res then Ok (true, x :: tl)
    else r <- pv_expr p env x ;;
         let '(b, x') := r in
         t <- pv_exprs p env b tl ;;
         let '(b', tl') := t in Ok (b', x' :: tl')
  end.

Fixpoint pv_logargs (p : Z) (env : venv) (res : bool) (es : list logarg) : outcome (bool * list logarg) :=
  match es with
  | [] => Ok (res, [])
  | LStr :: tl => t <- pv_logargs p env res tl ;; let '(b', tl') := t in Ok (b', LStr :: tl')
  | LExpr x :: tl =>
    if res then Ok (true, LExpr x :: tl)
    else r <- pv_expr p env x ;;
         let '(b, x') := r in
         t <- pv_logargs p env b tl ;;
         let '(b', tl') := t in Ok (b', LExpr x' :: tl')
  end.

Definition is_update (e : expr) : bool := match e with EUpdate _ _ _ _ => true | _ => false end.

Definition stype_is_local (t : option vtype) : bool :=
  match t with Some TLocal => true | _ => false end.

(* Statement::propagate_values *)
Definition pv_stmt (p : Z) (env : venv) (s : stmt) : outcome (bool * stmt * venv) :=
  match s with
  | SDecl m names t dims =>
    r <- pv_exprs p env false dims ;; let '(b, dims') := r in Ok (b, SDecl m names t dims', env)
  | SSubst m v op rhe sval stype =>
    r <- pv_expr p env rhe ;;
    let '(b, rhe') := r in
    if is_update rhe' then Ok (b, SSubst m v op rhe' sval stype, env)
    else match expr_val rhe' with
         | Some x =>
           env' <- (if stype_is_local stype then venv_add env v x else Ok env) ;;
           if b then Ok (true, SSubst m v op rhe' sval stype, env')
           else Ok (match sval with None => true | Some _ => false end,
                    SSubst m v op rhe' (Some x) stype, env')
         | None => Ok (b, SSubst m v op rhe' sval stype, env)
         end
  | SLog m args =>
    r <- pv_logargs p env false args ;; let '(b, args') := r in Ok (b, SLog m args', env)
  | SIf m c t f => r <- pv_expr p env c ;; let '(b, c') := r in Ok (b, SIf m c' t f, env)
  | SRet m e => r <- pv_expr p env e ;; let '(b, e') := r in Ok (b, SRet m e', env)
  | SAssert m e => r <- pv_expr p env e ;; let '(b, e') := r in Ok (b, SAssert m e', env)
  | SCeq m l r0 =>
    rl <- pv_expr p env l ;;
    let '(b1, l') := rl in
    if b1 then Ok (true, SCeq m l' r0, env)
    else rr <- pv_expr p env r0 ;; let '(b2, r') := rr in Ok (b2, SCeq m l' r', env)
  end.

(* BasicBlock::propagate_values: result = result || stmt.propagate_values(env) *)
Fixpoint pv_stmts (p : Z) (env : venv) (res : bool) (ss : list stmt) : outcome (bool * list stmt * venv) :=
  match ss with
  | [] => Ok (res, [], env)
  | s :: tl =>
    if res then Ok (true, s :: tl, env)
    else r <- pv_stmt p env s ;;
         let '(b, s', env') := r in
         t <- pv_stmts p env' b tl ;;
         let '(b', tl', env'') := t in Ok (b', s' :: tl', env'')
  end.

(* one pass of Cfg::propagate_values over the blocks: rerun = rerun || bb.propagate_values(env) *)
Fixpoint pv_blocks (p : Z) (env : venv) (res : bool) (bs : list block) : outcome (bool * list block * venv) :=
  match bs with
  | [] => Ok (res, [], env)
  | b :: tl =>
    if res then Ok (true, b :: tl, env)
    else r <- pv_stmts p env false (b_stmts b) ;;
         let '(r1, ss', env') := r in
         t <- pv_blocks p env' r1 tl ;;
         let '(r2, tl', env'') := t in Ok (r2, set_stmts b ss' :: tl', env'')
  end.

(* the pass loop with a budget of k passes (k = 0: nothing runs) *)
Fixpoint values_passes (k : nat) (p : Z) (env : venv) (bs : list block) : outcome (list block * venv) :=
  match k with
  | O => Ok (bs, env)
  | S k' =>
    r <- pv_blocks p env false bs ;;
    let '(rerun, bs', env') := r in
    if rerun then values_passes k' p env' bs' else Ok (bs', env')
  end.

(* ------------------------------------------------------------------ *)
(* degrees                                                             *)

Definition deg_min (a b : degree) : degree := if deg_le a b then a else b.
Definition deg_max (a b : degree) : degree := if deg_le a b then b else a.

Definition range_infix (op : infix_op) (a b : drange) : drange :=
  (deg_infix op (fst a) (fst b), deg_infix op (snd a) (snd b)).
Definition range_prefix (op : prefix_op) (a : drange) : drange :=
  (deg_prefix op (fst a), deg_prefix op (snd a)).
Definition range_inf (a b : drange) : drange :=
  (deg_min (fst a) (fst b), deg_max (snd a) (snd b)).
Definition range_is_constant (a : drange) : bool := deg_le (snd a) DConst.
Definition range_is_linear (a : drange) : bool := deg_le (snd a) DLin.
Definition range_is_quadratic (a : drange) : bool := deg_le (snd a) DQuad.

(* DegreeRange::iter_opt *)
Fixpoint iter_inf (acc : drange) (rs : list drange) : drange :=
  match rs with [] => acc | r :: tl => iter_inf (range_inf acc r) tl end.
Fixpoint all_some {A} (l : list (option A)) : option (list A) :=
  match l with
  | [] => Some []
  | Some x :: tl => match all_some tl with Some xs => Some (x :: xs) | None => None end
  | None :: _ => None
  end.
Definition iter_opt (rs : list (option drange)) : option drange :=
  match all_some rs with
  | Some (r :: tl) => Some (iter_inf r tl)
  | _ => None
  end.

(* DegreeEnvironment *)
(* what is known about the branch condition that decides along which edge the block
   being visited is entered (MergeControl): unknown, constant, possibly input-dependent *)
Inductive mctl := MUnknown | MConst | MNonConst.
Record denv := { de_deg : list (vname * drange); de_types : list (vname * vtype); de_assigned : list vname; de_ctl : mctl }.
Definition denv0 : denv := {| de_deg := []; de_types := []; de_assigned := []; de_ctl := MUnknown |}.

Fixpoint assoc_get {A} (l : list (vname * A)) (v : vname) : option A :=
  match l with
  | [] => None
  | (w, x) :: tl => if vname_eqb w v then Some x else assoc_get tl v
  end.
Fixpoint assoc_set {A} (l : list (vname * A)) (v : vname) (x : A) : list (vname * A) :=
  match l with
  | [] => [(v, x)]
  | (w, y) :: tl => if vname_eqb w v then (w, x) :: tl else (w, y) :: assoc_set tl v x
  end.

Definition denv_degree (env : denv) (v : vname) : option drange := assoc_get (de_deg env) v.
(* HashMap::insert overwrites; true iff there was no previous entry *)
Definition denv_set_degree (env : denv) (v : vname) (r : drange) : denv * bool :=
  ({| de_deg := assoc_set (de_deg env) v r; de_types := de_types env; de_assigned := de_assigned env; de_ctl := de_ctl env |},
   match assoc_get (de_deg env) v with None => true | Some _ => false end).
Definition denv_set_type (env : denv) (v : vname) (t : vtype) : denv :=
  {| de_deg := de_deg env; de_types := assoc_set (de_types env) v t; de_assigned := de_assigned env; de_ctl := de_ctl env |}.
Definition denv_set_assigned (env : denv) (v : vname) : denv :=
  {| de_deg := de_deg env; de_types := de_types env; de_assigned := v :: de_assigned env; de_ctl := de_ctl env |}.
Definition denv_set_ctl (env : denv) (m : mctl) : denv :=
  {| de_deg := de_deg env; de_types := de_types env; de_assigned := de_assigned env; de_ctl := m |}.

(* the claim on a phi given the infimum of its arguments: the same argument is taken for
   every input only if the deciding condition is constant *)
Definition phi_adjust (m : mctl) (o : option drange) : option drange :=
  match m, o with
  | MConst, Some rg => Some rg
  | MNonConst, Some rg => Some (fst rg, DNonQuad)
  | _, _ => None
  end.
Definition denv_is_assigned (env : denv) (v : vname) : bool := existsb (vname_eqb v) (de_assigned env).
Definition denv_is_local (env : denv) (v : vname) : bool :=
  match assoc_get (de_types env) v with Some TLocal => true | _ => false end.

Definition opt_range_infix (op : infix_op) (a b : option drange) : option drange :=
  match a, b with Some x, Some y => Some (range_infix op x y) | _, _ => None end.
Definition opt_range_prefix (op : prefix_op) (a : option drange) : option drange :=
  match a with Some x => Some (range_prefix op x) | None => None end.

(* constant_indices: Some true if every array index is known to be constant,
   Some false if one is known not to be, None while an index degree is unknown *)
Fixpoint constant_indices (acc : list (access expr)) : option bool :=
  match acc with
  | [] => Some true
  | AComp _ :: tl => constant_indices tl
  | AIdx x :: tl =>
    (* result = result && index.degree()?.is_constant(): once an index is known
       not to be constant, later indices are not inspected *)
    match expr_deg x with
    | None => None
    | Some r => if range_is_constant r then constant_indices tl else Some false
    end
  end.

(* the claim on an access/update given the range of the array *)
Definition index_adjust (acc : list (access expr)) (rg : drange) : option drange :=
  match constant_indices acc with
  | Some true => Some rg
  | Some false => Some (fst rg, DNonQuad)
  | None => None
  end.

Definition all_constant (es : list expr) : bool :=
  forallb (fun e => match expr_deg e with Some r => range_is_constant r | None => false end) es.

Fixpoint pd_expr (env : denv) (e : expr) {struct e} : bool * expr :=
  let fix pd_list (res : bool) (es : list expr) {struct es} : bool * list expr :=
      match es with
      | [] => (res, [])
      | x :: tl =>
        if res then (true, x :: tl)
        else let '(b, x') := pd_expr env x in
             let '(b', tl') := pd_list b tl in (b', x' :: tl')
      end in
  let fix pd_acc (res : bool) (acc : list (access expr)) {struct acc} : bool * list (access expr) :=
      match acc with
      | [] => (res, [])
      | AComp n :: tl => let '(b', tl') := pd_acc res tl in (b', AComp n :: tl')
      | AIdx x :: tl =>
        if res then (true, AIdx x :: tl)
        else let '(b, x') := pd_expr env x in
             let '(b', tl') := pd_acc b tl in (b', AIdx x' :: tl')
      end in
  match e with
  | ENum z k => let '(k', b) := set_deg k (DConst, DConst) in (b, ENum z k')
  | EVar v k =>
    match denv_degree env v with
    | Some r => let '(k', b) := set_deg k r in (b, EVar v k')
    | None => (false, e)
    end
  | EInfix op l r k =>
    let '(b1, l') := pd_expr env l in
    let '(b2, r') := if b1 then (true, r) else pd_expr env r in
    match opt_range_infix op (expr_deg l') (expr_deg r') with
    | Some rg => sc_set_deg b2 (EInfix op l' r' k) rg
    | None => (b2, EInfix op l' r' k)
    end
  | EPrefix op x k =>
    let '(b1, x') := pd_expr env x in
    match opt_range_prefix op (expr_deg x') with
    | Some rg => sc_set_deg b1 (EPrefix op x' k) rg
    | None => (b1, EPrefix op x' k)
    end
  | ESwitch c t f k =>
    let '(b1, c') := pd_expr env c in
    let '(b2, t') := if b1 then (true, t) else pd_expr env t in
    let '(b3, f') := if b2 then (true, f) else pd_expr env f in
    match expr_deg c' with
    | None => (b3, ESwitch c' t' f' k)
    | Some rc =>
      if range_is_constant rc then
        match iter_opt [expr_deg t'; expr_deg f'] with
        | Some rg => sc_set_deg b3 (ESwitch c' t' f' k) rg
        | None => (b3, ESwitch c' t' f' k)
        end
      else (b3, ESwitch c' t' f' k)
    end
  | ECall n args k =>
    let '(b, args') := pd_list false args in
    if all_constant args' then sc_set_deg b (ECall n args' k) (DConst, DConst)
    else (b, ECall n args' k)
  | EArray vs k =>
    let '(b, vs') := pd_list false vs in
    match iter_opt (map expr_deg vs') with
    | Some rg => sc_set_deg b (EArray vs' k) rg
    | None => (b, EArray vs' k)
    end
  | EAccess v acc k =>
    let '(b, acc') := pd_acc false acc in
    match denv_degree env v with
    | Some rg =>
      match index_adjust acc' rg with
      | Some rg' => sc_set_deg b (EAccess v acc' k) rg'
      | None => (b, EAccess v acc' k)
      end
    | None => (b, EAccess v acc' k)
    end
  | EUpdate v acc rhe k =>
    let '(b1, rhe') := pd_expr env rhe in
    let '(b, acc') := pd_acc b1 acc in
    let base :=
        match denv_degree env v with
        | None => if denv_is_assigned env v then None else expr_deg rhe'
        | Some rv => iter_opt [Some rv; expr_deg rhe']
        end in
    match base with
    | Some rg =>
      match index_adjust acc' rg with
      | Some rg' => sc_set_deg b (EUpdate v acc' rhe' k) rg'
      | None => (b, EUpdate v acc' rhe' k)
      end
    | None => (b, EUpdate v acc' rhe' k)
    end
  | EPhi args k =>
    match phi_adjust (de_ctl env) (iter_opt (map (denv_degree env) args)) with
    | Some rg => sc_set_deg false (EPhi args k) rg
    | None => (false, e)
    end
  end.

Fixpoint pd_exprs (env : denv) (res : bool) (es : list expr) : bool * list expr :=
  match es with
  | [] => (res, [])
  | x :: tl =>
    if res then (true, x :: tl)
    else let '(b, x') := pd_expr env x in
         let '(b', tl') := pd_exprs env b tl in (b', x' :: tl')
  end.

Fixpoint pd_logargs (env : denv) (res : bool) (es : list logarg) : bool * list logarg :=
  match es with
  | [] => (res, [])
  | LStr :: tl => let '(b', tl') := pd_logargs env res tl in (b', LStr :: tl')
  | LExpr x :: tl =>
    if res then (true, LExpr x :: tl)
    else let '(b, x') := pd_expr env x in
         let '(b', tl') := pd_logargs env b tl in (b', LExpr x' :: tl')
  end.

Definition is_sig_or_comp (t : vtype) : bool :=
  match t with TLocal => false | _ => true end.

(* Declaration: for name in names { if signal/component { result = result || env.set_degree(name, Linear) } env.set_type(name, var_type) } *)
Fixpoint pd_decl_names (env : denv) (res : bool) (t : vtype) (names : list vname) : bool * denv :=
  match names with
  | [] => (res, env)
  | n :: tl =>
    let '(env1, res1) :=
        if is_sig_or_comp t then
          (if res then (env, true)
           else let '(e1, b) := denv_set_degree env n (DLin, DLin) in (e1, b))
        else (env, res) in
    pd_decl_names (denv_set_type env1 n t) res1 t tl
  end.

(* Statement::propagate_degrees *)
Definition pd_stmt (env : denv) (s : stmt) : bool * stmt * denv :=
  match s with
  | SDecl m names t dims =>
    let '(b, env') := pd_decl_names env false t names in (b, s, env')
  | SSubst m v op rhe sval stype =>
    let '(b, rhe') := pd_expr env rhe in
    (* meta.type_knowledge().is_local(): the type of the target as recorded on the statement
       (since /repo fix D20; the type environment does not know the later versions of a parameter) *)
    if stype_is_local stype then
      let env := denv_set_assigned env v in
      match expr_deg rhe' with
      | Some rg =>
        if b then (true, SSubst m v op rhe' sval stype, env)
        else let '(env', b') := denv_set_degree env v rg in (b', SSubst m v op rhe' sval stype, env')
      | None => (b, SSubst m v op rhe' sval stype, env)
      end
    else (b, SSubst m v op rhe' sval stype, env)
  | SLog m args => let '(b, args') := pd_logargs env false args in (b, SLog m args', env)
  | SIf m c t f => let '(b, c') := pd_expr env c in (b, SIf m c' t f, env)
  | SRet m e => let '(b, e') := pd_expr env e in (b, SRet m e', env)
  | SAssert m e => let '(b, e') := pd_expr env e in (b, SAssert m e', env)
  | SCeq m l r =>
    let '(b1, l') := pd_expr env l in
    if b1 then (true, SCeq m l' r, env)
    else let '(b2, r') := pd_expr env r in (b2, SCeq m l' r', env)
  end.

Fixpoint pd_stmts (env : denv) (res : bool) (ss : list stmt) : bool * list stmt * denv :=
  match ss with
  | [] => (res, [], env)
  | s :: tl =>
    if res then (true, s :: tl, env)
    else let '(b, s', env') := pd_stmt env s in
         let '(b', tl', env'') := pd_stmts env' b tl in (b', s' :: tl', env'')
  end.

(* Cfg::merge_control: the conditions that decide along which edge block b is entered:
   the conditions of the if-statements / loops ending a block on the dominator-tree path
   from each predecessor of b up to and including the immediate dominator of b (for a
   loop header the path from the end of the body leads through the header itself) *)
Definition last_cond (b : block) : option expr :=
  match last (b_stmts b) (SLog {| m_start := 0%N; m_end := 0%N; m_file := None |} []) with
  | SIf _ c _ _ => Some c
  | _ => None
  end.

Definition cond_at (all : list block) (i : N) : list expr :=
  match nth_error all (N.to_nat i) with
  | Some b => match last_cond b with Some c => [c] | None => [] end
  | None => []
  end.

Fixpoint chain_conds (fuel : nat) (all : list block) (idom : list (option N)) (stop : option N) (cur : N) : list expr :=
  match fuel with
  | O => []
  | S f =>
    cond_at all cur ++
    (if opt_eqb N.eqb (Some cur) stop then []
     else match nth_error idom (N.to_nat cur) with
          | Some (Some d) => chain_conds f all idom stop d
          | _ => []
          end)
  end.

Definition idom_of (idom : list (option N)) (i : N) : option N :=
  match nth_error idom (N.to_nat i) with Some o => o | None => None end.

(* None: fewer than two predecessors, nothing to decide *)
Definition deciding (all : list block) (idom : list (option N)) (b : block) : option (list expr) :=
  if (length (b_preds b) <? 2)%nat then None
  else Some (flat_map (chain_conds (S (length all)) all idom (idom_of idom (b_index b))) (b_preds b)).

Definition cond_nonconst (c : expr) : bool :=
  match expr_deg c with Some rg => negb (range_is_constant rg) | None => false end.
Definition cond_unknown (c : expr) : bool := match expr_deg c with None => true | Some _ => false end.

Definition ctl_of_conds (cs : list expr) : mctl :=
  if existsb cond_nonconst cs then MNonConst else if existsb cond_unknown cs then MUnknown else MConst.

Definition block_ctl (all : list block) (idom : list (option N)) (b : block) : mctl :=
  match deciding all idom b with None => MConst | Some cs => ctl_of_conds cs end.

(* one pass over the blocks; [pre] are the blocks already visited in this pass (in order):
   the deciding condition is read from the current state of the whole graph *)
Fixpoint pd_blocks (idom : list (option N)) (env : denv) (res : bool) (pre : list block) (bs : list block)
  : bool * list block * denv :=
  match bs with
  | [] => (res, [], env)
  | b :: tl =>
    if res then (true, b :: tl, env)
    else let env0 := denv_set_ctl env (block_ctl (pre ++ b :: tl) idom b) in
         let '(r1, ss', env') := pd_stmts env0 false (b_stmts b) in
         let '(r2, tl', env'') := pd_blocks idom env' r1 (pre ++ [set_stmts b ss']) tl in
         (r2, set_stmts b ss' :: tl', env'')
  end.

Fixpoint degrees_passes (k : nat) (idom : list (option N)) (env : denv) (bs : list block) : list block * denv :=
  match k with
  | O => (bs, env)
  | S k' =>
    let '(rerun, bs', env') := pd_blocks idom env false [] bs in
    if rerun then degrees_passes k' idom env' bs' else (bs', env')
  end.

(* initial degree environment: parameters *)
Definition denv_init (kind : defkind) (params : list vname) : denv :=
  fold_left (fun env x =>
               let env1 := denv_set_type env x TLocal in
               fst (denv_set_degree env1 x
                      (match kind with KFunction => (DConst, DLin) | _ => (DConst, DConst) end)))
            params denv0.

(* Cfg::propagate_values then Cfg::propagate_degrees, with the two budgets *)
Definition propagate (kv kd : nat) (p : Z) (idom : list (option N)) (c : cfg) : outcome cfg :=
  r <- values_passes kv p [] (c_blocks c) ;;
  let '(bs1, _) := r in
  let '(bs2, _) := degrees_passes kd idom (denv_init (c_kind c) (c_params c)) bs1 in
  Ok (set_blocks c bs2).
