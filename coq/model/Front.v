(* Front — the junction between Model.Includes (C19's mirror of FileStack and
   of the parse_files loop: which files are read, the FileLibrary entries with
   their user flag, the OS / include / parse error reports) and Model.Runner
   (C03's mirror of everything that decides whether a produced report reaches
   the user).  Definitions only.

   Mirrored here, statement for statement:
   * parser/src/errors.rs `FileOsError::into_report`, `IncludeError::into_report`,
     `ParsingError::into_report` / `UnclosedCommentError::into_report`: all are
     `Report::error(.., ReportCode::ParseFail)`; the first has no label, the
     include error has one primary label iff `file_id` is `Some`, the parse
     errors have one primary label in the file being parsed.  What the runner
     looks at is the category, the code and `primary_file_ids` ([report_of]);
     message and label ranges are the opaque payload.
   * program_structure/src/program_library/file_definition.rs
     `FileLibrary::add_file`: file ids are the positions in the order of
     addition, `user_inputs` is the set of ids added with `is_user_input = true`
     ([user_ids]).
   * cli/src/main.rs: the report collection returned by parse_files and
     `runner.file_library().user_inputs()` are what the writer and its filters
     get ([front_project]).  The reports of the stages the Includes mirror does
     not model (version pragma, main components, syntax-sugar removal,
     ProgramArchive::new) are the parameter [others]; the definitions with what
     lifting and the passes produce for them are the parameter [defs], as in
     Model.Runner.  The order of the report collection is irrelevant for what
     is displayed (C17_file_order_irrelevant), so [others] is simply appended. *)
From Coq Require Import ZArith List Bool.
Require Import Model.Base Gen.Category Model.Runner.
Require Model.Includes.
Import ListNotations.

Section Front.
  Context {path : Type}.
  (* ReportCode::ParseFail: `id()` and `name()` in the caller's numbering *)
  Variable pf_id pf_name : Z.
  (* message and label ranges of a report: opaque for the runner *)
  Variable payload : Includes.report (path:=path) -> Z.

  Definition primary_files (r : Includes.report (path:=path)) : list Z :=
    match r with
    | Includes.FileOsError _ => []
    | Includes.IncludeError _ (Some fid) _ _ => [Z.of_nat fid]
    | Includes.IncludeError _ None _ _ => []
    | Includes.ParsingError fid => [Z.of_nat fid]
    end.

  Definition report_of (r : Includes.report (path:=path)) : report :=
    mkReport Error pf_id pf_name (primary_files r) (payload r).

  (* FileLibrary::user_inputs: the ids of the entries added with the flag *)
  Fixpoint user_ids_from (i : nat) (fs : list (path * bool)) : list Z :=
    match fs with
    | [] => []
    | (_, u) :: rest => (if u then [Z.of_nat i] else []) ++ user_ids_from (S i) rest
    end.

  Definition user_ids (s : Includes.parse_state (path:=path)) : list Z :=
    user_ids_from 0 (Includes.ps_files s).

  Definition front_reports (s : Includes.parse_state (path:=path)) : list report :=
    map report_of (Includes.ps_reports s).

  Definition front_project (s : Includes.parse_state (path:=path)) (others : list report) (defs : list def)
      : project :=
    mkProject (front_reports s ++ others) defs (user_ids s).
End Front.

(* the instance that is run against the implementation (file system as data):
   the parse-stage reports of the project handed to the runner when no other
   stage contributes — [p_parse (front_project pf_id pf_name _ s [] [])] — each
   as (category as `Display` prints it, code id, code name, primary file ids)
   in order, and the user-input ids [p_user].  [pf_id]/[pf_name] are given by
   the caller (the check passes the numbers it interns
   `ReportCode::ParseFail.id()` / `.name()` of the current tree to); that every
   report of the stage has error level and that one code is what [report_of]
   says and what the comparison with the real `Report`s tests. *)
Definition report_view (r : report) : String.string * Z * Z * list Z :=
  (Category.display (r_level r), r_id r, r_name r, r_pfiles r).

Definition front_run (pf_id pf_name : Z) (d : Includes.fs_data) (argv libs : list Includes.spath)
    : outcome (list (String.string * Z * Z * list Z) * list Z) :=
  Base.bind (Includes.run_project false d argv libs)
            (fun s => let p := front_project pf_id pf_name (fun _ => 0%Z) s [] [] in
                      Ok (map report_view (p_parse p), p_user p)).
