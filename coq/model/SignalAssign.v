(* Mirror of /repo/program_analysis/src/signal_assignments.rs
   (`find_signal_assignments`, `visit_statement`, `SignalUse`, the two
   `into_report`s) over the IR of Model.Ir, together with the parts of
   `cache_variable_use` (expression_impl.rs / statement_impl.rs) and
   `propagate_types` the pass reads through `signals_read()`,
   `components_read()` and `components_written()`.
   Definitions only.

   Conventions.
   * `HashSet<Assignment>` / `HashSet<Constraint>` are lists in first-insertion
     order, deduplicated with the boolean mirror of the Rust `Eq` of the element
     type (`insert` is a no-op when an equal element is present).  The order of
     the produced reports and of the secondary labels is the iteration order of
     those sets in Rust: every statement about them is up to permutation and the
     correspondence sorts both sides.
   * `ir::Meta` equality is location + file only (impl PartialEq for Meta);
     `Expression` equality is syntactic and ignores every meta (impl PartialEq
     for Expression), so knowledge slots never take part in a comparison.
   * The type knowledge of an expression node is not part of the dump; it is
     recomputed as `propagate_types` does: the declared type of the variable
     with its version removed (`Declarations::get_type`).  The type knowledge of
     a substitution statement is the `stype` slot of the dump.
   * `variable knowledge must be initialized before it is read` (the `expect`s
     of VariableKnowledge) cannot fire on a cfg returned by `into_ssa`, which
     ends with `cache_variable_use` on every statement; the model computes the
     cached sets on demand instead. *)
From Coq Require Import ZArith NArith List Bool.
Require Import Model.Base Model.Ir.
Import ListNotations.

(* ---------- equalities used by the Rust Hash/Eq derives ---------- *)

Definition meta_eqb (a b : meta) : bool :=
  N.eqb (m_start a) (m_start b) && N.eqb (m_end a) (m_end b)
  && opt_eqb N.eqb (m_file a) (m_file b).

Definition infix_eqb (a b : infix_op) : bool :=
  match a, b with
  | IMul, IMul | IDiv, IDiv | IAdd, IAdd | ISub, ISub | IPow, IPow | IIntDiv, IIntDiv
  | IMod, IMod | IShl, IShl | IShr, IShr | ILe, ILe | IGe, IGe | ILt, ILt | IGt, IGt
  | IEq, IEq | INeq, INeq | IOr, IOr | IAnd, IAnd | IBor, IBor | IBand, IBand
  | IBxor, IBxor => true
  | _, _ => false
  end.

Definition prefix_eqb (a b : prefix_op) : bool :=
  match a, b with
  | PNot, PNot | PNeg, PNeg | PCompl, PCompl => true
  | _, _ => false
  end.

Fixpoint vnames_eqb (a b : list vname) : bool :=
  match a, b with
  | [], [] => true
  | x :: a', y :: b' => vname_eqb x y && vnames_eqb a' b'
  | _, _ => false
  end.

(* impl PartialEq for Expression (expression_impl.rs): syntactic equality,
   metas ignored; Vec equality is length + pointwise. *)
Fixpoint expr_eqb (a b : expr) {struct a} : bool :=
  match a, b with
  | EInfix o1 l1 r1 _, EInfix o2 l2 r2 _ => infix_eqb o1 o2 && expr_eqb l1 l2 && expr_eqb r1 r2
  | EPrefix o1 e1 _, EPrefix o2 e2 _ => prefix_eqb o1 o2 && expr_eqb e1 e2
  | ESwitch c1 t1 f1 _, ESwitch c2 t2 f2 _ => expr_eqb c1 c2 && expr_eqb t1 t2 && expr_eqb f1 f2
  | EVar v1 _, EVar v2 _ => vname_eqb v1 v2
  | ENum z1 _, ENum z2 _ => Z.eqb z1 z2
  | ECall n1 a1 _, ECall n2 a2 _ =>
    ident_eqb n1 n2 &&
    (fix go (xs ys : list expr) {struct xs} : bool :=
       match xs, ys with
       | [], [] => true
       | x :: xs', y :: ys' => expr_eqb x y && go xs' ys'
       | _, _ => false
       end) a1 a2
  | EArray a1 _, EArray a2 _ =>
    (fix go (xs ys : list expr) {struct xs} : bool :=
       match xs, ys with
       | [], [] => true
       | x :: xs', y :: ys' => expr_eqb x y && go xs' ys'
       | _, _ => false
       end) a1 a2
  | EUpdate v1 a1 r1 _, EUpdate v2 a2 r2 _ =>
    vname_eqb v1 v2 &&
    (fix goa (xs ys : list (access expr)) {struct xs} : bool :=
       match xs, ys with
       | [], [] => true
       | AIdx x :: xs', AIdx y :: ys' => expr_eqb x y && goa xs' ys'
       | AComp n :: xs', AComp m :: ys' => ident_eqb n m && goa xs' ys'
       | _, _ => false
       end) a1 a2 && expr_eqb r1 r2
  | EAccess v1 a1 _, EAccess v2 a2 _ =>
    vname_eqb v1 v2 &&
    (fix goa (xs ys : list (access expr)) {struct xs} : bool :=
       match xs, ys with
       | [], [] => true
       | AIdx x :: xs', AIdx y :: ys' => expr_eqb x y && goa xs' ys'
       | AComp n :: xs', AComp m :: ys' => ident_eqb n m && goa xs' ys'
       | _, _ => false
       end) a1 a2
  | EPhi a1 _, EPhi a2 _ => vnames_eqb a1 a2
  | _, _ => false
  end.

(* #[derive(PartialEq)] for AccessType, and Vec<AccessType> *)
Definition access_eqb (a b : access expr) : bool :=
  match a, b with
  | AIdx x, AIdx y => expr_eqb x y
  | AComp n, AComp m => ident_eqb n m
  | _, _ => false
  end.

Fixpoint accs_eqb (a b : list (access expr)) : bool :=
  match a, b with
  | [], [] => true
  | x :: a', y :: b' => access_eqb x y && accs_eqb a' b'
  | _, _ => false
  end.

Definition drange_eqb (a b : drange) : bool :=
  degree_eqb (fst a) (fst b) && degree_eqb (snd a) (snd b).

(* ---------- Assignment / Constraint ---------- *)

(* struct Assignment { meta, signal, access, degree }, #[derive(Hash, PartialEq, Eq)] *)
Record assignment := {
  a_meta : meta; a_signal : vname; a_access : list (access expr); a_degree : option drange }.

Definition assignment_eqb (a b : assignment) : bool :=
  meta_eqb (a_meta a) (a_meta b) && vname_eqb (a_signal a) (a_signal b)
  && accs_eqb (a_access a) (a_access b) && opt_eqb drange_eqb (a_degree a) (a_degree b).

(* DegreeRange::is_quadratic: the upper bound is at most Quadratic *)
Definition range_quadratic (r : drange) : bool :=
  match snd r with DNonQuad => false | _ => true end.

(* Assignment::is_quadratic *)
Definition assignment_quadratic (a : assignment) : bool :=
  match a_degree a with Some r => range_quadratic r | None => false end.

(* What the pass can read from the cached variable knowledge of an expression
   or of the synthesised left-hand side of a constraint assignment. *)
Definition vuse := (vname * list (access expr))%type.

Record uses := { u_sigread : list vuse; u_compread : list vuse; u_compwritten : list vuse }.
Definition uses0 : uses := {| u_sigread := []; u_compread := []; u_compwritten := [] |}.
Definition uses_app (a b : uses) : uses :=
  {| u_sigread := u_sigread a ++ u_sigread b; u_compread := u_compread a ++ u_compread b;
     u_compwritten := u_compwritten a ++ u_compwritten b |}.

(* struct Constraint { meta, lhe, rhe }: `lhe` is kept as the uses its
   `signals_read()/components_read()/components_written()` answer, plus the
   expression Eq/Hash sees: for `===` the left expression, for `<==` the
   synthesised `Variable { meta, name: var }` (Eq compares the name only). *)
Inductive clhs := LExp (e : expr) | LVar (v : vname).

Record constraint := { c_meta : meta; c_lhs : clhs; c_lhs_uses : uses; c_rhe : expr }.

Definition clhs_eqb (a b : clhs) : bool :=
  match a, b with
  | LExp x, LExp y => expr_eqb x y
  | LVar v, LVar w => vname_eqb v w
  | LVar v, LExp (EVar w _) => vname_eqb v w
  | LExp (EVar v _), LVar w => vname_eqb v w
  | _, _ => false
  end.

Definition constraint_eqb (a b : constraint) : bool :=
  meta_eqb (c_meta a) (c_meta b) && clhs_eqb (c_lhs a) (c_lhs b) && expr_eqb (c_rhe a) (c_rhe b).

(* ---------- propagate_types + cache_variable_use, as read by the pass ---------- *)

Notation decls := (list (vname * vtype)).

(* Declarations::get_type: keyed by the name without its version *)
Fixpoint decl_type (ds : decls) (v : vname) : option vtype :=
  match ds with
  | [] => None
  | (w, t) :: ds' => if vname_eqb w (without_version v) then Some t else decl_type ds' v
  end.

Definition is_comp (t : vtype) : bool :=
  match t with TComponent | TAnonComponent => true | _ => false end.

(* one variable use classified by the declared type of the variable *)
Definition classify (ds : decls) (v : vname) (acc : list (access expr)) : uses :=
  match decl_type ds v with
  | Some t =>
    if is_signal t then {| u_sigread := [(v, acc)]; u_compread := []; u_compwritten := [] |}
    else if is_comp t then {| u_sigread := []; u_compread := [(v, acc)]; u_compwritten := [] |}
    else uses0
  | None => uses0
  end.

(* Expression::cache_variable_use restricted to signals_read / components_read
   (components_written of an expression is always the empty set). *)
Fixpoint expr_uses (ds : decls) (e : expr) {struct e} : uses :=
  match e with
  | ENum _ _ => uses0
  | EVar v _ => classify ds v []
  | EInfix _ l r _ => uses_app (expr_uses ds l) (expr_uses ds r)
  | EPrefix _ x _ => expr_uses ds x
  | ESwitch c t f _ => uses_app (expr_uses ds c) (uses_app (expr_uses ds t) (expr_uses ds f))
  | ECall _ args _ =>
    (fix go (xs : list expr) : uses :=
       match xs with [] => uses0 | x :: xs' => uses_app (expr_uses ds x) (go xs') end) args
  | EArray vs _ =>
    (fix go (xs : list expr) : uses :=
       match xs with [] => uses0 | x :: xs' => uses_app (expr_uses ds x) (go xs') end) vs
  | EAccess v acc _ =>
    uses_app
      ((fix goa (xs : list (access expr)) : uses :=
          match xs with
          | [] => uses0
          | AIdx x :: xs' => uses_app (expr_uses ds x) (goa xs')
          | AComp _ :: xs' => goa xs'
          end) acc)
      (classify ds v acc)
  | EUpdate v acc rhe _ =>
    uses_app (expr_uses ds rhe)
      (uses_app
         ((fix goa (xs : list (access expr)) : uses :=
             match xs with
             | [] => uses0
             | AIdx x :: xs' => uses_app (expr_uses ds x) (goa xs')
             | AComp _ :: xs' => goa xs'
             end) acc)
         (classify ds v []))
  | EPhi _ _ => uses0          (* phi arguments are local reads *)
  end.

(* visit_statement: `if let Update { access, .. } = rhe { access } else { [] }` *)
Definition subst_access (rhe : expr) : list (access expr) :=
  match rhe with EUpdate _ acc _ _ => acc | _ => [] end.

(* Statement::cache_variable_use for a Substitution, as seen through the
   synthesised `Variable { meta: <statement meta>, .. }` of a `<==`. *)
Definition subst_uses (ds : decls) (v : vname) (op : assign_op) (rhe : expr) (stype : option vtype) : uses :=
  let r := expr_uses ds rhe in
  let acc := subst_access rhe in
  match stype with
  | Some t =>
    if is_signal t then
      match op with
      | OpCSig => {| u_sigread := u_sigread r ++ [(v, acc)]; u_compread := u_compread r; u_compwritten := [] |}
      | _ => {| u_sigread := u_sigread r; u_compread := u_compread r; u_compwritten := [] |}
      end
    else if is_comp t then
      {| u_sigread := u_sigread r; u_compread := u_compread r; u_compwritten := [(v, acc)] |}
    else {| u_sigread := u_sigread r; u_compread := u_compread r; u_compwritten := [] |}
  | None => {| u_sigread := u_sigread r; u_compread := u_compread r; u_compwritten := [] |}
  end.

(* ---------- SignalUse ---------- *)

Record signal_use := { su_assignments : list assignment; su_constraints : list constraint }.
Definition signal_use0 : signal_use := {| su_assignments := []; su_constraints := [] |}.

(* HashSet::insert *)
Definition set_insert {A} (eqb : A -> A -> bool) (s : list A) (x : A) : list A :=
  if existsb (eqb x) s then s else s ++ [x].

Definition add_assignment (su : signal_use) (a : assignment) : signal_use :=
  {| su_assignments := set_insert assignment_eqb (su_assignments su) a;
     su_constraints := su_constraints su |}.

Definition add_constraint (su : signal_use) (c : constraint) : signal_use :=
  {| su_assignments := su_assignments su;
     su_constraints := set_insert constraint_eqb (su_constraints su) c |}.

(* visit_statement *)
Definition visit_statement (ds : decls) (su : signal_use) (s : stmt) : signal_use :=
  match s with
  | SSubst m v op rhe _ stype =>
    match op with
    | OpSig =>
      add_assignment su {| a_meta := m; a_signal := v; a_access := subst_access rhe; a_degree := expr_deg rhe |}
    | OpCSig =>
      add_constraint su {| c_meta := m; c_lhs := LVar v; c_lhs_uses := subst_uses ds v op rhe stype; c_rhe := rhe |}
    | OpVar => su
    end
  | SCeq m l r =>
    add_constraint su {| c_meta := m; c_lhs := LExp l; c_lhs_uses := expr_uses ds l; c_rhe := r |}
  | _ => su
  end.

Definition visit_block (ds : decls) (su : signal_use) (b : block) : signal_use :=
  fold_left (visit_statement ds) (b_stmts b) su.

Definition collect (g : cfg) : signal_use :=
  fold_left (visit_block (c_decls g)) (c_blocks g) signal_use0.

(* SignalUse::get_constraints (after 4f017e8 + amendment): the closure `mentions`,
   `used[..n] == access[..n]` with n the smaller of the two lengths: one access is a
   prefix of the other *)
Fixpoint accs_compat (a b : list (access expr)) : bool :=
  match a, b with
  | x :: a', y :: b' => access_eqb x y && accs_compat a' b'
  | _, _ => true
  end.

Definition use_matches (signal : vname) (acc : list (access expr)) (u : vuse) : bool :=
  vname_eqb (fst u) signal && accs_compat (snd u) acc.

(* the closure `any_read`: signals_read and components_read of an expression *)
Definition any_read (ds : decls) (signal : vname) (acc : list (access expr)) (e : expr) : bool :=
  let r := expr_uses ds e in
  existsb (use_matches signal acc) (u_sigread r ++ u_compread r).

(* the filter closure: a constraint whose right-hand side is an Update node
   (`var[target] <== rhe`) is matched through its target, rhe and the index
   expressions of the target - not through the whole-variable read of the
   Update node; any other constraint through the reads of both sides and the
   components written by the left-hand side *)
Definition constraint_mentions (ds : decls) (signal : vname) (acc : list (access expr)) (c : constraint) : bool :=
  match c_rhe c with
  | EUpdate var target rhe _ =>
    use_matches signal acc (var, target)
    || any_read ds signal acc rhe
    || existsb (fun a => match a with AIdx x => any_read ds signal acc x | AComp _ => false end) target
  | _ =>
    let l := c_lhs_uses c in
    existsb (use_matches signal acc) (u_sigread l ++ u_compread l)
    || any_read ds signal acc (c_rhe c)
    || existsb (use_matches signal acc) (u_compwritten l)
  end.

Definition get_constraint_metas (ds : decls) (su : signal_use) (signal : vname) (acc : list (access expr)) : list meta :=
  map c_meta (filter (constraint_mentions ds signal acc) (su_constraints su)).

(* ---------- reports ---------- *)

Inductive rcode := CS0005 | CS0013.

Definition label := (N * N * N)%type.      (* start, end, file id *)

(* `if let Some(file_id) = meta.file_id { report.add_primary/secondary(..) }` *)
Definition label_of (m : meta) : list label :=
  match m_file m with Some f => [(m_start m, m_end m, f)] | None => [] end.

Record report := { r_code : rcode; r_primary : list label; r_secondary : list label }.

Definition report_of (ds : decls) (su : signal_use) (a : assignment) : report :=
  if assignment_quadratic a then
    {| r_code := CS0013; r_primary := label_of (a_meta a); r_secondary := [] |}
  else
    {| r_code := CS0005; r_primary := label_of (a_meta a);
       r_secondary := flat_map label_of (get_constraint_metas ds su (a_signal a) (a_access a)) |}.

Definition is_template (k : defkind) : bool :=
  match k with KTemplate => true | _ => false end.

(* find_signal_assignments *)
Definition find_signal_assignments (g : cfg) : list report :=
  if is_template (c_kind g) then
    let su := collect g in
    map (report_of (c_decls g) su) (su_assignments su)
  else [].

(* ---------- the hypotheses observed by the harness ---------- *)

(* every statement of the cfg, in block order *)
Definition all_stmts (g : cfg) : list stmt := flat_map b_stmts (c_blocks g).

Definition assignment_of (s : stmt) : option assignment :=
  match s with
  | SSubst m v OpSig rhe _ _ =>
    Some {| a_meta := m; a_signal := v; a_access := subst_access rhe; a_degree := expr_deg rhe |}
  | _ => None
  end.

Definition constraint_of (ds : decls) (s : stmt) : option constraint :=
  match s with
  | SSubst m v OpCSig rhe _ stype =>
    Some {| c_meta := m; c_lhs := LVar v; c_lhs_uses := subst_uses ds v OpCSig rhe stype; c_rhe := rhe |}
  | SCeq m l r => Some {| c_meta := m; c_lhs := LExp l; c_lhs_uses := expr_uses ds l; c_rhe := r |}
  | _ => None
  end.

Fixpoint filter_map {A B} (f : A -> option B) (l : list A) : list B :=
  match l with
  | [] => []
  | x :: l' => match f x with Some y => y :: filter_map f l' | None => filter_map f l' end
  end.

Fixpoint pairwise_distinct {A} (eqb : A -> A -> bool) (l : list A) : bool :=
  match l with
  | [] => true
  | x :: l' => negb (existsb (eqb x) l') && negb (existsb (fun y => eqb y x) l') && pairwise_distinct eqb l'
  end.

(* no two `<--` statements compare equal as `Assignment`s *)
Definition keys_distinct_b (g : cfg) : bool :=
  pairwise_distinct assignment_eqb (filter_map assignment_of (all_stmts g)).

(* no two constraint statements compare equal as `Constraint`s *)
Definition constraint_keys_distinct_b (g : cfg) : bool :=
  pairwise_distinct constraint_eqb (filter_map (constraint_of (c_decls g)) (all_stmts g)).

(* ---------- the part of an Assignment key that is written in the source ---------- *)

(* the component names of an access path (`c[i].in` -> [in]); index expressions dropped *)
Fixpoint acc_ports (acc : list (access expr)) : list ident :=
  match acc with
  | [] => []
  | AComp n :: r => n :: acc_ports r
  | AIdx _ :: r => acc_ports r
  end.

Fixpoint idents_eqb (a b : list ident) : bool :=
  match a, b with
  | [], [] => true
  | x :: a', y :: b' => ident_eqb x y && idents_eqb a' b'
  | _, _ => false
  end.

(* (location, base name, component path): no SSA version, no generated suffix,
   no index expression, no degree claim *)
Definition subkey_eqb (a b : assignment) : bool :=
  meta_eqb (a_meta a) (a_meta b) && ident_eqb (vn_name (a_signal a)) (vn_name (a_signal b))
  && idents_eqb (acc_ports (a_access a)) (acc_ports (a_access b)).

Definition subkeys_distinct_b (g : cfg) : bool :=
  pairwise_distinct subkey_eqb (filter_map assignment_of (all_stmts g)).
