(* The hypotheses of the universal theorems about the SSA construction
   (Proofs.SsaConstruction): decidable syntactic conditions on the graph BEFORE the
   conversion and on the dominator-tree children table, evaluated by the check on
   every explored definition.  Definitions only. *)
From Coq Require Import ZArith NArith List Bool Arith.
Require Import Model.Base Model.Ir Model.SsaCheck Model.SsaErase Model.Ssa.
Import ListNotations.

(* the dominator tree in pre-order, as the renaming walks it *)
Fixpoint preorder (fuel : nat) (children : list (list N)) (cur : nat) : list nat :=
  match fuel with
  | O => []
  | S f => cur :: flat_map (fun k => preorder f children (N.to_nat k)) (nth cur children [])
  end.


(* a declaration of a local declares one variable (all listed names have the key of the first) *)
Definition decl_names_ok (s : stmt) : bool :=
  match s with
  | SDecl _ (name :: rest) TLocal _ => forallb (vname_sim name) rest
  | _ => true
  end.


Definition decls_ok (c : cfg) : bool := forallb (fun b => forallb decl_names_ok (b_stmts b)) (c_blocks c).

(* no phi expression anywhere *)
Fixpoint expr_nophi (e : expr) : bool :=
  let fix l_np (es : list expr) : bool :=
      match es with [] => true | x :: tl => expr_nophi x && l_np tl end in
  let fix a_np (acc : list (access expr)) : bool :=
      match acc with
      | [] => true
      | AComp _ :: tl => a_np tl
      | AIdx x :: tl => expr_nophi x && a_np tl
      end in
  match e with
  | ENum _ _ | EVar _ _ => true
  | EPhi _ _ => false
  | EInfix _ l r _ => expr_nophi l && expr_nophi r
  | EPrefix _ x _ => expr_nophi x
  | ESwitch c t f _ => expr_nophi c && expr_nophi t && expr_nophi f
  | ECall _ args _ => l_np args
  | EArray vs _ => l_np vs
  | EAccess _ acc _ => a_np acc
  | EUpdate _ acc rhe _ => a_np acc && expr_nophi rhe
  end.

Fixpoint list_nophi (es : list expr) : bool :=
  match es with [] => true | x :: tl => expr_nophi x && list_nophi tl end.
Fixpoint acc_nophi (acc : list (access expr)) : bool :=
  match acc with
  | [] => true
  | AComp _ :: tl => acc_nophi tl
  | AIdx x :: tl => expr_nophi x && acc_nophi tl
  end.


Definition logarg_nophi (a : logarg) : bool := match a with LStr => true | LExpr e => expr_nophi e end.

Definition stmt_nophi (s : stmt) : bool :=
  match s with
  | SDecl _ _ _ dims => list_nophi dims
  | SSubst _ _ _ rhe _ _ => expr_nophi rhe
  | SCeq _ l r => expr_nophi l && expr_nophi r
  | SLog _ args => forallb logarg_nophi args
  | SIf _ c _ _ => expr_nophi c
  | SRet _ e => expr_nophi e
  | SAssert _ e => expr_nophi e
  end.

(* no phi expression anywhere in the graph (IR lifting never builds one) *)
Definition phi_free (c : cfg) : bool := forallb (fun b => forallb stmt_nophi (b_stmts b)) (c_blocks c).


(* the children table reaches every block *)
Definition children_coverb (children : list (list N)) (n : nat) : bool :=
  forallb (fun i => existsb (Nat.eqb i) (preorder (S n) children 0)) (seq 0 n).


(* the graph before SSA conversion: no phi expression, one variable per local declaration,
   parameters declared as locals *)
Definition pre_ssa_ok (c : cfg) : bool :=
  phi_free c && decls_ok c && forallb (is_local_in (c_decls c)) (c_params c).

