(* The hypotheses of the universal theorems about the SSA construction
   (Proofs.SsaConstruction): decidable syntactic conditions on the graph BEFORE the
   conversion and on the dominator-tree children table, evaluated by the check on
   every explored definition.  Definitions only. *)
From Coq Require Import ZArith NArith List Bool Arith.
Require Import Model.Base Model.Ir Model.SsaCheck Model.SsaErase Model.Ssa.
Import ListNotations.

(* the dominator tree in pre-order, as the renaming walks it *)
Fixpoint preorder (fuel : nat) (children : list (list N)) (cur : nat) : list nat :=
  match fuel with
  | O => []
  | S f => cur :: flat_map (fun k => preorder f children (N.to_nat k)) (nth cur children [])
  end.


(* a declaration of a local declares one variable (all listed names have the key of the first) *)
Definition decl_names_ok (s : stmt) : bool :=
  match s with
  | SDecl _ (name :: rest) TLocal _ => forallb (vname_sim name) rest
  | _ => true
  end.


Definition decls_ok (c : cfg) : bool := forallb (fun b => forallb decl_names_ok (b_stmts b)) (c_blocks c).

(* no phi expression anywhere *)
Fixpoint expr_nophi (e : expr) : bool :=
  let fix l_np (es : list expr) : bool :=
      match es with [] => true | x :: tl => expr_nophi x && l_np tl end in
  let fix a_np (acc : list (access expr)) : bool :=
      match acc with
      | [] => true
      | AComp _ :: tl => a_np tl
      | AIdx x :: tl => expr_nophi x && a_np tl
      end in
  match e with
  | ENum _ _ | EVar _ _ => true
  | EPhi _ _ => false
  | EInfix _ l r _ => expr_nophi l && expr_nophi r
  | EPrefix _ x _ => expr_nophi x
  | ESwitch c t f _ => expr_nophi c && expr_nophi t && expr_nophi f
  | ECall _ args _ => l_np args
  | EArray vs _ => l_np vs
  | EAccess _ acc _ => a_np acc
  | EUpdate _ acc rhe _ => a_np acc && expr_nophi rhe
  end.

Fixpoint list_nophi (es : list expr) : bool :=
  match es with [] => true | x :: tl => expr_nophi x && list_nophi tl end.
Fixpoint acc_nophi (acc : list (access expr)) : bool :=
  match acc with
  | [] => true
  | AComp _ :: tl => acc_nophi tl
  | AIdx x :: tl => expr_nophi x && acc_nophi tl
  end.


Definition logarg_nophi (a : logarg) : bool := match a with LStr => true | LExpr e => expr_nophi e end.

Definition stmt_nophi (s : stmt) : bool :=
  match s with
  | SDecl _ _ _ dims => list_nophi dims
  | SSubst _ _ _ rhe _ _ => expr_nophi rhe
  | SCeq _ l r => expr_nophi l && expr_nophi r
  | SLog _ args => forallb logarg_nophi args
  | SIf _ c _ _ => expr_nophi c
  | SRet _ e => expr_nophi e
  | SAssert _ e => expr_nophi e
  end.

(* no phi expression anywhere in the graph (IR lifting never builds one) *)
Definition phi_free (c : cfg) : bool := forallb (fun b => forallb stmt_nophi (b_stmts b)) (c_blocks c).


(* the children table reaches every block *)
Definition children_coverb (children : list (list N)) (n : nat) : bool :=
  forallb (fun i => existsb (Nat.eqb i) (preorder (S n) children 0)) (seq 0 n).


(* the graph before SSA conversion: no phi expression, one variable per local declaration,
   parameters declared as locals *)
Definition pre_ssa_ok (c : cfg) : bool :=
  phi_free c && decls_ok c && forallb (is_local_in (c_decls c)) (c_params c).


(* ------------------------------------------------------------------------ *)
(* Hypotheses of the dynamic theorem about the construction                  *)
(* (Proofs.SsaDominance.into_ssa_paths_ok): decidable conditions on the      *)
(* graph BEFORE the conversion and on the children table.                    *)
(* ------------------------------------------------------------------------ *)
Definition isnoneb {A} (o : option A) : bool := match o with None => true | Some _ => false end.

(* no variable occurrence that the renaming visits carries a version yet *)
Fixpoint expr_unvb (e : expr) : bool :=
  let fix l_unv (es : list expr) : bool :=
      match es with [] => true | x :: tl => expr_unvb x && l_unv tl end in
  let fix a_unv (acc : list (access expr)) : bool :=
      match acc with
      | [] => true
      | AComp _ :: tl => a_unv tl
      | AIdx x :: tl => expr_unvb x && a_unv tl
      end in
  match e with
  | ENum _ _ | EPhi _ _ => true
  | EVar v _ => isnoneb (vn_version v)
  | EInfix _ l r _ => expr_unvb l && expr_unvb r
  | EPrefix _ x _ => expr_unvb x
  | ESwitch c t f _ => expr_unvb c && expr_unvb t && expr_unvb f
  | ECall _ args _ => l_unv args
  | EArray vs _ => l_unv vs
  | EAccess v acc _ => isnoneb (vn_version v) && a_unv acc
  | EUpdate v acc rhe _ => isnoneb (vn_version v) && a_unv acc && expr_unvb rhe
  end.
Fixpoint list_unvb (es : list expr) : bool :=
  match es with [] => true | x :: tl => expr_unvb x && list_unvb tl end.
Fixpoint acc_unvb (acc : list (access expr)) : bool :=
  match acc with
  | [] => true
  | AComp _ :: tl => acc_unvb tl
  | AIdx x :: tl => expr_unvb x && acc_unvb tl
  end.
Definition logarg_unvb (a : logarg) : bool := match a with LStr => true | LExpr e => expr_unvb e end.
Definition stmt_unvb (s : stmt) : bool :=
  match s with
  | SDecl _ _ _ dims => list_unvb dims
  | SSubst _ v _ rhe _ _ => isnoneb (vn_version v) && expr_unvb rhe
  | SCeq _ l r => expr_unvb l && expr_unvb r
  | SLog _ args => forallb logarg_unvb args
  | SIf _ c _ _ => expr_unvb c
  | SRet _ e => expr_unvb e
  | SAssert _ e => expr_unvb e
  end.

(* no element-wise update expression inside *)
Fixpoint expr_noupd (e : expr) : bool :=
  let fix l_nu (es : list expr) : bool :=
      match es with [] => true | x :: tl => expr_noupd x && l_nu tl end in
  let fix a_nu (acc : list (access expr)) : bool :=
      match acc with
      | [] => true
      | AComp _ :: tl => a_nu tl
      | AIdx x :: tl => expr_noupd x && a_nu tl
      end in
  match e with
  | ENum _ _ | EVar _ _ | EPhi _ _ => true
  | EUpdate _ _ _ _ => false
  | EInfix _ l r _ => expr_noupd l && expr_noupd r
  | EPrefix _ x _ => expr_noupd x
  | ESwitch c t f _ => expr_noupd c && expr_noupd t && expr_noupd f
  | ECall _ args _ => l_nu args
  | EArray vs _ => l_nu vs
  | EAccess _ acc _ => a_nu acc
  end.
Fixpoint list_noupd (es : list expr) : bool :=
  match es with [] => true | x :: tl => expr_noupd x && list_noupd tl end.
Fixpoint acc_noupd (acc : list (access expr)) : bool :=
  match acc with
  | [] => true
  | AComp _ :: tl => acc_noupd tl
  | AIdx x :: tl => expr_noupd x && acc_noupd tl
  end.
Definition logarg_noupd (a : logarg) : bool := match a with LStr => true | LExpr e => expr_noupd e end.

(* an element-wise update  x[i] = e  is lifted to  x = update(x, [i], e) : update
   expressions stand only at the top of the right-hand side of an assignment to
   the same variable *)
Definition stmt_upd_ok (s : stmt) : bool :=
  match s with
  | SSubst _ x _ (EUpdate v acc rhe _) _ _ => key_eqb (key_of x) (key_of v) && acc_noupd acc && expr_noupd rhe
  | SSubst _ _ _ rhe _ _ => expr_noupd rhe
  | SDecl _ _ _ dims => list_noupd dims
  | SCeq _ l r => expr_noupd l && expr_noupd r
  | SLog _ args => forallb logarg_noupd args
  | SIf _ c _ _ => expr_noupd c
  | SRet _ e => expr_noupd e
  | SAssert _ e => expr_noupd e
  end.

(* the type tag of an assignment says Local exactly when the declarations say so
   (phi insertion reads the tag, renaming reads the declarations) *)
Definition stmt_tag_ok (decls : list (vname * vtype)) (s : stmt) : bool :=
  match s with
  | SSubst _ x _ _ _ st => Bool.eqb (is_local_in decls x) (match st with Some TLocal => true | _ => false end)
  | _ => true
  end.

Fixpoint keys_nodup (l : list key) : bool :=
  match l with [] => true | k :: tl => negb (existsb (key_eqb k) tl) && keys_nodup tl end.
Fixpoint nats_nodup (l : list nat) : bool :=
  match l with [] => true | k :: tl => negb (existsb (Nat.eqb k) tl) && nats_nodup tl end.

(* every successor is a block of the graph and is not the entry block *)
Definition succs_ok (c : cfg) : bool :=
  let n := length (c_blocks c) in
  forallb (fun b => forallb (fun s => (N.to_nat s <? n)%nat && negb (N.eqb s 0)) (b_succs b)) (c_blocks c).

Definition ssa_dyn_pre_ok (c : cfg) : bool :=
  pre_ssa_ok c &&
  (0 <? length (c_blocks c))%nat &&
  forallb (fun b => forallb stmt_unvb (b_stmts b)) (c_blocks c) &&
  forallb (fun b => forallb stmt_upd_ok (b_stmts b)) (c_blocks c) &&
  forallb (fun b => forallb (stmt_tag_ok (c_decls c)) (b_stmts b)) (c_blocks c) &&
  keys_nodup (map key_of (c_params c)) &&
  succs_ok c.

(* the children table describes a tree below block 0 that holds every block once *)
Definition children_treeb (children : list (list N)) (n : nat) : bool :=
  let po := preorder (S n) children 0 in
  nats_nodup po && forallb (fun i => (i <? n)%nat) po && children_coverb children n.
