(* The joint between Model.Includes (parse_files: which files are read, which
   are user inputs) and Model.Runner (main: which reports are displayed).
   Definitions only.

   Mirror of `FileLibrary::add_file`
   (/repo/program_structure/src/program_library/file_definition.rs):

       let file_id = self.get_mut_files().add(file_name, file_source);
       if is_user_input { self.user_inputs.insert(file_id); }

   `SimpleFiles::add` numbers the files 0, 1, 2, ... in the order of the calls,
   and `parse_file` (parser/src/lib.rs) is the only caller outside tests, so
   entry i of [ps_files] is file id i and `FileLibrary.user_inputs` is the set
   of positions whose flag is true.  That set is what `main` hands to
   `filter_by_file` (cli/src/main.rs: `runner.file_library().user_inputs()`),
   i.e. the [p_user] field of a Model.Runner project.  The `HashSet<FileID>`
   is a list used through membership only (Runner.zmem). *)
From Coq Require Import ZArith List.
Import ListNotations.

Section FileLibrary.
  Context {path : Type}.

  Fixpoint user_ids_from (n : nat) (files : list (path * bool)) : list Z :=
    match files with
    | [] => []
    | (_, u) :: rest => (if u then [Z.of_nat n] else []) ++ user_ids_from (S n) rest
    end.

  (* FileLibrary::user_inputs() after the calls add_file(f_0, _, u_0), add_file(f_1, _, u_1), ... *)
  Definition file_library_user_inputs (files : list (path * bool)) : list Z :=
    user_ids_from 0 files.
End FileLibrary.
