(* RunnerLib — executable mirror of how the name maps of the runner are built
   from the parsed files, AFTER the repair of defect D22 (/repo f1ec9dc):

     program_structure/src/program_library/template_library.rs  TemplateLibrary::new
     program_structure/src/program_library/program_archive.rs   ProgramArchive::new
     program_structure/src/program_library/program_merger.rs    Merger::add_definitions
     parser/src/lib.rs                                          duplicate_definitions

   parse_files hands over `definitions : HashMap<FileID, Vec<Definition>>`.  An
   [entry] is one (key, value) pair of that map; a list of entries is the map
   in the order in which it happens to be iterated (hash order: the explicit
   parameter).  All three consumers first collect the entries and sort them by
   FileID, then walk the definitions of each file in source order:

     let mut v: Vec<_> = library_contents.into_iter().collect();
     v.sort_unstable_by_key(|(file_id, _)| *file_id);
     for (file_id, file_contents) in v { for definition in file_contents {
         let name = definition.name();
         if functions.contains_key(&name) || templates.contains_key(&name) { continue; }
         .. insert ..

   The keys of a map are distinct, so the (unstable) sort has exactly one
   result; it is mirrored by insertion sort.  A name is taken no matter whether
   a function or a template took it.  Definitions only (no proofs). *)
From Coq Require Import ZArith List Bool.
Require Import Model.Base Model.Runner.
Import ListNotations.
Local Open Scope Z_scope.

Definition entry : Type := (Z * list def)%type.     (* FileID, the definitions of the file in source order *)

Fixpoint insert_entry (e : entry) (l : list entry) : list entry :=
  match l with
  | [] => [e]
  | e' :: l' => if fst e <=? fst e' then e :: e' :: l' else e' :: insert_entry e l'
  end.
Definition sort_entries (l : list entry) : list entry := fold_right insert_entry [] l.

(* the definitions in the order in which the three loops meet them *)
Definition definitions_in_file_order (es : list entry) : list def := flat_map snd (sort_entries es).

Definition first_named (n : Z) (m : list def) : option def := find (fun d => d_name d =? n) m.
Definition name_used (n : Z) (m : list def) : bool :=
  match first_named n m with Some _ => true | None => false end.

(* one iteration of TemplateLibrary::new: `continue` when the name is taken *)
Definition lib_add (m : list def) (d : def) : list def :=
  if name_used (d_name d) m then m else m ++ [d].

(* template_asts + function_asts *)
Definition library_of (es : list entry) : list def := fold_left lib_add (definitions_in_file_order es) [].

(* Merger::add_definitions over the files in the same order: the definitions
   reported as "already used" (SameNameDeclaration), each with the definition
   that registered the name first (the second primary label) *)
Definition dup_step (acc : list def * list (def * def)) (d : def) : list def * list (def * def) :=
  match first_named (d_name d) (fst acc) with
  | Some f => (fst acc, snd acc ++ [(d, f)])
  | None => (fst acc ++ [d], snd acc)
  end.
Definition duplicates_of (es : list entry) : list (def * def) :=
  snd (fold_left dup_step (definitions_in_file_order es) ([], [])).
