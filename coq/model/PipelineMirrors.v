(* C01: the pipeline assembled from the ACTUAL mirrors of the other properties

     Model.Includes.parse_files            (C19: file stack, include resolution)
       -> [parse]                          the LALRPOP parser: NOT mirrored, a parameter (the ONLY
                                           stage parameter of the chain)
       -> Model.Desugar.desugar_template   (C18) per template / check_function per function
       -> Model.LiftFull.lift_to_ir        the content-carrying lifting mirror: ensure_unique_variables
                                           (unique_vars.rs), try_lift_impl / build_basic_blocks
                                           (control_flow_graph/lifting.rs), every TryLift impl
                                           (intermediate_representation/lifting.rs), declarations.rs,
                                           propagate_types; then the erasure onto Model.Ir
       -> Model.Dom.dominator_tree         (C15) on the predecessor / successor lists of that graph
       -> Model.Ssa.into_ssa               (C14's construction mirror)
       -> Model.Propagate.propagate        (C20/C06/C07: value and degree propagation)

   From the desugared syntax tree onwards no stage is a parameter.  (Until the
   second audit the IR lifting of a leaf was three parameters ir_stmt / ir_cond /
   ir_head returning `option`, glued to the skeleton mirror Model.Lift by an adapter:
   a panic of unique_vars.rs or of the catch-all arms of the TryLift impls could not
   be expressed.  Model.LiftFull has these panic sites.)

   The analysis passes and the report output come after propagation and are not part
   of this chain (the pass mirrors of C08/C09/C11 take the same Model.Ir.cfg; they are
   simply not composed here).  Definitions only; the theorems are in
   Proofs.PipelineMirrorsProofs.  [analyse_body], [body_ok] and the hypothesis
   predicates are extracted (coq/extract/chain.v) and run on every definition the
   real parser + desugarer produce for the inputs of C01's engine.

   The other developments are referred to by qualified name: their notations
   (std++ / Base bind / Desugar bind) cannot be imported side by side. *)
From Coq Require Import ZArith NArith List Bool String.
Require Model.Base Model.Ast Model.Desugar Model.Lift Model.LiftFull Model.Dom Model.Ir Model.Ssa Model.Propagate
        Model.Justify Model.Includes.
Import ListNotations.

(* ------------------------------------------------------------------------ *)
(* decidable predicates on the syntax tree                                   *)
(* ------------------------------------------------------------------------ *)
(* what the parser guarantees about initialisation blocks, as a boolean: their
   entries are declarations and (multi-)substitutions.  [ast_flat] admits every
   statement without control flow, [ast_init_ok] asks every initialisation block
   to hold such entries only.  (The same functions as LiftFull.ast_flat /
   LiftFull.ast_init_flat: Proofs.MirrorsShape.ast_init_ok_flat.) *)
Fixpoint ast_flat (s : Ast.statement) : bool :=
  match s with
  | Ast.IfThenElse _ _ _ _ | Ast.While _ _ _ => false
  | Ast.InitializationBlock _ _ l => forallb ast_flat l
  | Ast.Block _ l => forallb ast_flat l
  | _ => true
  end.

Fixpoint ast_init_ok (s : Ast.statement) : bool :=
  match s with
  | Ast.IfThenElse _ _ t e => ast_init_ok t && match e with Some e => ast_init_ok e | None => true end
  | Ast.While _ _ b => ast_init_ok b
  | Ast.InitializationBlock _ _ l => forallb ast_flat l
  | Ast.Block _ l => forallb ast_init_ok l
  | _ => true
  end.

(* every number literal of an expression that lifting lifts is non-negative (the
   DECNUMBER / HEXNUMBER actions build nothing else: C01_decnumber_action_total,
   C01_hexnumber_action_total; the desugarer adds literals 0 and 1).  This is the
   `literals non-negative` clause of Model.Clean.clean_cfg, the first hypothesis
   of C20_propagate_completes.  Tuples and anonymous components are never lifted
   (site 1193) and are not looked into. *)
Fixpoint expr_lits_ok (e : Ast.expression) {struct e} : bool :=
  let acc_ok (a : Ast.access_of Ast.expression) :=
    match a with Ast.ArrayAccess i => expr_lits_ok i | Ast.ComponentAccess _ => true end in
  match e with
  | Ast.InfixOp _ l _ r => expr_lits_ok l && expr_lits_ok r
  | Ast.PrefixOp _ _ r => expr_lits_ok r
  | Ast.InlineSwitchOp _ c t f => expr_lits_ok c && expr_lits_ok t && expr_lits_ok f
  | Ast.ParallelOp _ r => expr_lits_ok r
  | Ast.Variable_ _ _ acc => forallb acc_ok acc
  | Ast.Number _ v => (0 <=? v)%Z
  | Ast.Call _ _ args => forallb expr_lits_ok args
  | Ast.ArrayInLine _ vs => forallb expr_lits_ok vs
  | Ast.Tuple _ _ | Ast.AnonymousComponent _ _ _ _ _ _ => true
  end.

Definition access_lits_ok (a : Ast.access_of Ast.expression) : bool :=
  match a with Ast.ArrayAccess i => expr_lits_ok i | Ast.ComponentAccess _ => true end.

Definition logarg_lits_ok (a : Ast.log_argument) : bool :=
  match a with Ast.LogExp e => expr_lits_ok e | Ast.LogStr _ => true end.

Fixpoint stmt_lits_ok (s : Ast.statement) {struct s} : bool :=
  match s with
  | Ast.IfThenElse _ c t e =>
      expr_lits_ok c && stmt_lits_ok t && match e with Some e => stmt_lits_ok e | None => true end
  | Ast.While _ c b => expr_lits_ok c && stmt_lits_ok b
  | Ast.Return _ v => expr_lits_ok v
  | Ast.InitializationBlock _ _ ss => forallb stmt_lits_ok ss
  | Ast.Declaration _ _ _ dims _ => forallb expr_lits_ok dims
  | Ast.Substitution _ _ acc _ rhe => forallb access_lits_ok acc && expr_lits_ok rhe
  | Ast.MultiSubstitution _ _ _ _ => true
  | Ast.ConstraintEquality _ l r => expr_lits_ok l && expr_lits_ok r
  | Ast.LogCall _ args => forallb logarg_lits_ok args
  | Ast.Block _ ss => forallb stmt_lits_ok ss
  | Ast.Assert _ a => expr_lits_ok a
  end.

(* the last clause of LiftFull.definition_wf on its own: the keys handed to
   Declarations::add_declaration -- the parameters and the declared names AFTER the
   renaming pass -- are pairwise different (site 2017 of declarations.rs).  Evaluated,
   by running the renaming mirror; not derived from C10's theorem about its own mirror
   of the renaming pass. *)
Definition names_distinct (params : list string) (pfile : option N) (ploc : LiftFull.floc) (body : Ast.statement) : bool :=
  match LiftFull.ensure_unique_variables params pfile ploc body with
  | Base.Ok u => LiftFull.nodup_names (map LiftFull.vname_plain params
                                         ++ LiftFull.names_of_lifted (LiftFull.declared_names (fst u)))
  | _ => true
  end.

(* ------------------------------------------------------------------------ *)
(* outcomes                                                                  *)
(* ------------------------------------------------------------------------ *)
Definition stage_desugar : Z := 1%Z.
Definition stage_lift : Z := 3%Z.        (* renaming + lifting + IR lifting: Model.LiftFull *)
Definition stage_dom : Z := 5%Z.
Definition stage_ssa : Z := 6%Z.
Definition stage_propagate : Z := 7%Z.

Inductive def_result :=
| DROk (c : Ir.cfg)                    (* the definition reached the analysis passes *)
| DRReport (stage : Z)                 (* the stage answered with an error report *)
| DRPanic (stage : Z) (site : Z)
| DRFuel (stage : Z).

(* a definition as the parser hands it on: TemplateData / FunctionData *)
Record definition := Def {
  d_name : string;
  d_kind : Ir.defkind;                 (* template / custom template / function *)
  d_params : list string;              (* parameter names *)
  d_pfile : option N;                  (* file id ... *)
  d_ploc : LiftFull.floc;              (* ... and location of the parameter list *)
  d_body : Ast.statement }.

Section Chain.
  (* ---- hash orders ---- *)
  Variable ord : nat -> list nat -> list nat.      (* `for j in &idom_candidates`, Model.Dom *)
  Variable horder : list nat -> list nat.          (* iteration over a dominance frontier / a children set *)
  (* ---- configuration ---- *)
  Variable p : Z.                                  (* the prime of the curve *)
  Variable kv kd : nat.                            (* pass budgets (the 10 s time boxes) *)

  (* DominatorTree::new(&self.basic_blocks) reads the predecessor and successor sets *)
  Definition dom_of_ir (c : Ir.cfg) : list Dom.node :=
    map (fun b => Dom.Node (map N.to_nat (Ir.b_preds b)) (map N.to_nat (Ir.b_succs b))) (Ir.c_blocks c).

  Definition sets_of (masks : list N) : list (list N) :=
    map (fun m => map N.of_nat (horder (Dom.members m))) masks.

  (* the immediate-dominator table of the tree, as propagation reads it (block index -> idom) *)
  Definition idom_table (t : Dom.dom_tree) : list (option N) :=
    map (fun o => match o with Some j => Some (N.of_nat j) | None => None end) (Dom.dt_idom t).

  (* the graph handed to propagation, when the chain gets that far, with the
     immediate-dominator table of its dominator tree *)
  Definition ssa_of (c : Ir.cfg) : Base.outcome (list (option N) * Ssa.ssa_result Ir.cfg) :=
    let g := dom_of_ir c in
    Base.bind (Dom.dominator_tree (Dom.dom_fuel g) ord g)
              (fun t => Base.Ok (idom_table t,
                                 Ssa.into_ssa (sets_of (Dom.dt_frontier t)) (sets_of (Dom.dt_children t)) c)).

  Definition analyse_cfg (c : Ir.cfg) : def_result :=
    match ssa_of c with
    | Base.Ok (idom, Ssa.SOk c1) =>
        match Propagate.propagate kv kd p idom c1 with
        | Base.Ok c2 => DROk c2
        | Base.Err _ => DRReport stage_propagate
        | Base.Panic s => DRPanic stage_propagate s
        | Base.OutOfFuel => DRFuel stage_propagate
        end
    | Base.Ok (_, Ssa.SErrUndefined) => DRReport stage_ssa        (* variable used before it is defined *)
    | Base.Ok (_, Ssa.SPanic) => DRPanic stage_ssa 0
    | Base.Ok (_, Ssa.SFuel) => DRFuel stage_ssa
    | Base.Err _ => DRReport stage_dom
    | Base.Panic s => DRPanic stage_dom s
    | Base.OutOfFuel => DRFuel stage_dom
    end.

  (* a desugared body: renaming, lifting, IR lifting (the mirror of try_lift_impl),
     then the rest of the chain.  An Err of the mirror is one of the two error reports
     of lifting (InvalidVariableNameError, ParameterNameCollisionError). *)
  Definition analyse_body (d : definition) (body : Ast.statement) : def_result :=
    match LiftFull.lift_to_ir (d_kind d) (d_params d) (d_pfile d) (d_ploc d) body with
    | Base.Ok c => analyse_cfg c
    | Base.Err _ => DRReport stage_lift
    | Base.Panic s => DRPanic stage_lift s
    | Base.OutOfFuel => DRFuel stage_lift
    end.

  (* what remains a hypothesis about a body handed to lifting, both decidable and
     evaluated by the driver on every explored definition:
       names_distinct   see above;
       stmt_lits_ok     see above.
     (Until the second audit there was a third clause, [ssa_output_ok]: the graph the SSA
     construction returns has one defining assignment per local -- the second hypothesis
     of C20_propagate_completes, assumed of the mirror's own output.  It is now DERIVED
     from C14's construction theorems, Proofs.SsaLocalDefs.into_ssa_ldefs_unique and
     C01_chain_ssa_output_unique_local_defs; the function stays here because the driver
     still evaluates it, as a cross-check of that theorem.) *)
  Definition ssa_output_ok (d : definition) (body : Ast.statement) : bool :=
    match LiftFull.lift_to_ir (d_kind d) (d_params d) (d_pfile d) (d_ploc d) body with
    | Base.Ok c =>
        match ssa_of c with
        | Base.Ok (_, Ssa.SOk c1) => Justify.ldefs_unique (Justify.all_stmts (Ir.c_blocks c1))
        | _ => true
        end
    | _ => true
    end.

  Definition body_ok (d : definition) (body : Ast.statement) : bool :=
    names_distinct (d_params d) (d_pfile d) (d_ploc d) body && stmt_lits_ok body.

  Definition analyse_template (env : list (string * Desugar.template_info)) (lib : list (list N))
             (t : definition) : def_result :=
    match Desugar.desugar_template env lib (d_body t) with
    | Desugar.DOk body => analyse_body t body
    | Desugar.DErr _ => DRReport stage_desugar
    | Desugar.DPanic s => DRPanic stage_desugar s
    | Desugar.DOutOfFuel => DRFuel stage_desugar
    end.

  Definition analyse_function (f : definition) : def_result :=
    match Desugar.check_function (d_body f) with
    | Desugar.DOk None => analyse_body f (d_body f)
    | Desugar.DOk (Some _) => DRReport stage_desugar
    | Desugar.DErr _ => DRReport stage_desugar
    | Desugar.DPanic s => DRPanic stage_desugar s
    | Desugar.DOutOfFuel => DRFuel stage_desugar
    end.

  Record program := Program {
    pr_lib : list (list N);                          (* FileLibrary: per file id the line starts *)
    pr_templates : list definition;
    pr_functions : list definition }.

  Definition named_bodies (l : list definition) : list (string * Ast.statement) :=
    map (fun d => (d_name d, d_body d)) l.

  Definition analyse_program (pr : program) : list def_result :=
    map (analyse_template (Desugar.env_of (named_bodies (pr_templates pr))) (pr_lib pr)) (pr_templates pr) ++
    map analyse_function (pr_functions pr).

  (* ---- the file stage in front ---- *)
  Section Files.
    Context {path : Type} `{EqDecision0 : stdpp.base.EqDecision path}.
    Variables (canon : path -> option path) (is_dir is_file : path -> bool)
              (read_dir : path -> option (list path)) (join : path -> path -> path)
              (parent : path -> path) (file_name : path -> option path)
              (ext_circom starts_dot has_sep : path -> bool)
              (content : path -> Includes.file_content path).
    (* the parser applied to the files that were read: not mirrored *)
    Variable parse : @Includes.parse_state path -> program.

    Definition run_pipeline_mirrors (d23 : bool) (dfuel fuel : nat) (paths libs : list path)
      : Base.outcome (list def_result) :=
      Base.bind (Includes.parse_files canon is_dir is_file read_dir join parent file_name ext_circom
                                      starts_dot has_sep content d23 dfuel fuel paths libs)
                (fun st => Base.Ok (analyse_program (parse st))).
  End Files.
End Chain.
