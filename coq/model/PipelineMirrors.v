(* C01: the pipeline assembled from the ACTUAL mirrors of the other properties

     Model.Includes.parse_files            (C19: file stack, include resolution)
       -> [parse]                          the LALRPOP parser: NOT mirrored, a parameter
       -> Model.Desugar.desugar_template   (C18) per template / check_function per function
       -> [skel], [table]                  adapter 1: syntax tree -> statement skeleton
       -> Model.Lift.lift                  (C12: control_flow_graph/lifting.rs)
       -> [ir_stmt], [ir_cond], [ir_head]  IR lifting of a simple statement / a condition /
                                           the declarations: NOT mirrored, parameters
       -> [ir_of_lift]                     adapter 2: skeleton graph + lifted leaves -> Model.Ir.cfg
       -> Model.Dom.dominator_tree         (C15) on the predecessor / successor lists of that graph
       -> Model.Ssa.into_ssa               (C14's construction mirror)
       -> Model.Propagate.propagate        (C20/C06/C07: value and degree propagation)

   The analysis passes and the report output come after propagation and are not part
   of this chain (no adapter from Model.Ir.cfg to the inputs of the pass mirrors of
   C08/C09/C11 is needed: they take the same Model.Ir.cfg; they are simply not
   composed here).  Definitions only; the theorems are in Proofs.PipelineMirrorsProofs.

   The other developments are referred to by qualified name: their notations
   (std++ / Base bind / Desugar bind) cannot be imported side by side. *)
From Coq Require Import ZArith NArith List Bool String.
Require Model.Base Model.Ast Model.Desugar Model.Lift Model.Dom Model.Ir Model.Ssa Model.Propagate Model.Includes.
Import ListNotations.

(* ------------------------------------------------------------------------ *)
(* adapter 1: syntax tree -> skeleton                                        *)
(* ------------------------------------------------------------------------ *)
(* A leaf statement and a condition are numbered in source order (pre-order);
   [table] lists them in the same order, so the number is the position.  The
   `for` loop and the compound assignments are gone when the desugarer runs (the
   grammar actions build while loops and plain substitutions, Model.Lift.desugar). *)

Inductive node :=
| NStmt (s : Ast.statement)                       (* a statement without sub-statements *)
| NCond (m : Ast.meta) (c : Ast.expression).      (* the condition of the if / while statement with meta m *)

Definition is_return (s : Ast.statement) : bool :=
  match s with Ast.Return _ _ => true | _ => false end.

Fixpoint size (s : Ast.statement) : nat :=
  match s with
  | Ast.IfThenElse _ _ t e => S (size t + match e with Some e => size e | None => 0 end)
  | Ast.While _ _ b => S (size b)
  | Ast.InitializationBlock _ _ l => list_sum (map size l)
  | Ast.Block _ l => list_sum (map size l)
  | _ => 1
  end.

Fixpoint table (s : Ast.statement) : list node :=
  match s with
  | Ast.IfThenElse m c t e => NCond m c :: table t ++ match e with Some e => table e | None => [] end
  | Ast.While m c b => NCond m c :: table b
  | Ast.InitializationBlock _ _ l => flat_map table l
  | Ast.Block _ l => flat_map table l
  | _ => [NStmt s]
  end.

Fixpoint skel (s : Ast.statement) (n : nat) {struct s} : Lift.sk :=
  let fix go (l : list Ast.statement) (n : nat) {struct l} : list Lift.sk :=
      match l with
      | [] => []
      | x :: r => skel x n :: go r (n + size x)
      end in
  match s with
  | Ast.IfThenElse _ _ t e =>
      Lift.SIf n (skel t (S n)) (match e with Some e => Some (skel e (S n + size t)) | None => None end)
  | Ast.While _ _ b => Lift.SWhile n (skel b (S n))
  | Ast.InitializationBlock _ _ l => Lift.SInit (go l n)
  | Ast.Block _ l => Lift.SBlock (go l n)
  | _ => Lift.SLeaf n (is_return s)
  end.

(* what the parser guarantees about initialisation blocks, as a boolean: their
   entries are declarations and (multi-)substitutions.  [ast_flat] admits every
   statement without control flow, [ast_init_ok] asks every initialisation block
   to hold such entries only *)
Fixpoint ast_flat (s : Ast.statement) : bool :=
  match s with
  | Ast.IfThenElse _ _ _ _ | Ast.While _ _ _ => false
  | Ast.InitializationBlock _ _ l => forallb ast_flat l
  | Ast.Block _ l => forallb ast_flat l
  | _ => true
  end.

Fixpoint ast_init_ok (s : Ast.statement) : bool :=
  match s with
  | Ast.IfThenElse _ _ t e => ast_init_ok t && match e with Some e => ast_init_ok e | None => true end
  | Ast.While _ _ b => ast_init_ok b
  | Ast.InitializationBlock _ _ l => forallb ast_flat l
  | Ast.Block _ l => forallb ast_init_ok l
  | _ => true
  end.

(* ------------------------------------------------------------------------ *)
(* adapter 2: skeleton graph -> Model.Ir.cfg                                  *)
(* ------------------------------------------------------------------------ *)
Inductive irnode :=
| IStmt (s : Ir.stmt)
| ICond (m : Ir.meta) (c : Ir.expr).

Fixpoint all_some {A} (l : list (option A)) : option (list A) :=
  match l with
  | [] => Some []
  | Some a :: r => match all_some r with Some r' => Some (a :: r') | None => None end
  | None :: _ => None
  end.

(* model-only site: the numbering of [skel] and the order of [table] disagree
   (proved unreachable, Proofs.PipelineMirrorsProofs.ir_of_lift_total) *)
Definition site_adapter : Z := (-2)%Z.

Definition stage_desugar : Z := 1%Z.
Definition stage_irlift : Z := 2%Z.
Definition stage_lift : Z := 3%Z.
Definition stage_adapter : Z := 4%Z.
Definition stage_dom : Z := 5%Z.
Definition stage_ssa : Z := 6%Z.
Definition stage_propagate : Z := 7%Z.

Inductive def_result :=
| DROk (c : Ir.cfg)                    (* the definition reached the analysis passes *)
| DRReport (stage : Z)                 (* the stage answered with an error report *)
| DRPanic (stage : Z) (site : Z)
| DRFuel (stage : Z).

Record definition_head := Head {
  h_kind : Ir.defkind; h_params : list Ir.vname; h_decls : list (Ir.vname * Ir.vtype) }.

Section Chain.
  (* ---- what is not mirrored ---- *)
  Variable ir_stmt : Ast.statement -> option Ir.stmt.                          (* None: an IR lifting error report *)
  Variable ir_cond : Ast.meta -> Ast.expression -> option (Ir.meta * Ir.expr).
  Variable ir_head : string -> Ast.statement -> definition_head.
  (* ---- hash orders ---- *)
  Variable ord : nat -> list nat -> list nat.      (* `for j in &idom_candidates`, Model.Dom *)
  Variable horder : list nat -> list nat.          (* iteration over a dominance frontier / a children set *)
  (* ---- configuration ---- *)
  Variable p : Z.                                  (* the prime of the curve *)
  Variable kv kd : nat.                            (* pass budgets (the 10 s time boxes) *)

  Definition ir_node (nd : node) : option irnode :=
    match nd with
    | NStmt s => option_map IStmt (ir_stmt s)
    | NCond m c => option_map (fun mc => ICond (fst mc) (snd mc)) (ir_cond m c)
    end.

  Definition ir_item (tbl : list irnode) (it : Lift.item) : option Ir.stmt :=
    match it with
    | Lift.ILeaf id =>
        match nth_error tbl id with Some (IStmt s) => Some s | _ => None end
    | Lift.IBranch c t f =>
        match nth_error tbl c with
        | Some (ICond m e) => Some (Ir.SIf m e (N.of_nat t) (option_map N.of_nat f))
        | _ => None
        end
    end.

  Definition ir_block (tbl : list irnode) (b : Lift.block) : option Ir.block :=
    option_map (fun ss => {| Ir.b_index := N.of_nat (Lift.b_index b);
                             Ir.b_depth := N.of_nat (Lift.b_depth b);
                             Ir.b_stmts := ss;
                             Ir.b_preds := map N.of_nat (Lift.b_preds b);
                             Ir.b_succs := map N.of_nat (Lift.b_succs b) |})
               (all_some (map (ir_item tbl) (Lift.b_items b))).

  Definition ir_of_lift (h : definition_head) (tbl : list irnode) (g : list Lift.block) : option Ir.cfg :=
    option_map (fun bs => {| Ir.c_kind := h_kind h; Ir.c_params := h_params h;
                             Ir.c_decls := h_decls h; Ir.c_blocks := bs |})
               (all_some (map (ir_block tbl) g)).

  (* DominatorTree::new(&self.basic_blocks) reads the predecessor and successor sets *)
  Definition dom_of_ir (c : Ir.cfg) : list Dom.node :=
    map (fun b => Dom.Node (map N.to_nat (Ir.b_preds b)) (map N.to_nat (Ir.b_succs b))) (Ir.c_blocks c).

  Definition sets_of (masks : list N) : list (list N) :=
    map (fun m => map N.of_nat (horder (Dom.members m))) masks.

  (* the immediate-dominator table of the tree, as propagation reads it (block index -> idom) *)
  Definition idom_table (t : Dom.dom_tree) : list (option N) :=
    map (fun o => match o with Some j => Some (N.of_nat j) | None => None end) (Dom.dt_idom t).

  (* the graph handed to propagation, when the chain gets that far, with the
     immediate-dominator table of its dominator tree *)
  Definition ssa_of (c : Ir.cfg) : Base.outcome (list (option N) * Ssa.ssa_result Ir.cfg) :=
    let g := dom_of_ir c in
    Base.bind (Dom.dominator_tree (Dom.dom_fuel g) ord g)
              (fun t => Base.Ok (idom_table t,
                                 Ssa.into_ssa (sets_of (Dom.dt_frontier t)) (sets_of (Dom.dt_children t)) c)).

  Definition analyse_cfg (c : Ir.cfg) : def_result :=
    match ssa_of c with
    | Base.Ok (idom, Ssa.SOk c1) =>
        match Propagate.propagate kv kd p idom c1 with
        | Base.Ok c2 => DROk c2
        | Base.Err _ => DRReport stage_propagate
        | Base.Panic s => DRPanic stage_propagate s
        | Base.OutOfFuel => DRFuel stage_propagate
        end
    | Base.Ok (_, Ssa.SErrUndefined) => DRReport stage_ssa        (* variable used before it is defined *)
    | Base.Ok (_, Ssa.SPanic) => DRPanic stage_ssa 0
    | Base.Ok (_, Ssa.SFuel) => DRFuel stage_ssa
    | Base.Err _ => DRReport stage_dom
    | Base.Panic s => DRPanic stage_dom s
    | Base.OutOfFuel => DRFuel stage_dom
    end.

  (* a desugared body *)
  Definition cfg_of_body (h : definition_head) (body : Ast.statement) : Base.outcome (option Ir.cfg) :=
    match all_some (map ir_node (table body)) with
    | None => Base.Ok None                                    (* IR lifting error *)
    | Some tbl =>
        Base.bind (Lift.lift (skel body 0))
                  (fun g => match ir_of_lift h tbl g with
                            | Some c => Base.Ok (Some c)
                            | None => Base.Panic site_adapter
                            end)
    end.

  Definition analyse_body (h : definition_head) (body : Ast.statement) : def_result :=
    match cfg_of_body h body with
    | Base.Ok (Some c) => analyse_cfg c
    | Base.Ok None => DRReport stage_irlift
    | Base.Err _ => DRReport stage_lift
    | Base.Panic s => if Z.eqb s site_adapter then DRPanic stage_adapter s else DRPanic stage_lift s
    | Base.OutOfFuel => DRFuel stage_lift
    end.

  Definition analyse_template (env : list (string * Desugar.template_info)) (lib : list (list N))
             (t : string * Ast.statement) : def_result :=
    match Desugar.desugar_template env lib (snd t) with
    | Desugar.DOk body => analyse_body (ir_head (fst t) body) body
    | Desugar.DErr _ => DRReport stage_desugar
    | Desugar.DPanic s => DRPanic stage_desugar s
    | Desugar.DOutOfFuel => DRFuel stage_desugar
    end.

  Definition analyse_function (f : string * Ast.statement) : def_result :=
    match Desugar.check_function (snd f) with
    | Desugar.DOk None => analyse_body (ir_head (fst f) (snd f)) (snd f)
    | Desugar.DOk (Some _) => DRReport stage_desugar
    | Desugar.DErr _ => DRReport stage_desugar
    | Desugar.DPanic s => DRPanic stage_desugar s
    | Desugar.DOutOfFuel => DRFuel stage_desugar
    end.

  Record program := Program {
    pr_lib : list (list N);                          (* FileLibrary: per file id the line starts *)
    pr_templates : list (string * Ast.statement);
    pr_functions : list (string * Ast.statement) }.

  Definition analyse_program (pr : program) : list def_result :=
    map (analyse_template (Desugar.env_of (pr_templates pr)) (pr_lib pr)) (pr_templates pr) ++
    map analyse_function (pr_functions pr).

  (* ---- the file stage in front ---- *)
  Section Files.
    Context {path : Type} `{EqDecision0 : stdpp.base.EqDecision path}.
    Variables (canon : path -> option path) (is_dir is_file : path -> bool)
              (read_dir : path -> option (list path)) (join : path -> path -> path)
              (parent : path -> path) (file_name : path -> option path)
              (ext_circom starts_dot has_sep : path -> bool)
              (content : path -> Includes.file_content path).
    (* the parser applied to the files that were read: not mirrored *)
    Variable parse : @Includes.parse_state path -> program.

    Definition run_pipeline_mirrors (d23 : bool) (dfuel fuel : nat) (paths libs : list path)
      : Base.outcome (list def_result) :=
      Base.bind (Includes.parse_files canon is_dir is_file read_dir join parent file_name ext_circom
                                      starts_dot has_sep content d23 dfuel fuel paths libs)
                (fun st => Base.Ok (analyse_program (parse st))).
  End Files.
End Chain.
