(* C16: structure mirror of the exponentiation behind `**`.

     modular_arithmetic::pow(base, exp, field) = base.modpow(exp, field)
     num-bigint-dig 0.8.4, bigint.rs   BigInt::modpow   (two asserts, sign of the result)
                           biguint.rs  BigUint::modpow  (odd modulus => monty_modpow)
                           monty.rs    monty_modpow     (fixed 4-bit windows over the 64-bit limbs of the exponent)

   Model.Field.pow is the VALUE of that call (Zpow_mod).  This file mirrors the
   SEQUENCE OF MULTIPLICATIONS of monty_modpow, one `montgomery(..)` call of the
   library per [mm] here, and counts them.  What is abstracted: a Montgomery
   product is represented by the residue it stands for (montgomery(x, y) is
   x * y * R^-1 mod m on "almost reduced" limb vectors; here the plain
   (a * b) mod p on the represented values), so conversions into and out of
   Montgomery form are multiplications that leave the represented value
   unchanged.  Each such call is a double loop over the limbs of the modulus
   (2 * len(m)^2 word multiplications), independent of the exponent.
   Definitions only. *)
From Coq Require Import ZArith List Bool.
Require Import Model.Base Model.Field.
Import ListNotations.
Local Open Scope Z_scope.

Definition site_modpow_negative_exponent : Z := 1601.  (* assert!(!exponent.is_negative(), ..) *)
Definition site_modpow_zero_modulus : Z := 1602.       (* assert!(!modulus.is_zero(), "divide by zero!") *)
Definition not_mirrored_even_modulus : Z := 1603.      (* BigUint::modpow, even modulus: plain square-and-multiply *)

(* y.data.len(): number of 64-bit limbs of the normalised exponent (none for 0) *)
Definition nlimbs (e : Z) : Z := (bits e + 63) / 64.

(* one call of monty::montgomery, on the represented residues *)
Definition mm (p a b : Z) : Z := (a * b) mod p.

(* for i in 2..1 << n { montgomery(&mut r, &powers[i - 1], &powers[1], ..); powers.push(r) } *)
Fixpoint powers_from (n : nat) (p x prev : Z) : list Z :=
  match n with
  | O => []
  | S k => let nx := mm p prev x in nx :: powers_from k p x nx
  end.

(* powers[0] = montgomery(one, rr), powers[1] = montgomery(x, rr), then 14 more: 16 calls *)
Definition powers (p x : Z) : list Z :=
  let x1 := x mod p in (1 mod p) :: x1 :: powers_from 14 p x1 x1.

(* the k-th 4-bit window of the exponent, counted from the least significant:
   `yi >> (BITS - n)` after `yi <<= n` has been applied inside limb k / 16 *)
Definition window (e : Z) (k : nat) : Z := (e / 16 ^ Z.of_nat k) mod 16.

(* for i in (0..y.data.len()).rev() { .. while j < BITS { .. j += n } }: the
   windows from the most significant one down; all but the very first are
   preceded by four squarings.  State: accumulator and number of montgomery calls. *)
Fixpoint windows (k : nat) (first : bool) (p e : Z) (tbl : list Z) (z cnt : Z) : Z * Z :=
  match k with
  | O => (z, cnt)
  | S k' =>
    let '(z1, c1) :=
      if first then (z, cnt)
      else (let zz := mm p z z in let z' := mm p zz zz in
            let zz' := mm p z' z' in mm p zz' zz', cnt + 4) in
    windows k' false p e tbl (mm p z1 (nth (Z.to_nat (window e k')) tbl 0)) (c1 + 1)
  end.

(* monty_modpow(x, y, m) for 0 <= x, 0 <= y, odd m: (x^y mod m, montgomery calls) *)
Definition monty_modpow (x e p : Z) : Z * Z :=
  let tbl := powers p x in
  let '(z, c) := windows (Z.to_nat (16 * nlimbs e)) true p e tbl (nth 0 tbl 0) 16 in
  (* montgomery(&mut zz, &z, &one, ..): back to a regular number, then `if zz >= m { zz -= m }` *)
  (z mod p, c + 1).

(* BigInt::modpow(self, exponent, modulus) *)
Definition modpow_steps (b e m : Z) : outcome (Z * Z) :=
  if e <? 0 then Panic site_modpow_negative_exponent
  else if m =? 0 then Panic site_modpow_zero_modulus
  else if negb (Z.odd m) then Err (EOther not_mirrored_even_modulus)
  else
    let '(r, c) := monty_modpow (Z.abs b) e (Z.abs m) in
    if r =? 0 then Ok (0, c)
    else Ok (match b <? 0, m <? 0 with
             | false, false => r
             | true, false => Z.abs m - r
             | false, true => - (Z.abs m - r)
             | true, true => - r
             end, c).
