(* Mirror of `cache_variable_use`
   (/repo/program_structure/src/intermediate_representation/expression_impl.rs:351-505,
    statement_impl.rs:276-378, control_flow_graph/basic_block.rs:170-208):
   which locals / signals / components an expression, a statement and a basic
   block read and write.

   Representation.  The Rust sets are `HashSet<VariableUse>` with
   `VariableUse = (meta, name, access)`.  Every consumer in the taint,
   constraint and side-effect analyses projects a *read* use to `.name()`, and
   the expression nodes of Model.Ir carry no location, so a read is modelled by
   its name.  A *write* keeps the statement location and whether the use has a
   non-empty access list (the only part of the access any consumer looks at:
   `to_string() == "_"`).  Lists are used as sets: every consumer below only
   tests membership or inserts into another set, so the iteration order of the
   Rust hash sets is irrelevant by construction; results handed out of the model
   are canonicalised (sorted, duplicate free) in Model.Taint.

   The type of a variable node is the `TypeKnowledge` set by `propagate_types`:
   `Declarations::get_type(name) = map.get(name.without_version())` on the
   declarations in force when the node was last visited.  The types of all
   versions of a name agree, and a type once set is never cleared, so the
   lookup is done by (name, suffix) in the declarations of the SSA cfg.
   For `Substitution` the statement's own type knowledge is part of the dump
   (field `stype`) and is used as is.
   Definitions only. *)
From Coq Require Import ZArith NArith List Bool.
Require Import Model.Base Model.Ir.
Import ListNotations.

Notation decls := (list (vname * vtype)).

Definition type_of (D : decls) (v : vname) : option vtype :=
  match find (fun kt => vname_eqb (without_version (fst kt)) (without_version v)) D with
  | Some kt => Some (snd kt)
  | None => None
  end.

(* locals_read, signals_read, components_read *)
Record uses := mkU { u_loc : list vname; u_sig : list vname; u_cmp : list vname }.
Definition u0 : uses := mkU [] [] [].
Definition u_app (a b : uses) : uses :=
  mkU (u_loc a ++ u_loc b) (u_sig a ++ u_sig b) (u_cmp a ++ u_cmp b).

(* the `match meta.type_knowledge().variable_type()` blocks *)
Definition u_typed (t : option vtype) (v : vname) : uses :=
  match t with
  | Some TLocal => mkU [v] [] []
  | Some TComponent | Some TAnonComponent => mkU [] [] [v]
  | Some TSigIn | Some TSigOut | Some TSigInt => mkU [] [v] []
  | None => u0                      (* "If the variable type is unknown we ignore it." *)
  end.
Definition u_var (D : decls) (v : vname) : uses := u_typed (type_of D v) v.

Fixpoint expr_uses (D : decls) (e : expr) {struct e} : uses :=
  let fix list_uses (es : list expr) {struct es} : uses :=
    match es with
    | [] => u0
    | x :: r => u_app (expr_uses D x) (list_uses r)
    end in
  let fix acc_uses (acc : list (access expr)) {struct acc} : uses :=
    match acc with
    | [] => u0
    | AIdx i :: r => u_app (expr_uses D i) (acc_uses r)
    | AComp _ :: r => acc_uses r
    end in
  match e with
  | ENum _ _ => u0
  | EVar v _ => u_var D v
  | EInfix _ l r _ => u_app (expr_uses D l) (expr_uses D r)
  | EPrefix _ x _ => expr_uses D x
  | ESwitch c t f _ => u_app (expr_uses D c) (u_app (expr_uses D t) (expr_uses D f))
  | ECall _ args _ => list_uses args
  | EArray vs _ => list_uses vs
  | EAccess v acc _ => u_app (acc_uses acc) (u_var D v)
  | EUpdate v acc rhe _ => u_app (expr_uses D rhe) (u_app (acc_uses acc) (u_var D v))
  | EPhi args _ => mkU args [] []          (* "All phi node arguments are local variables." *)
  end.

Fixpoint exprs_uses (D : decls) (es : list expr) : uses :=
  match es with
  | [] => u0
  | x :: r => u_app (expr_uses D x) (exprs_uses D r)
  end.

Fixpoint logargs_uses (D : decls) (args : list logarg) : uses :=
  match args with
  | [] => u0
  | LStr :: r => logargs_uses D r
  | LExpr e :: r => u_app (expr_uses D e) (logargs_uses D r)
  end.

(* a written use: statement location, name, "access list is non-empty" *)
Record wuse := mkW { w_meta : meta; w_name : vname; w_acc : bool }.

Record suses := mkS {
  s_reads : uses;
  s_lw : list wuse;      (* locals_written *)
  s_sw : list wuse;      (* signals_written *)
  s_cw : list wuse }.    (* components_written *)

Definition rhe_has_access (rhe : expr) : bool :=
  match rhe with
  | EUpdate _ acc _ _ => match acc with [] => false | _ => true end
  | _ => false
  end.

Definition stmt_uses (D : decls) (s : stmt) : suses :=
  match s with
  | SDecl _ _ _ dims => mkS (exprs_uses D dims) [] [] []
  | SSubst m v op rhe _ stype =>
    let r := expr_uses D rhe in
    let w := mkW m v (rhe_has_access rhe) in
    match stype with
    | Some TLocal => mkS r [w] [] []
    | Some TSigIn | Some TSigOut | Some TSigInt =>
      (* a `<==` also reads the assigned signal *)
      let r' := match op with OpCSig => u_app r (mkU [] [v] []) | _ => r end in
      mkS r' [] [w] []
    | Some TComponent | Some TAnonComponent => mkS r [] [] [w]
    | None => mkS r [] [] []
    end
  | SLog _ args => mkS (logargs_uses D args) [] [] []
  | SIf _ c _ _ => mkS (expr_uses D c) [] [] []
  | SRet _ e => mkS (expr_uses D e) [] [] []
  | SAssert _ e => mkS (expr_uses D e) [] [] []
  | SCeq _ l r => mkS (u_app (expr_uses D l) (expr_uses D r)) [] [] []
  end.

(* VariableMeta::variables_read / variables_written / variables_used, as names *)
Definition uses_names (u : uses) : list vname := u_loc u ++ u_sig u ++ u_cmp u.
Definition stmt_reads (D : decls) (s : stmt) : list vname := uses_names (s_reads (stmt_uses D s)).
Definition stmt_writes_w (D : decls) (s : stmt) : list wuse :=
  let u := stmt_uses D s in s_lw u ++ s_sw u ++ s_cw u.
Definition stmt_writes (D : decls) (s : stmt) : list vname := map w_name (stmt_writes_w D s).
Definition stmt_used (D : decls) (s : stmt) : list vname := stmt_reads D s ++ stmt_writes D s.

(* BasicBlock: union over the statements *)
Definition block_reads (D : decls) (b : block) : list vname := flat_map (stmt_reads D) (b_stmts b).
Definition block_writes (D : decls) (b : block) : list vname := flat_map (stmt_writes D) (b_stmts b).
