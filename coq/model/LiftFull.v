(* Content-carrying mirror of the AST -> CFG lifting:

     program_structure/src/control_flow_graph/lifting.rs
        try_lift_impl, From<&Parameters> for LiftingEnvironment, build_basic_blocks,
        visit_statement, complete_basic_block
     program_structure/src/control_flow_graph/unique_vars.rs
        ensure_unique_variables, visit_statement, visit_expression,
        DeclarationEnvironment (on the REAL syntax tree of Model.Ast; the mirror of
        C10, Model.UniqueVars, works on a named projection of it)
     program_structure/src/utils/environment.rs  (VarEnvironment: the three calls used)
     program_structure/src/intermediate_representation/lifting.rs
        every TryLift impl (statements, expressions, metas, types, names, accesses,
        assignment operators, opcodes, log arguments)
     program_structure/src/intermediate_representation/declarations.rs
        Declarations::add_declaration / get_type, Declaration::new
     program_structure/src/intermediate_representation/statement_impl.rs
        Statement::propagate_types, the statement-level part (the type of the assigned
        variable of a substitution); Cfg::propagate_types of cfg.rs

   The block algorithm is the one of Model.Lift (C12/C13), statement for
   statement, on blocks that hold IR statements instead of skeleton items; the
   sets of block indices are Model.Lift's strictly increasing lists (Lift.ins,
   Lift.iunion).  Model.Lift itself is untouched; Proofs.LiftFullProofs shows that
   forgetting the statement content of the graph built here gives the graph
   Model.Lift builds from the skeleton of the same body.

   IR.  Model.Ir keeps a meta on statements only (expressions carry the
   value/degree knowledge instead).  Lifting copies a meta onto EVERY node, so the
   mirror builds a richer local IR ([xexpr], [xstmt], [xblock], [xcfg]: a meta on
   every expression node, log strings, signal tags, the full Declaration records,
   the block metas) and [erase_cfg] maps it onto Model.Ir.cfg (knowledge slots
   empty, as they are before SSA).  Both forms are compared with the real
   implementation on every run (engine `liftfull`).

   Not mirrored: DominatorTree::new (C15's Model.Dom), Cfg::cache_variable_use
   and the expression-level part of propagate_types (neither changes what a dump
   of the graph shows; C08's Model.SignalAssign has the slices it needs), the
   `trace!`/`debug!` calls.

   Errors: the two CFGErrors that lifting can return are [Err err_invalid_name]
   (IRError::InvalidVariableNameError) and [Err err_param_collision]
   (CFGError::ParameterNameCollisionError).  Every Rust panic that can be reached
   is a [Panic site].

   Definitions only. *)
From Coq Require Import ZArith NArith Ascii String.
From stdpp Require Import list.
Require Model.Base Model.Ast Model.Ir Model.Lift.
Import Base(outcome, Ok, Err, Panic, OutOfFuel, bind, EOther).
Notation "x <- m ;; f" := (bind m (fun x => f))
  (at level 100, m at next level, right associativity, only parsing).
Local Open Scope nat_scope.

(* ------------------------------------------------------------------------ *)
(* error values and panic sites                                              *)
(* ------------------------------------------------------------------------ *)
Definition err_invalid_name : Base.error := EOther 1.      (* IRError::InvalidVariableNameError *)
Definition err_param_collision : Base.error := EOther 2.   (* CFGError::ParameterNameCollisionError *)

(* control_flow_graph/lifting.rs: the sites of Model.Lift *)
Definition site_body_not_block : Z := Lift.site_body_not_block.  (* 192 *)
Definition site_init_nonempty : Z := Lift.site_init_nonempty.    (* 228 *)
Definition site_while_index : Z := Lift.site_while_index.        (* 288 *)
Definition site_complete_index : Z := Lift.site_complete_index.  (* 382 *)
Definition site_nonempty : Z := Lift.site_nonempty.              (* model only *)
(* intermediate_representation/lifting.rs *)
Definition site_stmt_not_liftable : Z := 1119.   (* line 119: panic!("failed to convert AST statement to IR") *)
Definition site_expr_not_liftable : Z := 1193.   (* line 193: panic!("failed to convert AST expression to IR") *)
(* intermediate_representation/declarations.rs *)
Definition site_decl_tracked : Z := 2017.        (* line 17: assert!(insert(..).is_none(), "variable .. already tracked") *)
(* control_flow_graph/unique_vars.rs *)
Definition site_unique_not_block : Z := 3184.    (* line 184: assert!(matches!(stmt, Statement::Block { .. })) *)
(* utils/environment.rs *)
Definition site_env_add_variable : Z := 4001.    (* add_variable: assert!(!self.variables.is_empty()) *)
Definition site_env_remove_block : Z := 4002.    (* remove_variable_block: assert!(!self.variables.is_empty()) *)

(* ------------------------------------------------------------------------ *)
(* strings                                                                   *)
(* ------------------------------------------------------------------------ *)
Definition bytes (s : string) : Ir.ident := map N_of_ascii (list_ascii_of_string s).

(* format!("{name}.{version}") *)
Fixpoint digits_of_uint (d : Decimal.uint) : string :=
  match d with
  | Decimal.Nil => EmptyString
  | Decimal.D0 d => String "0" (digits_of_uint d) | Decimal.D1 d => String "1" (digits_of_uint d)
  | Decimal.D2 d => String "2" (digits_of_uint d) | Decimal.D3 d => String "3" (digits_of_uint d)
  | Decimal.D4 d => String "4" (digits_of_uint d) | Decimal.D5 d => String "5" (digits_of_uint d)
  | Decimal.D6 d => String "6" (digits_of_uint d) | Decimal.D7 d => String "7" (digits_of_uint d)
  | Decimal.D8 d => String "8" (digits_of_uint d) | Decimal.D9 d => String "9" (digits_of_uint d)
  end.
Definition show_nat (n : nat) : string := digits_of_uint (Nat.to_uint n).
Definition with_version_suffix (n : string) (v : nat) : string :=
  String.append n (String "." (show_nat v)).

(* str::split('.') *)
Fixpoint split_dot (s : string) : list string :=
  match s with
  | EmptyString => [EmptyString]
  | String c r =>
      if Ascii.eqb c "."%char then EmptyString :: split_dot r
      else match split_dot r with
           | [] => [String c EmptyString]           (* unreachable: split_dot is never empty *)
           | h :: t => String c h :: t
           end
  end.

(* ------------------------------------------------------------------------ *)
(* utils/environment.rs: VarEnvironment<V> = Vec<VariableBlock<V>>           *)
(* ------------------------------------------------------------------------ *)
(* A block is a HashMap that is only inserted into and looked up: an association
   list with insertion at the head and first-match lookup.  The innermost block
   is the head of the list (Rust: the last element of the Vec). *)
Notation venv V := (list (list (string * V))).

Fixpoint assoc {V} (n : string) (b : list (string * V)) : option V :=
  match b with
  | [] => None
  | (m, v) :: r => if String.eqb n m then Some v else assoc n r
  end.

Fixpoint get_variable {V} (n : string) (e : venv V) : option V :=
  match e with
  | [] => None
  | b :: r => match assoc n b with Some v => Some v | None => get_variable n r end
  end.

Definition env_new {V} : venv V := [[]].
Definition add_variable_block {V} (e : venv V) : venv V := [] :: e.
Definition remove_variable_block {V} (e : venv V) : outcome (venv V) :=
  match e with [] => Panic site_env_remove_block | _ :: r => Ok r end.
Definition add_variable {V} (n : string) (v : V) (e : venv V) : outcome (venv V) :=
  match e with [] => Panic site_env_add_variable | b :: r => Ok (((n, v) :: b) :: r) end.

(* ------------------------------------------------------------------------ *)
(* unique_vars.rs                                                            *)
(* ------------------------------------------------------------------------ *)
Definition floc := (N * N)%type.                       (* FileLocation = start..end *)
Definition meta_loc (m : Ast.meta) : floc := (Ast.m_start m, Ast.m_end m).

(* struct Declaration { file_id, file_location } *)
Definition udecl := (option N * floc)%type.

Record denv := {
  declarations : venv udecl;            (* last seen declaration, scoped *)
  scoped_versions : venv nat;           (* current version, scoped *)
  global_versions : venv (option nat)   (* maximum version, one block only *)
}.

Definition denv_new : denv :=
  {| declarations := env_new; scoped_versions := env_new; global_versions := env_new |}.

Definition get_declaration (n : string) (e : denv) : option udecl := get_variable n (declarations e).
Definition get_current_version (n : string) (e : denv) : option nat := get_variable n (scoped_versions e).

Definition get_next_version (n : string) (e : denv) : outcome (option nat * denv) :=
  let version :=
    match get_variable n (global_versions e) with
    | None => None
    | Some None => Some 0
    | Some (Some v) => Some (v + 1)
    end in
  g <- add_variable n version (global_versions e);;
  match version with
  | None => Ok (None, {| declarations := declarations e; scoped_versions := scoped_versions e; global_versions := g |})
  | Some v =>
      s <- add_variable n v (scoped_versions e);;
      Ok (Some v, {| declarations := declarations e; scoped_versions := s; global_versions := g |})
  end.

Definition add_declaration (n : string) (d : udecl) (e : denv) : outcome (option nat * denv) :=
  ds <- add_variable n d (declarations e);;
  get_next_version n {| declarations := ds; scoped_versions := scoped_versions e; global_versions := global_versions e |}.

Definition denv_add_block (e : denv) : denv :=
  {| declarations := add_variable_block (declarations e);
     scoped_versions := add_variable_block (scoped_versions e);
     global_versions := global_versions e |}.

Definition denv_remove_block (e : denv) : outcome denv :=
  d <- remove_variable_block (declarations e);;
  s <- remove_variable_block (scoped_versions e);;
  Ok {| declarations := d; scoped_versions := s; global_versions := global_versions e |}.

(* `match env.get_current_version(name) { Some(version) => format!("{name}.{version}"), None => name }` *)
Definition rename_use (e : denv) (n : string) : string :=
  match get_current_version n e with
  | Some v => with_version_suffix n v
  | None => n
  end.

(* CFGError::ShadowingVariableWarning, pushed to the report collection *)
Record shadow_report := {
  sh_name : string; sh_primary_file : option N; sh_primary : floc;
  sh_secondary_file : option N; sh_secondary : floc }.

(* visit_expression: the environment is only read *)
Fixpoint ren_expr (env : denv) (e : Ast.expression) {struct e} : Ast.expression :=
  let ren_access (a : Ast.access_of Ast.expression) :=
    match a with
    | Ast.ArrayAccess i => Ast.ArrayAccess (ren_expr env i)
    | Ast.ComponentAccess s => Ast.ComponentAccess s
    end in
  match e with
  | Ast.Variable_ m n acc => Ast.Variable_ m (rename_use env n) (map ren_access acc)
  | Ast.InfixOp m l op r => Ast.InfixOp m (ren_expr env l) op (ren_expr env r)
  | Ast.PrefixOp m op r => Ast.PrefixOp m op (ren_expr env r)
  | Ast.InlineSwitchOp m c t f => Ast.InlineSwitchOp m (ren_expr env c) (ren_expr env t) (ren_expr env f)
  | Ast.Number m v => Ast.Number m v
  | Ast.Call m id args => Ast.Call m id (map (ren_expr env) args)
  | Ast.Tuple m vs => Ast.Tuple m (map (ren_expr env) vs)
  | Ast.ArrayInLine m vs => Ast.ArrayInLine m (map (ren_expr env) vs)
  | Ast.ParallelOp m r => Ast.ParallelOp m (ren_expr env r)
  | Ast.AnonymousComponent m id par params signals names =>
      Ast.AnonymousComponent m id par (map (ren_expr env) params) (map (ren_expr env) signals)
        (option_map (map (fun on => (fst on, rename_use env (snd on)))) names)
  end.

Definition ren_access (env : denv) (a : Ast.access_of Ast.expression) : Ast.access_of Ast.expression :=
  match a with
  | Ast.ArrayAccess i => Ast.ArrayAccess (ren_expr env i)
  | Ast.ComponentAccess s => Ast.ComponentAccess s
  end.

Definition ren_logarg (env : denv) (a : Ast.log_argument) : Ast.log_argument :=
  match a with
  | Ast.LogExp v => Ast.LogExp (ren_expr env v)
  | Ast.LogStr s => Ast.LogStr s
  end.

Definition vstate := (denv * list shadow_report)%type.   (* reports in push order *)

(* visit_statement of unique_vars.rs: the renamed statement and the new state *)
Fixpoint ren_stmt (s : Ast.statement) (st : vstate) {struct s} : outcome (Ast.statement * vstate) :=
  match s with
  | Ast.Declaration m t name dims c =>
      let dims' := map (ren_expr (fst st)) dims in
      let reps :=
        match get_declaration name (fst st) with
        | Some prev =>
            snd st ++ [{| sh_name := name; sh_primary_file := Ast.m_file m; sh_primary := meta_loc m;
                          sh_secondary_file := fst prev; sh_secondary := snd prev |}]
        | None => snd st
        end in
      r <- add_declaration name (Ast.m_file m, meta_loc m) (fst st);;
      match fst r with
      | None => Ok (Ast.Declaration m t name dims' c, (snd r, reps))
      | Some v => Ok (Ast.Declaration m t (with_version_suffix name v) dims' c, (snd r, reps))
      end
  | Ast.Substitution m var acc op rhe =>
      Ok (Ast.Substitution m (rename_use (fst st) var) (map (ren_access (fst st)) acc) op (ren_expr (fst st) rhe), st)
  | Ast.MultiSubstitution m lhe op rhe =>
      Ok (Ast.MultiSubstitution m (ren_expr (fst st) lhe) op (ren_expr (fst st) rhe), st)
  | Ast.LogCall m args => Ok (Ast.LogCall m (map (ren_logarg (fst st)) args), st)
  | Ast.Return m v => Ok (Ast.Return m (ren_expr (fst st) v), st)
  | Ast.ConstraintEquality m l r => Ok (Ast.ConstraintEquality m (ren_expr (fst st) l) (ren_expr (fst st) r), st)
  | Ast.Assert m a => Ok (Ast.Assert m (ren_expr (fst st) a), st)
  | Ast.InitializationBlock m t inits =>
      r <- (fix go (l : list Ast.statement) (st : vstate) {struct l} : outcome (list Ast.statement * vstate) :=
              match l with
              | [] => Ok ([], st)
              | x :: rest =>
                  a <- ren_stmt x st;;
                  b <- go rest (snd a);;
                  Ok (fst a :: fst b, snd b)
              end) inits st;;
      Ok (Ast.InitializationBlock m t (fst r), snd r)
  | Ast.While m c body =>
      let c' := ren_expr (fst st) c in
      r <- ren_stmt body st;;
      Ok (Ast.While m c' (fst r), snd r)
  | Ast.Block m stmts =>
      r <- (fix go (l : list Ast.statement) (st : vstate) {struct l} : outcome (list Ast.statement * vstate) :=
              match l with
              | [] => Ok ([], st)
              | x :: rest =>
                  a <- ren_stmt x st;;
                  b <- go rest (snd a);;
                  Ok (fst a :: fst b, snd b)
              end) stmts (denv_add_block (fst st), snd st);;
      env <- denv_remove_block (fst (snd r));;
      Ok (Ast.Block m (fst r), (env, snd (snd r)))
  | Ast.IfThenElse m c t e =>
      let c' := ren_expr (fst st) c in
      rt <- ren_stmt t st;;
      match e with
      | None => Ok (Ast.IfThenElse m c' (fst rt) None, snd rt)
      | Some e0 =>
          re <- ren_stmt e0 (snd rt);;
          Ok (Ast.IfThenElse m c' (fst rt) (Some (fst re)), snd re)
      end
  end.

(* the same list traversal as a top-level function (convertible with the two
   local ones above; used to state lemmas) *)
Fixpoint ren_stmts (l : list Ast.statement) (st : vstate) : outcome (list Ast.statement * vstate) :=
  match l with
  | [] => Ok ([], st)
  | x :: rest =>
      a <- ren_stmt x st;;
      b <- ren_stmts rest (snd a);;
      Ok (fst a :: fst b, snd b)
  end.

(* TryFrom<&Parameters> for DeclarationEnvironment: the first parameter whose
   declaration needs a version is the collision *)
Fixpoint env_of_params (ps : list string) (d : udecl) (e : denv) : outcome denv :=
  match ps with
  | [] => Ok e
  | p :: r =>
      a <- add_declaration p d e;;
      match fst a with
      | None => env_of_params r d (snd a)
      | Some _ => Err err_param_collision
      end
  end.

Definition is_block (s : Ast.statement) : bool := match s with Ast.Block _ _ => true | _ => false end.

(* ensure_unique_variables *)
Definition ensure_unique_variables (params : list string) (pfile : option N) (ploc : floc) (body : Ast.statement)
  : outcome (Ast.statement * list shadow_report) :=
  if negb (is_block body) then Panic site_unique_not_block
  else
    env <- env_of_params params (pfile, ploc) denv_new;;
    r <- ren_stmt body (env, []);;
    Ok (fst r, snd (snd r)).

(* ------------------------------------------------------------------------ *)
(* the rich IR                                                               *)
(* ------------------------------------------------------------------------ *)
Inductive xexpr :=
| XNum (m : Ir.meta) (z : Z)
| XVar (m : Ir.meta) (v : Ir.vname)
| XInfix (m : Ir.meta) (op : Ir.infix_op) (l r : xexpr)
| XPrefix (m : Ir.meta) (op : Ir.prefix_op) (e : xexpr)
| XSwitch (m : Ir.meta) (c t f : xexpr)
| XCall (m : Ir.meta) (name : string) (args : list xexpr)
| XArray (m : Ir.meta) (vs : list xexpr)
| XAccess (m : Ir.meta) (v : Ir.vname) (acc : list (Ir.access xexpr))
| XUpdate (m : Ir.meta) (v : Ir.vname) (acc : list (Ir.access xexpr)) (rhe : xexpr).

Inductive xlogarg := XLStr (s : string) | XLExpr (e : xexpr).

(* ir::VariableType: Model.Ir.vtype plus the tag list of a signal *)
Definition xtype := (Ir.vtype * list string)%type.

Inductive xstmt :=
| XDecl (m : Ir.meta) (names : list Ir.vname) (t : xtype) (dims : list xexpr)
| XIf (m : Ir.meta) (c : xexpr) (t : nat) (f : option nat)
| XRet (m : Ir.meta) (e : xexpr)
| XSubst (m : Ir.meta) (v : Ir.vname) (op : Ir.assign_op) (rhe : xexpr) (stype : option xtype)
| XCeq (m : Ir.meta) (l r : xexpr)
| XLog (m : Ir.meta) (args : list xlogarg)
| XAssert (m : Ir.meta) (e : xexpr).

Definition xstmt_meta (s : xstmt) : Ir.meta :=
  match s with
  | XDecl m _ _ _ | XIf m _ _ _ | XRet m _ | XSubst m _ _ _ _ | XCeq m _ _ | XLog m _ | XAssert m _ => m
  end.

(* declarations.rs: struct Declaration *)
Record xdeclaration := {
  xd_name : Ir.vname; xd_type : xtype; xd_dims : list xexpr; xd_file : option N; xd_loc : floc }.

(* Declarations(HashMap<VariableName, Declaration>): a list in insertion order;
   keys are pairwise different (add_declaration panics otherwise), so a lookup
   does not depend on the order *)
Notation xdecls := (list xdeclaration).

Record xblock := XBlock {
  xb_meta : Ir.meta;        (* BasicBlock::meta *)
  xb_index : nat;           (* BasicBlock::index *)
  xb_depth : nat;           (* BasicBlock::loop_depth *)
  xb_stmts : list xstmt;    (* BasicBlock::stmts *)
  xb_preds : list nat;      (* BasicBlock::predecessors *)
  xb_succs : list nat;      (* BasicBlock::successors *)
}.
Notation xgraph := (list xblock).

Record xcfg := {
  xc_kind : Ir.defkind;
  xc_params : list Ir.vname; xc_pfile : option N; xc_ploc : floc;     (* Parameters *)
  xc_decls : xdecls;
  xc_blocks : xgraph }.

(* ------------------------------------------------------------------------ *)
(* intermediate_representation/lifting.rs                                    *)
(* ------------------------------------------------------------------------ *)
(* TryLift for ast::Meta: ir::Meta::new(&self.location, &self.file_id) *)
Definition lift_meta (m : Ast.meta) : Ir.meta :=
  {| Ir.m_start := Ast.m_start m; Ir.m_end := Ast.m_end m; Ir.m_file := Ast.m_file m |}.

Definition lift_signal_type (s : Ast.signal_type) : Ir.vtype :=
  match s with Ast.SInput => Ir.TSigIn | Ast.SOutput => Ir.TSigOut | Ast.SIntermediate => Ir.TSigInt end.

Definition lift_type (t : Ast.variable_type) : xtype :=
  match t with
  | Ast.VVar => (Ir.TLocal, [])
  | Ast.VComponent => (Ir.TComponent, [])
  | Ast.VAnonymousComponent => (Ir.TAnonComponent, [])
  | Ast.VSignal st tags => (lift_signal_type st, tags)
  end.

Definition vname_plain (n : string) : Ir.vname :=
  {| Ir.vn_name := bytes n; Ir.vn_suffix := None; Ir.vn_version := None |}.

(* TryLift<&ast::Meta> for String *)
Definition lift_name (s : string) : outcome Ir.vname :=
  match split_dot s with
  | [a] => Ok (vname_plain a)
  | [a; b] => Ok {| Ir.vn_name := bytes a; Ir.vn_suffix := Some (bytes b); Ir.vn_version := None |}
  | _ => Err err_invalid_name
  end.

Definition lift_assign_op (o : Ast.assign_op) : Ir.assign_op :=
  match o with
  | Ast.AssignSignal => Ir.OpSig
  | Ast.AssignVar => Ir.OpVar
  | Ast.AssignConstraintSignal => Ir.OpCSig
  end.

Definition lift_prefix (o : Ast.prefix_opcode) : Ir.prefix_op :=
  match o with Ast.PSub => Ir.PNeg | Ast.PBoolNot => Ir.PNot | Ast.PComplement => Ir.PCompl end.

Definition lift_infix (o : Ast.infix_opcode) : Ir.infix_op :=
  match o with
  | Ast.IMul => Ir.IMul | Ast.IDiv => Ir.IDiv | Ast.IAdd => Ir.IAdd | Ast.ISub => Ir.ISub
  | Ast.IPow => Ir.IPow | Ast.IIntDiv => Ir.IIntDiv | Ast.IMod => Ir.IMod
  | Ast.IShiftL => Ir.IShl | Ast.IShiftR => Ir.IShr
  | Ast.ILesserEq => Ir.ILe | Ast.IGreaterEq => Ir.IGe | Ast.ILesser => Ir.ILt | Ast.IGreater => Ir.IGt
  | Ast.IEq => Ir.IEq | Ast.INotEq => Ir.INeq | Ast.IBoolOr => Ir.IOr | Ast.IBoolAnd => Ir.IAnd
  | Ast.IBitOr => Ir.IBor | Ast.IBitAnd => Ir.IBand | Ast.IBitXor => Ir.IBxor
  end.

(* TryLift for ast::Expression (and ast::Access).  A struct literal evaluates its
   fields in the order written, `collect::<IRResult<Vec<_>>>` stops at the first
   error: the binds below follow that order, so that the decision between an
   error and a panic is the one of the code. *)
Fixpoint lift_expr (e : Ast.expression) {struct e} : outcome xexpr :=
  let lift_exprs :=
    fix go (l : list Ast.expression) {struct l} : outcome (list xexpr) :=
      match l with
      | [] => Ok []
      | x :: r => x' <- lift_expr x;; r' <- go r;; Ok (x' :: r')
      end in
  let lift_accs :=
    fix go (l : list (Ast.access_of Ast.expression)) {struct l} : outcome (list (Ir.access xexpr)) :=
      match l with
      | [] => Ok []
      | Ast.ArrayAccess i :: r => i' <- lift_expr i;; r' <- go r;; Ok (Ir.AIdx i' :: r')
      | Ast.ComponentAccess s :: r => r' <- go r;; Ok (Ir.AComp (bytes s) :: r')
      end in
  match e with
  | Ast.InfixOp m l op r =>
      l' <- lift_expr l;; r' <- lift_expr r;; Ok (XInfix (lift_meta m) (lift_infix op) l' r')
  | Ast.PrefixOp m op r => r' <- lift_expr r;; Ok (XPrefix (lift_meta m) (lift_prefix op) r')
  | Ast.InlineSwitchOp m c t f =>
      c' <- lift_expr c;; t' <- lift_expr t;; f' <- lift_expr f;; Ok (XSwitch (lift_meta m) c' t' f')
  | Ast.Variable_ m n acc =>
      match acc with
      | [] => v <- lift_name n;; Ok (XVar (lift_meta m) v)
      | _ => v <- lift_name n;; acc' <- lift_accs acc;; Ok (XAccess (lift_meta m) v acc')
      end
  | Ast.Number m v => Ok (XNum (lift_meta m) v)
  | Ast.Call m id args => args' <- lift_exprs args;; Ok (XCall (lift_meta m) id args')
  | Ast.ArrayInLine m vs => vs' <- lift_exprs vs;; Ok (XArray (lift_meta m) vs')
  | Ast.ParallelOp _ r => lift_expr r
  | Ast.Tuple _ _ | Ast.AnonymousComponent _ _ _ _ _ _ => Panic site_expr_not_liftable
  end.

Fixpoint lift_exprs (l : list Ast.expression) : outcome (list xexpr) :=
  match l with
  | [] => Ok []
  | x :: r => x' <- lift_expr x;; r' <- lift_exprs r;; Ok (x' :: r')
  end.

Fixpoint lift_accs (l : list (Ast.access_of Ast.expression)) : outcome (list (Ir.access xexpr)) :=
  match l with
  | [] => Ok []
  | Ast.ArrayAccess i :: r => i' <- lift_expr i;; r' <- lift_accs r;; Ok (Ir.AIdx i' :: r')
  | Ast.ComponentAccess s :: r => r' <- lift_accs r;; Ok (Ir.AComp (bytes s) :: r')
  end.

Fixpoint lift_logargs (l : list Ast.log_argument) : outcome (list xlogarg) :=
  match l with
  | [] => Ok []
  | Ast.LogStr s :: r => r' <- lift_logargs r;; Ok (XLStr s :: r')
  | Ast.LogExp v :: r => v' <- lift_expr v;; r' <- lift_logargs r;; Ok (XLExpr v' :: r')
  end.

(* TryLift for ast::Statement *)
Definition lift_stmt (s : Ast.statement) : outcome xstmt :=
  match s with
  | Ast.Return m v => v' <- lift_expr v;; Ok (XRet (lift_meta m) v')
  | Ast.Substitution m var acc op rhe =>
      rhe' <- match acc with
              | [] => lift_expr rhe
              | _ =>
                  v <- lift_name var;;
                  acc' <- lift_accs acc;;
                  r <- lift_expr rhe;;
                  Ok (XUpdate (lift_meta m) v acc' r)
              end;;
      v <- lift_name var;;
      Ok (XSubst (lift_meta m) v (lift_assign_op op) rhe' None)
  | Ast.ConstraintEquality m l r =>
      l' <- lift_expr l;; r' <- lift_expr r;; Ok (XCeq (lift_meta m) l' r')
  | Ast.LogCall m args => args' <- lift_logargs args;; Ok (XLog (lift_meta m) args')
  | Ast.Assert m a => a' <- lift_expr a;; Ok (XAssert (lift_meta m) a')
  | Ast.Declaration m t name dims _ =>
      v <- lift_name name;;
      dims' <- lift_exprs dims;;
      Ok (XDecl (lift_meta m) [v] (lift_type t) dims')
  | Ast.Block _ _ | Ast.While _ _ _ | Ast.IfThenElse _ _ _ _ | Ast.MultiSubstitution _ _ _ _
  | Ast.InitializationBlock _ _ _ => Panic site_stmt_not_liftable
  end.

(* ------------------------------------------------------------------------ *)
(* declarations.rs                                                           *)
(* ------------------------------------------------------------------------ *)
Definition decl_tracked (v : Ir.vname) (ds : xdecls) : bool :=
  existsb (fun d => Ir.vname_eqb (xd_name d) v) ds.

(* Declarations::add_declaration *)
Definition decls_add (d : xdeclaration) (ds : xdecls) : outcome xdecls :=
  if decl_tracked (xd_name d) ds then Panic site_decl_tracked else Ok (ds ++ [d]).

(* Declarations::get_type: self.0.get(&name.without_version()).map(variable_type) *)
Definition decls_get_type (v : Ir.vname) (ds : xdecls) : option xtype :=
  option_map xd_type (List.find (fun d => Ir.vname_eqb (xd_name d) (Ir.without_version v)) ds).

(* From<&Parameters> for LiftingEnvironment *)
Fixpoint decls_of_params (ps : list Ir.vname) (pfile : option N) (ploc : floc) (ds : xdecls) : outcome xdecls :=
  match ps with
  | [] => Ok ds
  | p :: r =>
      ds <- decls_add {| xd_name := p; xd_type := (Ir.TLocal, []); xd_dims := []; xd_file := pfile; xd_loc := ploc |} ds;;
      decls_of_params r pfile ploc ds
  end.

(* ------------------------------------------------------------------------ *)
(* control_flow_graph/lifting.rs: blocks (Model.Lift's operations on xblock)  *)
(* ------------------------------------------------------------------------ *)
Definition new_block (m : Ir.meta) (i d : nat) : xblock := XBlock m i d [] [] [].

Definition add_succ (j : nat) (b : xblock) : xblock :=
  XBlock (xb_meta b) (xb_index b) (xb_depth b) (xb_stmts b) (xb_preds b) (Lift.ins j (xb_succs b)).

Definition add_pred (i : nat) (b : xblock) : xblock :=
  XBlock (xb_meta b) (xb_index b) (xb_depth b) (xb_stmts b) (Lift.ins i (xb_preds b)) (xb_succs b).

Definition push_stmt (s : xstmt) (b : xblock) : xblock :=
  XBlock (xb_meta b) (xb_index b) (xb_depth b) (xb_stmts b ++ [s]) (xb_preds b) (xb_succs b).

(* `if j != *true_index && false_index.is_none() { *false_index = Some(j) }` *)
Definition patch_stmt (j : nat) (s : xstmt) : xstmt :=
  match s with
  | XIf m c t None => if negb (j =? t) then XIf m c t (Some j) else s
  | _ => s
  end.

Fixpoint patch_last (j : nat) (l : list xstmt) : list xstmt :=
  match l with
  | [] => []
  | [x] => [patch_stmt j x]
  | x :: r => x :: patch_last j r
  end.

Definition patch_false (j : nat) (b : xblock) : xblock :=
  XBlock (xb_meta b) (xb_index b) (xb_depth b) (patch_last j (xb_stmts b)) (xb_preds b) (xb_succs b).

Definition upd (site : Z) (i : nat) (f : xblock -> xblock) (g : xgraph) : outcome xgraph :=
  match g !! i with
  | Some _ => Ok (alter f i g)
  | None => Panic site
  end.

Definition last_index (g : xgraph) : outcome nat :=
  match last g with
  | Some b => Ok (xb_index b)
  | None => Panic site_nonempty
  end.

Definition upd_last (f : xblock -> xblock) (g : xgraph) : outcome xgraph :=
  match g with
  | [] => Panic site_nonempty
  | _ => Ok (alter f (length g - 1) g)
  end.

(* complete_basic_block *)
Definition link (j : nat) (acc : outcome xgraph) (i : nat) : outcome xgraph :=
  g <- acc;;
  g <- upd site_complete_index i (add_succ j) g;;
  g <- upd site_complete_index j (add_pred i) g;;
  upd site_complete_index i (patch_false j) g.

Definition complete (g : xgraph) (m : Ir.meta) (ps : list nat) (d : nat) : outcome xgraph :=
  let j := length g in
  fold_left (link j) ps (Ok (g ++ [new_block m j d])).

Definition back_edge (h : nat) (acc : outcome xgraph) (i : nat) : outcome xgraph :=
  g <- acc;;
  g <- upd site_while_index i (add_succ h) g;;
  upd site_while_index h (add_pred i) g.

Definition or_last (g : xgraph) (ps : list nat) : outcome (list nat) :=
  if Lift.is_nil ps then (l <- last_index g;; Ok [l]) else Ok ps.

(* the state threaded through visit_statement: the block vector and the
   LiftingEnvironment (its declarations) *)
Definition lstate := (xgraph * xdecls)%type.

(* visit_statement *)
Fixpoint visit (s : Ast.statement) (d : nat) (st : lstate) {struct s} : outcome (lstate * list nat) :=
  cur <- last_index (fst st);;
  match s with
  | Ast.InitializationBlock _ _ ss =>
      (fix go (ss : list Ast.statement) (st : lstate) {struct ss} : outcome (lstate * list nat) :=
         match ss with
         | [] => Ok (st, [])
         | s :: r =>
             res <- visit s d st;;
             if Lift.is_nil (snd res) then go r (fst res) else Panic site_init_nonempty
         end) ss st
  | Ast.Block _ ss =>
      (fix go (ss : list Ast.statement) (ps : list nat) (st : lstate) {struct ss} : outcome (lstate * list nat) :=
         match ss with
         | [] => Ok (st, ps)
         | s :: r =>
             g <- (if Lift.is_nil ps then Ok (fst st)
                   else complete (fst st) (lift_meta (Ast.stmt_meta s)) ps d);;
             res <- visit s d (g, snd st);;
             go r (snd res) (fst res)
         end) ss [] st
  | Ast.While m c body =>
      g <- complete (fst st) (lift_meta m) [cur] d;;
      c' <- lift_expr c;;
      g <- upd_last (push_stmt (XIf (lift_meta m) c' (cur + 2) None)) g;;
      let header := cur + 1 in
      g <- complete g (lift_meta (Ast.stmt_meta body)) [header] (d + 1);;
      res <- visit body (d + 1) (g, snd st);;
      ps <- or_last (fst (fst res)) (snd res);;
      g <- fold_left (back_edge header) ps (Ok (fst (fst res)));;
      Ok ((g, snd (fst res)), [header])
  | Ast.IfThenElse m c t e =>
      c' <- lift_expr c;;
      g <- upd_last (push_stmt (XIf (lift_meta m) c' (cur + 1) None)) (fst st);;
      g <- complete g (lift_meta (Ast.stmt_meta t)) [cur] d;;
      res <- visit t d (g, snd st);;
      ps_if <- or_last (fst (fst res)) (snd res);;
      match e with
      | Some e =>
          g <- complete (fst (fst res)) (lift_meta (Ast.stmt_meta e)) [cur] d;;
          res <- visit e d (g, snd (fst res));;
          ps_else <- or_last (fst (fst res)) (snd res);;
          Ok (fst res, Lift.iunion ps_if ps_else)
      | None => Ok (fst res, Lift.ins cur ps_if)
      end
  | Ast.Declaration m t name dims _ =>
      v <- lift_name name;;
      dims' <- lift_exprs dims;;
      ds <- decls_add {| xd_name := v; xd_type := lift_type t; xd_dims := dims';
                         xd_file := Ast.m_file m; xd_loc := meta_loc m |} (snd st);;
      x <- lift_stmt s;;
      g <- upd_last (push_stmt x) (fst st);;
      Ok ((g, ds), [])
  | _ =>
      x <- lift_stmt s;;
      g <- upd_last (push_stmt x) (fst st);;
      Ok ((g, snd st), [])
  end.

(* build_basic_blocks *)
Definition build_basic_blocks (body : Ast.statement) (ds : xdecls) : outcome lstate :=
  match body with
  | Ast.Block m _ =>
      res <- visit body 0 ([new_block (lift_meta m) 0 0], ds);;
      Ok (fst res)
  | _ => Panic site_body_not_block
  end.

(* ------------------------------------------------------------------------ *)
(* Cfg::propagate_types, statement level                                     *)
(* ------------------------------------------------------------------------ *)
(* `if let Some(var_type) = vars.get_type(var) { meta.type_knowledge_mut().set_variable_type(var_type) }`:
   a freshly lifted substitution has no type knowledge *)
Definition propagate_types_stmt (ds : xdecls) (s : xstmt) : xstmt :=
  match s with
  | XSubst m v op rhe old =>
      XSubst m v op rhe (match decls_get_type v ds with Some t => Some t | None => old end)
  | _ => s
  end.

Definition propagate_types_block (ds : xdecls) (b : xblock) : xblock :=
  XBlock (xb_meta b) (xb_index b) (xb_depth b) (map (propagate_types_stmt ds) (xb_stmts b)) (xb_preds b) (xb_succs b).

(* ------------------------------------------------------------------------ *)
(* try_lift_impl                                                             *)
(* ------------------------------------------------------------------------ *)
Record lifted := { l_cfg : xcfg; l_reports : list shadow_report }.

Definition try_lift_impl (kind : Ir.defkind) (params : list string) (pfile : option N) (ploc : floc)
    (body : Ast.statement) : outcome lifted :=
  (* Parameters::new: VariableName::from_string of every parameter *)
  let pnames := map vname_plain params in
  (* 1. ensure_unique_variables *)
  u <- ensure_unique_variables params pfile ploc body;;
  (* 2. LiftingEnvironment::from(&parameters), build_basic_blocks *)
  ds <- decls_of_params pnames pfile ploc [];;
  st <- build_basic_blocks (fst u) ds;;
  (* 3. propagate_types *)
  Ok {| l_cfg := {| xc_kind := kind; xc_params := pnames; xc_pfile := pfile; xc_ploc := ploc;
                    xc_decls := snd st;
                    xc_blocks := map (propagate_types_block (snd st)) (fst st) |};
        l_reports := snd u |}.

(* ------------------------------------------------------------------------ *)
(* erasure onto Model.Ir                                                     *)
(* ------------------------------------------------------------------------ *)
Fixpoint erase_expr (e : xexpr) {struct e} : Ir.expr :=
  let erase_acc (a : Ir.access xexpr) : Ir.access Ir.expr :=
    match a with Ir.AIdx i => Ir.AIdx (erase_expr i) | Ir.AComp n => Ir.AComp n end in
  match e with
  | XNum _ z => Ir.ENum z Ir.know0
  | XVar _ v => Ir.EVar v Ir.know0
  | XInfix _ op l r => Ir.EInfix op (erase_expr l) (erase_expr r) Ir.know0
  | XPrefix _ op x => Ir.EPrefix op (erase_expr x) Ir.know0
  | XSwitch _ c t f => Ir.ESwitch (erase_expr c) (erase_expr t) (erase_expr f) Ir.know0
  | XCall _ n args => Ir.ECall (bytes n) (map erase_expr args) Ir.know0
  | XArray _ vs => Ir.EArray (map erase_expr vs) Ir.know0
  | XAccess _ v acc => Ir.EAccess v (map erase_acc acc) Ir.know0
  | XUpdate _ v acc r => Ir.EUpdate v (map erase_acc acc) (erase_expr r) Ir.know0
  end.

Definition erase_logarg (a : xlogarg) : Ir.logarg :=
  match a with XLStr _ => Ir.LStr | XLExpr e => Ir.LExpr (erase_expr e) end.

Definition erase_stmt (s : xstmt) : Ir.stmt :=
  match s with
  | XDecl m names t dims => Ir.SDecl m names (fst t) (map erase_expr dims)
  | XIf m c t f => Ir.SIf m (erase_expr c) (N.of_nat t) (option_map N.of_nat f)
  | XRet m e => Ir.SRet m (erase_expr e)
  | XSubst m v op rhe st => Ir.SSubst m v op (erase_expr rhe) None (option_map fst st)
  | XCeq m l r => Ir.SCeq m (erase_expr l) (erase_expr r)
  | XLog m args => Ir.SLog m (map erase_logarg args)
  | XAssert m e => Ir.SAssert m (erase_expr e)
  end.

Definition erase_block (b : xblock) : Ir.block :=
  {| Ir.b_index := N.of_nat (xb_index b); Ir.b_depth := N.of_nat (xb_depth b);
     Ir.b_stmts := map erase_stmt (xb_stmts b);
     Ir.b_preds := map N.of_nat (xb_preds b); Ir.b_succs := map N.of_nat (xb_succs b) |}.

Definition erase_cfg (c : xcfg) : Ir.cfg :=
  {| Ir.c_kind := xc_kind c; Ir.c_params := xc_params c;
     Ir.c_decls := map (fun d => (xd_name d, fst (xd_type d))) (xc_decls c);
     Ir.c_blocks := map erase_block (xc_blocks c) |}.

(* the mirror as a function onto Model.Ir *)
Definition lift_to_ir (kind : Ir.defkind) (params : list string) (pfile : option N) (ploc : floc)
    (body : Ast.statement) : outcome Ir.cfg :=
  r <- try_lift_impl kind params pfile ploc body;; Ok (erase_cfg (l_cfg r)).

(* ------------------------------------------------------------------------ *)
(* views used by the theorems                                                *)
(* ------------------------------------------------------------------------ *)
(* The skeleton of a body (what Model.Lift looks at).  A leaf statement and a
   condition are identified by [key] of their meta, for an arbitrary [key]. *)
Section Skeleton.
  Context (key : Ir.meta -> nat).

  Definition is_return (s : Ast.statement) : bool :=
    match s with Ast.Return _ _ => true | _ => false end.

  Fixpoint skel (s : Ast.statement) {struct s} : Lift.sk :=
    match s with
    | Ast.InitializationBlock _ _ ss => Lift.SInit (map skel ss)
    | Ast.Block _ ss => Lift.SBlock (map skel ss)
    | Ast.While m _ b => Lift.SWhile (key (lift_meta m)) (skel b)
    | Ast.IfThenElse m _ t e => Lift.SIf (key (lift_meta m)) (skel t) (option_map skel e)
    | _ => Lift.SLeaf (key (lift_meta (Ast.stmt_meta s))) (is_return s)
    end.

  (* forgetting the content of an IR statement *)
  Definition skel_item (x : xstmt) : Lift.item :=
    match x with
    | XIf m _ t f => Lift.IBranch (key m) t f
    | _ => Lift.ILeaf (key (xstmt_meta x))
    end.

  Definition skel_block (b : xblock) : Lift.block :=
    Lift.Block (xb_index b) (xb_depth b) (map skel_item (xb_stmts b)) (xb_preds b) (xb_succs b).
End Skeleton.

(* The statements of a body that lifting turns into IR statements, in source
   order: every statement except blocks and initialization blocks (a `while` and
   an `if` give the IfThenElse statement with their meta). *)
Fixpoint lifted_stmts (s : Ast.statement) {struct s} : list Ast.statement :=
  match s with
  | Ast.InitializationBlock _ _ ss => flat_map lifted_stmts ss
  | Ast.Block _ ss => flat_map lifted_stmts ss
  | Ast.While _ _ b => s :: lifted_stmts b
  | Ast.IfThenElse _ _ t e => s :: lifted_stmts t ++ match e with Some e => lifted_stmts e | None => [] end
  | _ => [s]
  end.

(* all IR statements of a graph, block by block *)
Definition graph_stmts (g : xgraph) : list xstmt := flat_map xb_stmts g.

(* the `<--` / `<==` distinction of a source statement *)
Definition is_signal_assignment (s : Ast.statement) : bool :=
  match s with Ast.Substitution _ _ _ Ast.AssignSignal _ => true | _ => false end.
Definition is_xsignal_assignment (x : xstmt) : bool :=
  match x with XSubst _ _ Ir.OpSig _ _ => true | _ => false end.

(* ------------------------------------------------------------------------ *)
(* well-formedness of the input (decidable; evaluated on every case)          *)
(* ------------------------------------------------------------------------ *)
(* no Tuple / AnonymousComponent node *)
Fixpoint expr_sugar_free (e : Ast.expression) {struct e} : bool :=
  let acc_ok (a : Ast.access_of Ast.expression) :=
    match a with Ast.ArrayAccess i => expr_sugar_free i | Ast.ComponentAccess _ => true end in
  match e with
  | Ast.InfixOp _ l _ r => expr_sugar_free l && expr_sugar_free r
  | Ast.PrefixOp _ _ r => expr_sugar_free r
  | Ast.InlineSwitchOp _ c t f => expr_sugar_free c && expr_sugar_free t && expr_sugar_free f
  | Ast.ParallelOp _ r => expr_sugar_free r
  | Ast.Variable_ _ _ acc => forallb acc_ok acc
  | Ast.Number _ _ => true
  | Ast.Call _ _ args => forallb expr_sugar_free args
  | Ast.ArrayInLine _ vs => forallb expr_sugar_free vs
  | Ast.Tuple _ _ | Ast.AnonymousComponent _ _ _ _ _ _ => false
  end.

Definition access_sugar_free (a : Ast.access_of Ast.expression) : bool :=
  match a with Ast.ArrayAccess i => expr_sugar_free i | Ast.ComponentAccess _ => true end.

Definition logarg_sugar_free (a : Ast.log_argument) : bool :=
  match a with Ast.LogExp e => expr_sugar_free e | Ast.LogStr _ => true end.

(* every expression that lifting lifts is free of sugar, and there is no
   multi-substitution (what C18 proves of the desugarer's output) *)
Fixpoint stmt_sugar_free (s : Ast.statement) {struct s} : bool :=
  match s with
  | Ast.IfThenElse _ c t e =>
      expr_sugar_free c && stmt_sugar_free t && match e with Some e => stmt_sugar_free e | None => true end
  | Ast.While _ c b => expr_sugar_free c && stmt_sugar_free b
  | Ast.Return _ v => expr_sugar_free v
  | Ast.InitializationBlock _ _ ss => forallb stmt_sugar_free ss
  | Ast.Declaration _ _ _ dims _ => forallb expr_sugar_free dims
  | Ast.Substitution _ _ acc _ rhe => forallb access_sugar_free acc && expr_sugar_free rhe
  | Ast.MultiSubstitution _ _ _ _ => false
  | Ast.ConstraintEquality _ l r => expr_sugar_free l && expr_sugar_free r
  | Ast.LogCall _ args => forallb logarg_sugar_free args
  | Ast.Block _ ss => forallb stmt_sugar_free ss
  | Ast.Assert _ a => expr_sugar_free a
  end.

(* the shape of Proofs.LiftTotalFlat (C01) on the syntax tree: an entry of an
   initialization block is a statement without control flow, or a block /
   initialization block of such (the parser puts declarations and substitutions
   there, the desugarer may put a block of substitutions) *)
Fixpoint ast_flat (s : Ast.statement) {struct s} : bool :=
  match s with
  | Ast.While _ _ _ | Ast.IfThenElse _ _ _ _ => false
  | Ast.InitializationBlock _ _ ss | Ast.Block _ ss => forallb ast_flat ss
  | _ => true
  end.

Fixpoint ast_init_flat (s : Ast.statement) {struct s} : bool :=
  match s with
  | Ast.InitializationBlock _ _ ss => forallb ast_flat ss
  | Ast.Block _ ss => forallb ast_init_flat ss
  | Ast.While _ _ b => ast_init_flat b
  | Ast.IfThenElse _ _ t e => ast_init_flat t && match e with Some e => ast_init_flat e | None => true end
  | _ => true
  end.

(* the names of the declarations of a body, in visit order *)
Fixpoint declared_names (s : Ast.statement) {struct s} : list string :=
  match s with
  | Ast.Declaration _ _ n _ _ => [n]
  | Ast.InitializationBlock _ _ ss | Ast.Block _ ss => flat_map declared_names ss
  | Ast.While _ _ b => declared_names b
  | Ast.IfThenElse _ _ t e => declared_names t ++ match e with Some e => declared_names e | None => [] end
  | _ => []
  end.

(* pairwise different under the derived Eq of VariableName *)
Fixpoint nodup_names (l : list Ir.vname) : bool :=
  match l with
  | [] => true
  | x :: r => negb (existsb (fun y => Ir.vname_eqb x y) r) && nodup_names r
  end.

Definition names_of_lifted (l : list string) : list Ir.vname :=
  flat_map (fun n => match lift_name n with Ok v => [v] | _ => [] end) l.

(* The decidable well-formedness predicate of the totality theorem
   (Proofs.LiftFullTotal): the body is a block, free of sugar, of the shape the
   desugarer hands on, and the keys handed to Declarations::add_declaration - the
   parameters and the declared names AFTER the renaming pass - are pairwise
   different.  (That the renaming pass makes them different is C10's theorem about
   its mirror Model.UniqueVars; here it is evaluated, on every case.) *)
Definition definition_wf (params : list string) (pfile : option N) (ploc : floc) (body : Ast.statement) : bool :=
  is_block body && stmt_sugar_free body && ast_init_flat body
  && match ensure_unique_variables params pfile ploc body with
     | Ok u => nodup_names (map vname_plain params ++ names_of_lifted (declared_names (fst u)))
     | _ => true
     end.
