(* Mirror of `Cfg::get_successors`, `Cfg::get_interval`, `Cfg::get_true_branch`
   and `Cfg::get_false_branch`
   (/repo/program_structure/src/control_flow_graph/cfg.rs:327-470): the branch
   regions that `run_taint_analysis` uses for the implicit flow "a name read by
   a non-constant condition taints everything written in either branch".

   * `get_successors` / the two loops of `get_interval` are the same `while
     !update.is_subset(&result)` loop as `multi_step_taint`: they are the
     generic [closure_loop] of Model.Taint over block indices, on the relation
     "index -> successor" resp. "index -> predecessor" read from the blocks'
     own `successors()` / `predecessors()` sets (fuel recursion, `OutOfFuel`
     when exhausted; Proofs.BranchRegionProofs shows the fuel suffices).
   * every `get_basic_block(i).expect("in control-flow graph")` and every
     `dominance_frontier[i]` is a `Panic site`: the model first checks that the
     graph is closed (block k has index k, every listed successor / predecessor
     / branch target is a block) and panics otherwise, as the Rust would at the
     first lookup that fails.
   * the dominance frontier is the one of the mirror of `DominatorTree::new`
     (Model.Dom, property C15) run on the blocks' predecessor / successor sets,
     as `Cfg::new` does. The frontier does not depend on the iteration order
     parameter of that mirror (C15_frontier_exact).
   * results are `Vec`s that the consumer only iterates to take the union of
     the blocks' written names; they are handed out canonicalised (sorted,
     duplicate free), the form in which the harness prints the real ones.
   Definitions only. *)
From Coq Require Import ZArith NArith List Bool.
Require Import Model.Base Model.Ir Model.VarUse Model.Taint.
Require Model.Dom.
Import ListNotations.

Definition site_region_lookup : Z := 1901.    (* get_basic_block(..).expect("in control-flow graph") / dominance_frontier[i] *)

Notation nedges := (list (N * N)).

(* index -> successor, index -> predecessor, as the blocks list them *)
Definition succ_edges (bs : list block) : nedges :=
  flat_map (fun b => map (fun s => (b_index b, s)) (b_succs b)) bs.
Definition pred_edges (bs : list block) : nedges :=
  flat_map (fun b => map (fun p => (b_index b, p)) (b_preds b)) bs.

Definition nmem := mem N.eqb.

Definition has_block (bs : list block) (i : N) : bool := existsb (fun b => N.eqb (b_index b) i) bs.

Fixpoint indices_from (k : N) (bs : list block) : bool :=
  match bs with
  | [] => true
  | b :: r => N.eqb (b_index b) k && indices_from (N.succ k) r
  end.

Definition if_targets (b : block) : list N :=
  flat_map (fun s => match s with
                     | SIf _ _ t f => t :: match f with Some x => [x] | None => [] end
                     | _ => []
                     end) (b_stmts b).

(* every lookup the Rust code can make succeeds *)
Definition graph_closed (bs : list block) : bool :=
  indices_from 0 bs &&
  forallb (fun b => forallb (has_block bs) (b_succs b ++ b_preds b ++ if_targets b)) bs.

(* the `while !update.is_subset(&successors)` loops: zero or more steps from x *)
Definition reach (m : nedges) (x : N) : outcome (list N) := multi_step_refl N.eqb m x.

(* get_successors: the closure, `successors.remove(&basic_block.index())` *)
Definition get_successors (bs : list block) (x : N) : outcome (list N) :=
  r <- reach (succ_edges bs) x ;; Ok (filter (fun y => negb (N.eqb y x)) r).

(* get_interval: successors*(start) /\ (predecessors*(end) \ {end}) *)
Definition get_interval (bs : list block) (s e : N) : outcome (list N) :=
  su <- reach (succ_edges bs) s ;;
  pr <- reach (pred_edges bs) e ;;
  let pr' := filter (fun y => negb (N.eqb y e)) pr in
  Ok (filter (fun y => nmem y pr') su).

Definition frontier_of (t : Dom.dom_tree) (i : N) : list N :=
  map N.of_nat (Dom.members (nth (N.to_nat i) (Dom.dt_frontier t) 0%N)).

Fixpoint mapM_o {A B} (f : A -> outcome B) (l : list A) : outcome (list B) :=
  match l with
  | [] => Ok []
  | x :: r => y <- f x ;; ys <- mapM_o f r ;; Ok (y :: ys)
  end.

(* the common part of get_true_branch / get_false_branch from the start block on *)
Definition branch_from (bs : list block) (t : Dom.dom_tree) (start : N) : outcome (list N) :=
  match frontier_of t start with
  | [] =>
    (* "True and false branches do not join up." *)
    r <- get_successors bs start ;; Ok (r ++ [start])
  | ends =>
    (* "True and false branches join up at the dominance frontier."
       for end_block in end_blocks { result.extend(self.get_interval(start_block, end_block)) } *)
    l <- mapM_o (get_interval bs start) ends ;; Ok (concat l)
  end.

Definition true_branch (bs : list block) (t : Dom.dom_tree) (ti : N) : outcome (list N) :=
  branch_from bs t ti.

Definition false_branch (bs : list block) (t : Dom.dom_tree) (ti : N) (fi : option N) : outcome (list N) :=
  match fi with
  | None => Ok []
  | Some f =>
    if nmem f (frontier_of t ti) then Ok []          (* "The false branch is empty." *)
    else branch_from bs t f
  end.

(* sorted, duplicate-free lists of block indices *)
Fixpoint ninsert (x : N) (l : list N) : list N :=
  match l with
  | [] => [x]
  | y :: r => match N.compare x y with
              | Lt => x :: l
              | Eq => l
              | Gt => y :: ninsert x r
              end
  end.
Definition ncanon (l : list N) : list N := fold_right ninsert [] l.

(* header_block.statements().last() *)
Definition last_if (b : block) : option (N * option N) :=
  match rev (b_stmts b) with
  | SIf _ _ t f :: _ => Some (t, f)
  | _ => None
  end.

(* DominatorTree::new(&basic_blocks) reads the predecessor and successor sets *)
Definition dom_graph (bs : list block) : list Dom.node :=
  map (fun b => Dom.Node (map N.to_nat (b_preds b)) (map N.to_nat (b_succs b))) bs.

(* the regions of every block that ends in an if-statement *)
Definition branches_of (g : cfg) : outcome branches :=
  let bs := c_blocks g in
  if negb (graph_closed bs) then Panic site_region_lookup
  else
    let dg := dom_graph bs in
    t <- Dom.dominator_tree (Dom.dom_fuel dg) Dom.id_order dg ;;
    l <- mapM_o (fun b =>
           match last_if b with
           | None => Ok []
           | Some (ti, fi) =>
             tb <- true_branch bs t ti ;;
             fb <- false_branch bs t ti fi ;;
             Ok [(b_index b, (ncanon tb, ncanon fb))]
           end) bs ;;
    Ok (concat l).

(* statistics for the evidence: the largest dominance frontier of a block at which a branch region starts
   (the `for end_block in end_blocks` loops run over it). On every graph the lifting produces it is <= 1:
   the body of a branch or loop starts at a fresh block and is left at one place (the join or the loop header). *)
Definition start_frontier_max (g : cfg) : outcome nat :=
  let bs := c_blocks g in
  if negb (graph_closed bs) then Panic site_region_lookup
  else
    let dg := dom_graph bs in
    t <- Dom.dominator_tree (Dom.dom_fuel dg) Dom.id_order dg ;;
    Ok (fold_right Nat.max O
          (flat_map (fun b => match last_if b with
                              | None => []
                              | Some (ti, fi) =>
                                length (frontier_of t ti) ::
                                match fi with Some f => [length (frontier_of t f)] | None => [] end
                              end) bs)).
