(* Mirror of /repo/program_structure/src/control_flow_graph/unique_vars.rs
   (`ensure_unique_variables`), of the scoped environment it uses
   (/repo/program_structure/src/utils/environment.rs, `VarEnvironment`), of the
   `name.suffix` split of intermediate_representation/lifting.rs
   (`TryLift for String`) and of the key of the SSA version maps
   (control_flow_graph/ssa_impl.rs, `Environment::version_key`, and the key
   used before the repair of D20).

   The AST is the *named projection*: statements keep their structure,
   expressions are reduced to the list of variable names they mention, in the
   order in which `visit_expression` reaches them (an expression never changes
   the environment, so only that list matters).

   Definitions only. *)
From Coq Require Import List NArith Arith Bool Decimal DecimalNat.
Require Import Model.Base Model.Ir.
Import ListNotations.

Notation name := ident.                       (* list N, UTF-8 bytes *)
Definition loc := (nat * nat)%type.           (* FileLocation: start..end *)

Definition name_eqb (a b : name) : bool := ident_eqb a b.

(* ------------------------------------------------------------------ *)
(* the named projection of ast::Statement                              *)
(* ------------------------------------------------------------------ *)

Inductive dkind := KVar | KSignal | KComponent | KAnon.
(* statements that only contain expressions *)
Inductive ekind := EMulti | ELog | EReturn | ECeq | EAssert.

Inductive ustmt :=
| UBlock (ss : list ustmt)
| UInit (ss : list ustmt)                                  (* InitializationBlock *)
| UDecl (k : dkind) (n : name) (l : loc) (dims : list name) (* Declaration: meta location, names used in the dimensions *)
| USubst (n : name) (uses : list name)                     (* Substitution: var; access indices then rhe *)
| UExpr (k : ekind) (uses : list name)
| UWhile (cond : list name) (body : ustmt)
| UIf (cond : list name) (t : ustmt) (e : option ustmt).

(* ------------------------------------------------------------------ *)
(* environment.rs: VarEnvironment<V> = Vec<VariableBlock<V>>           *)
(* ------------------------------------------------------------------ *)

(* A block is a HashMap; it is only ever inserted into and looked up, so an
   association list with insertion at the head and first-match lookup behaves
   the same. The innermost block is the head of the list (Rust: the last
   element of the Vec). *)
Notation venv V := (list (list (name * V))).

Fixpoint assoc {V} (n : name) (b : list (name * V)) : option V :=
  match b with
  | [] => None
  | (m, v) :: r => if name_eqb n m then Some v else assoc n r
  end.

(* block_with_variable_symbol + get_variable *)
Fixpoint get_variable {V} (n : name) (e : venv V) : option V :=
  match e with
  | [] => None
  | b :: r => match assoc n b with Some v => Some v | None => get_variable n r end
  end.

(* panic sites: the two `assert!(!self.variables.is_empty())` *)
Definition site_add_variable : Z := 1001.
Definition site_remove_block : Z := 1002.
Definition site_not_a_block : Z := 1003.

Definition env_new {V} : venv V := [[]].                   (* vec![VariableBlock::new()] *)
Definition add_variable_block {V} (e : venv V) : venv V := [] :: e.
Definition remove_variable_block {V} (e : venv V) : outcome (venv V) :=
  match e with [] => Panic site_remove_block | _ :: r => Ok r end.
Definition add_variable {V} (n : name) (v : V) (e : venv V) : outcome (venv V) :=
  match e with [] => Panic site_add_variable | b :: r => Ok (((n, v) :: b) :: r) end.

(* ------------------------------------------------------------------ *)
(* unique_vars.rs                                                      *)
(* ------------------------------------------------------------------ *)

Record denv := {
  declarations : venv loc;              (* last seen declaration, scoped *)
  scoped_versions : venv nat;           (* current version, scoped *)
  global_versions : venv (option nat)   (* maximum version, one block only *)
}.

Definition denv_new : denv :=
  {| declarations := env_new; scoped_versions := env_new; global_versions := env_new |}.

Definition get_declaration (n : name) (e : denv) : option loc := get_variable n (declarations e).
Definition get_current_version (n : name) (e : denv) : option nat := get_variable n (scoped_versions e).

(* get_next_version *)
Definition get_next_version (n : name) (e : denv) : outcome (option nat * denv) :=
  let version :=
    match get_variable n (global_versions e) with
    | None => None
    | Some None => Some 0
    | Some (Some v) => Some (v + 1)
    end in
  g <- add_variable n version (global_versions e) ;;
  match version with
  | None => Ok (None, {| declarations := declarations e; scoped_versions := scoped_versions e; global_versions := g |})
  | Some v =>
    s <- add_variable n v (scoped_versions e) ;;
    Ok (Some v, {| declarations := declarations e; scoped_versions := s; global_versions := g |})
  end.

Definition add_declaration (n : name) (l : loc) (e : denv) : outcome (option nat * denv) :=
  d <- add_variable n l (declarations e) ;;
  get_next_version n {| declarations := d; scoped_versions := scoped_versions e; global_versions := global_versions e |}.

Definition denv_add_block (e : denv) : denv :=
  {| declarations := add_variable_block (declarations e);
     scoped_versions := add_variable_block (scoped_versions e);
     global_versions := global_versions e |}.

Definition denv_remove_block (e : denv) : outcome denv :=
  d <- remove_variable_block (declarations e) ;;
  s <- remove_variable_block (scoped_versions e) ;;
  Ok {| declarations := d; scoped_versions := s; global_versions := global_versions e |}.

(* format!("{name}.{version}") *)
Fixpoint bytes_of_uint (d : uint) : list N :=
  match d with
  | Nil => []
  | D0 d => 48%N :: bytes_of_uint d | D1 d => 49%N :: bytes_of_uint d
  | D2 d => 50%N :: bytes_of_uint d | D3 d => 51%N :: bytes_of_uint d
  | D4 d => 52%N :: bytes_of_uint d | D5 d => 53%N :: bytes_of_uint d
  | D6 d => 54%N :: bytes_of_uint d | D7 d => 55%N :: bytes_of_uint d
  | D8 d => 56%N :: bytes_of_uint d | D9 d => 57%N :: bytes_of_uint d
  end.
Definition show_nat (n : nat) : list N := bytes_of_uint (Nat.to_uint n).
Definition dot : N := 46%N.
Definition underscore : N := 95%N.
Definition with_version_suffix (n : name) (v : nat) : name := n ++ dot :: show_nat v.

(* the renaming of an occurrence: `match env.get_current_version(name)` *)
Definition rename_use (e : denv) (n : name) : name :=
  match get_current_version n e with
  | Some v => with_version_suffix n v
  | None => n
  end.

(* ShadowingVariableWarning / ParameterNameCollisionError *)
Inductive report :=
| Shadowing (n : name) (primary secondary : loc)
| ParamCollision (n : name) (l : loc).

Definition vstate := (denv * list report)%type.             (* reports in push order *)

Section MapFold.
  Context {A B S : Type} (f : A -> S -> outcome (B * S)).
  Fixpoint mapfold (l : list A) (st : S) : outcome (list B * S) :=
    match l with
    | [] => Ok ([], st)
    | a :: r =>
      match f a st with
      | Ok (b, st1) =>
        match mapfold r st1 with
        | Ok (bs, st2) => Ok (b :: bs, st2)
        | Err e => Err e | Panic s => Panic s | OutOfFuel => OutOfFuel
        end
      | Err e => Err e | Panic s => Panic s | OutOfFuel => OutOfFuel
      end
    end.
End MapFold.

(* visit_statement: returns the renamed statement and the new state *)
Fixpoint visit (s : ustmt) (st : vstate) : outcome (ustmt * vstate) :=
  let '(env, reports) := st in
  match s with
  | UDecl k n l dims =>
    let dims' := map (rename_use env) dims in
    let reports' :=
      match get_declaration n env with
      | Some prev => reports ++ [Shadowing n l prev]
      | None => reports
      end in
    match add_declaration n l env with
    | Ok (None, env') => Ok (UDecl k n l dims', (env', reports'))
    | Ok (Some v, env') => Ok (UDecl k (with_version_suffix n v) l dims', (env', reports'))
    | Err e => Err e | Panic p => Panic p | OutOfFuel => OutOfFuel
    end
  | USubst n uses =>
    Ok (USubst (rename_use env n) (map (rename_use env) uses), st)
  | UExpr k uses => Ok (UExpr k (map (rename_use env) uses), st)
  | UInit ss =>
    match mapfold visit ss st with
    | Ok (ss', st') => Ok (UInit ss', st')
    | Err e => Err e | Panic p => Panic p | OutOfFuel => OutOfFuel
    end
  | UWhile cond body =>
    match visit body st with
    | Ok (body', st') => Ok (UWhile (map (rename_use env) cond) body', st')
    | Err e => Err e | Panic p => Panic p | OutOfFuel => OutOfFuel
    end
  | UBlock ss =>
    match mapfold visit ss (denv_add_block env, reports) with
    | Ok (ss', (env', reports')) =>
      match denv_remove_block env' with
      | Ok env'' => Ok (UBlock ss', (env'', reports'))
      | Err e => Err e | Panic p => Panic p | OutOfFuel => OutOfFuel
      end
    | Err e => Err e | Panic p => Panic p | OutOfFuel => OutOfFuel
    end
  | UIf cond t e =>
    match visit t st with
    | Ok (t', st1) =>
      match e with
      | None => Ok (UIf (map (rename_use env) cond) t' None, st1)
      | Some e0 =>
        match visit e0 st1 with
        | Ok (e', st2) => Ok (UIf (map (rename_use env) cond) t' (Some e'), st2)
        | Err x => Err x | Panic p => Panic p | OutOfFuel => OutOfFuel
        end
      end
    | Err x => Err x | Panic p => Panic p | OutOfFuel => OutOfFuel
    end
  end.

(* TryFrom<&Parameters> for DeclarationEnvironment: the first parameter whose
   declaration needs a version is reported *)
Inductive uresult :=
| Renamed (body : ustmt) (reports : list report)
| Collision (r : report)
| Panicked (site : Z).

Fixpoint env_of_params (ps : list name) (ploc : loc) (e : denv) : outcome (denv + report) :=
  match ps with
  | [] => Ok (inl e)
  | p :: r =>
    match add_declaration p ploc e with
    | Ok (None, e') => env_of_params r ploc e'
    | Ok (Some _, _) => Ok (inr (ParamCollision p ploc))
    | Err x => Err x | Panic s => Panic s | OutOfFuel => OutOfFuel
    end
  end.

Definition is_block (s : ustmt) : bool := match s with UBlock _ => true | _ => false end.

(* ensure_unique_variables *)
Definition ensure_unique_variables (params : list name) (ploc : loc) (body : ustmt) : uresult :=
  if negb (is_block body) then Panicked site_not_a_block
  else
    match env_of_params params ploc denv_new with
    | Ok (inr r) => Collision r
    | Ok (inl env) =>
      match visit body (env, []) with
      | Ok (body', (_, reports)) => Renamed body' reports
      | Panic s => Panicked s
      | _ => Panicked 0
      end
    | Panic s => Panicked s
    | _ => Panicked 0
    end.

(* ------------------------------------------------------------------ *)
(* occurrences, in visit order                                         *)
(* ------------------------------------------------------------------ *)

Inductive okind := ODecl | OTarget | OUse.

Fixpoint occs (s : ustmt) : list (okind * name) :=
  match s with
  | UBlock ss | UInit ss => flat_map occs ss
  | UDecl _ n _ dims => map (pair OUse) dims ++ [(ODecl, n)]
  | USubst n uses => (OTarget, n) :: map (pair OUse) uses
  | UExpr _ uses => map (pair OUse) uses
  | UWhile c b => map (pair OUse) c ++ occs b
  | UIf c t e => map (pair OUse) c ++ occs t ++ match e with Some e0 => occs e0 | None => [] end
  end.

(* ------------------------------------------------------------------ *)
(* lifting.rs: TryLift<&Meta> for String                               *)
(* ------------------------------------------------------------------ *)

(* str::split('.') *)
Fixpoint split_dot (s : list N) : list (list N) :=
  match s with
  | [] => [[]]
  | c :: r =>
    if N.eqb c dot then [] :: split_dot r
    else match split_dot r with
         | [] => [[c]]                      (* unreachable: split_dot is never empty *)
         | h :: t => (c :: h) :: t
         end
  end.

Definition vname_plain (n : name) : vname := {| vn_name := n; vn_suffix := None; vn_version := None |}.

(* None: InvalidVariableNameError *)
Definition lift_name (s : name) : option vname :=
  match split_dot s with
  | [a] => Some (vname_plain a)
  | [a; b] => Some {| vn_name := a; vn_suffix := Some b; vn_version := None |}
  | _ => None
  end.

(* the inverse direction, as the renaming pass builds it *)
Definition join_name (v : vname) : name :=
  match vn_suffix v with
  | Some s => vn_name v ++ dot :: s
  | None => vn_name v
  end.

(* ------------------------------------------------------------------ *)
(* control_flow_graph/lifting.rs + intermediate_representation/        *)
(* declarations.rs: the `Declarations` table of the CFG header         *)
(* ------------------------------------------------------------------ *)

(* the Declaration statements of a (renamed) body in visit order: the order in
   which control_flow_graph/lifting.rs::visit_statement reaches them *)
Fixpoint decl_entries (s : ustmt) : list (name * (loc * dkind)) :=
  match s with
  | UBlock ss | UInit ss => flat_map decl_entries ss
  | UDecl k n l _ => [(n, (l, k))]
  | USubst _ _ | UExpr _ _ => []
  | UWhile _ b => decl_entries b
  | UIf _ t e => decl_entries t ++ match e with Some e0 => decl_entries e0 | None => [] end
  end.

(* HashMap<VariableName, Declaration>: only inserted into and looked up by key,
   so an association list in insertion order behaves the same *)
Definition dtable := list (vname * (loc * dkind)).

Fixpoint tab_find (v : vname) (t : dtable) : option (loc * dkind) :=
  match t with
  | [] => None
  | (w, d) :: r => if vname_eqb v w then Some d else tab_find v r
  end.

(* Declarations::add_declaration: assert!(self.0.insert(..).is_none()) *)
Definition site_already_tracked : Z := 1004.
Definition tab_add (v : vname) (d : loc * dkind) (t : dtable) : outcome dtable :=
  match tab_find v t with
  | Some _ => Panic site_already_tracked
  | None => Ok (t ++ [(v, d)])
  end.

(* Declarations::get_declaration: self.0.get(&name.without_version()) *)
Definition get_declaration_of (v : vname) (t : dtable) : option (loc * dkind) :=
  tab_find (without_version v) t.

(* one add_declaration per Declaration statement, the name lifted by
   `TryLift for String`; Ok None: InvalidVariableNameError *)
Fixpoint tab_add_all (es : list (name * (loc * dkind))) (t : dtable) : outcome (option dtable) :=
  match es with
  | [] => Ok (Some t)
  | (n, d) :: r =>
    match lift_name n with
    | None => Ok None
    | Some v =>
      match tab_add v d t with
      | Ok t' => tab_add_all r t'
      | Err e => Err e | Panic s => Panic s | OutOfFuel => OutOfFuel
      end
    end
  end.

(* From<&Parameters> for LiftingEnvironment: VariableName::from_string(p) (no
   split), type Local, the location of the parameter list *)
Fixpoint tab_add_params (ps : list name) (ploc : loc) (t : dtable) : outcome dtable :=
  match ps with
  | [] => Ok t
  | p :: r =>
    match tab_add (vname_plain p) (ploc, KVar) t with
    | Ok t' => tab_add_params r ploc t'
    | Err e => Err e | Panic s => Panic s | OutOfFuel => OutOfFuel
    end
  end.

Definition build_table (params : list name) (ploc : loc) (body' : ustmt) : outcome (option dtable) :=
  match tab_add_params params ploc [] with
  | Ok t => tab_add_all (decl_entries body') t
  | Err e => Err e | Panic s => Panic s | OutOfFuel => OutOfFuel
  end.

(* ------------------------------------------------------------------ *)
(* ssa_impl.rs: the key of the version maps                            *)
(* ------------------------------------------------------------------ *)

(* before the repair: format!("{:?}", name.without_version()) = name [_suffix] *)
Definition ssa_key_old (v : vname) : list N :=
  match vn_suffix v with
  | Some s => vn_name v ++ underscore :: s
  | None => vn_name v
  end.

(* Environment::version_key, after the repair:
     match name.suffix() { Some(suffix) => format!("{}.{}", name.name(), suffix),
                           None => name.name().to_string() }
   as the list of pieces each arm concatenates.  The function is private, so
   the key string itself cannot be observed; what the rest of the code depends
   on is only WHICH variables share a key.  That is observed on every run
   through into_ssa (identifiers that look like a suffixed or versioned name
   next to shadowed declarations: a key that identifies two (name, suffix)
   pairs makes them share a version counter, lib/props/C10.py `ssa_failures`).
   lib/props/c10key.py additionally reads the two arms from the text of
   ssa_impl.rs as a LINT outside the proof obligations. *)
Inductive kpiece := KName | KSuffix | KLit (bytes : list N).

Definition render_key (ps : list kpiece) (n s : list N) : list N :=
  flat_map (fun p => match p with KName => n | KSuffix => s | KLit b => b end) ps.

Definition ssa_key_with (some none : list kpiece) (v : vname) : list N :=
  match vn_suffix v with
  | Some s => render_key some (vn_name v) s
  | None => render_key none (vn_name v) []
  end.

Definition version_key_some : list kpiece := [KName; KLit [dot]; KSuffix].
Definition version_key_none : list kpiece := [KName].
Definition ssa_key (v : vname) : list N := ssa_key_with version_key_some version_key_none v.

(* IDENTIFIER of lang.lalrpop: [$_]*[a-zA-Z][a-zA-Z$_0-9]*; what matters
   here is only that an identifier contains no `.` *)
Definition ident_char (c : N) : bool :=
  (N.leb 97 c && N.leb c 122) || (N.leb 65 c && N.leb c 90) || (N.leb 48 c && N.leb c 57)
  || N.eqb c 36 || N.eqb c underscore.
Definition ident_ok (n : name) : bool := forallb ident_char n.

(* The decision behind the injectivity of the key: without a suffix the key is
   the name; with one it is name, then a non-empty literal whose FIRST byte
   cannot occur in an identifier, then the suffix.  (`{}{}`, `{}_{}`, `{}${}`
   fail it; `{}.{}` passes.) *)
Definition key_format_ok (some none : list kpiece) : bool :=
  match none, some with
  | [KName], [KName; KLit (c :: _); KSuffix] => negb (ident_char c)
  | _, _ => false
  end.
