(* C12, fourth audit: decision procedures for the specification predicates of
   Spec.IrCfgSpec, so that the check can evaluate them on the REAL graphs the
   harness dumps before and after `into_ssa` (engine `liftfull`, mode `c12`):
     ssa_shape_b c c'   decides  IrCfgSpec.ssa_shape_of c c'   (same frames; every block of c' is
                        top-level phi assignments followed by the statements of the block of c,
                        one for one and of the same kind, none a phi assignment)
     cfg_wf_b c         implies  IrCfgSpec.cfg_wf c: the seven local clauses are decided as they
                        stand; reachability, "dominates implies <=" and the descending paths follow
                        from ONE sufficient condition that lifted graphs meet: every block but the
                        first has a predecessor with a smaller index (pred_below_b)
   Soundness: Proofs.IrCfgCheckSound.  Executable definitions only. *)
From Coq Require Import NArith List Bool Arith.
Require Import Model.Ir.
Require Model.SignalAssign.
Import ListNotations.

Definition is_phi_b (s : stmt) : bool :=
  match s with SSubst _ _ _ (EPhi _ _) _ _ => true | _ => false end.

Definition is_branch_b (s : stmt) : bool :=
  match s with SIf _ _ _ _ => true | _ => false end.

Definition op_eqb (a b : assign_op) : bool :=
  match a, b with OpSig, OpSig | OpCSig, OpCSig | OpVar, OpVar => true | _, _ => false end.

Definition same_kind_b (a b : stmt) : bool :=
  match a, b with
  | SDecl m _ t _, SDecl m' _ t' _ => SignalAssign.meta_eqb m m' && vtype_eqb t t'
  | SIf m _ t f, SIf m' _ t' f' => SignalAssign.meta_eqb m m' && N.eqb t t' && opt_eqb N.eqb f f'
  | SRet m _, SRet m' _ => SignalAssign.meta_eqb m m'
  | SSubst m _ op _ _ _, SSubst m' _ op' _ _ _ => SignalAssign.meta_eqb m m' && op_eqb op op'
  | SCeq m _ _, SCeq m' _ _ => SignalAssign.meta_eqb m m'
  | SLog m _, SLog m' _ => SignalAssign.meta_eqb m m'
  | SAssert m _, SAssert m' _ => SignalAssign.meta_eqb m m'
  | _, _ => false
  end.

Fixpoint list_eqb {A} (eqb : A -> A -> bool) (l k : list A) : bool :=
  match l, k with
  | [], [] => true
  | x :: l', y :: k' => eqb x y && list_eqb eqb l' k'
  | _, _ => false
  end.

Definition same_frame_b (b b' : block) : bool :=
  N.eqb (b_index b') (b_index b) && N.eqb (b_depth b') (b_depth b)
  && list_eqb N.eqb (b_preds b') (b_preds b) && list_eqb N.eqb (b_succs b') (b_succs b).

(* the statements behind the leading phi assignments *)
Fixpoint drop_phis (l : list stmt) : list stmt :=
  match l with
  | s :: r => if is_phi_b s then drop_phis r else l
  | [] => []
  end.

Fixpoint forall2b {A B} (p : A -> B -> bool) (l : list A) (k : list B) : bool :=
  match l, k with
  | [], [] => true
  | x :: l', y :: k' => p x y && forall2b p l' k'
  | _, _ => false
  end.

Definition phis_then_image_b (b b' : block) : bool :=
  let body := drop_phis (b_stmts b') in
  forallb (fun s => negb (is_phi_b s)) body && forall2b same_kind_b (b_stmts b) body.

Definition ssa_shape_b (c c' : cfg) : bool :=
  forall2b (fun b b' => same_frame_b b b' && phis_then_image_b b b') (c_blocks c) (c_blocks c').

(* ---- cfg_wf ---- *)
Definition nblocks (c : cfg) : nat := length (c_blocks c).

Fixpoint indexed {A} (i : nat) (l : list A) : list (nat * A) :=
  match l with [] => [] | x :: r => (i, x) :: indexed (S i) r end.

Definition memN (x : N) (l : list N) : bool := existsb (N.eqb x) l.

Definition index_is_position_b (c : cfg) : bool :=
  forallb (fun ib => N.eqb (b_index (snd ib)) (N.of_nat (fst ib))) (indexed 0 (c_blocks c)).

Definition entry_no_pred_b (c : cfg) : bool :=
  match c_blocks c with b0 :: _ => match b_preds b0 with [] => true | _ => false end | [] => false end.

Definition edges_in_range_b (c : cfg) : bool :=
  forallb (fun b => forallb (fun x => N.to_nat x <? nblocks c) (b_succs b ++ b_preds b)) (c_blocks c).

(* j in succs i -> i in preds j, and back *)
Definition mirror_b (c : cfg) : bool :=
  forallb (fun ib =>
    forallb (fun j => match nth_error (c_blocks c) (N.to_nat j) with
                      | Some bj => memN (N.of_nat (fst ib)) (b_preds bj) | None => false end) (b_succs (snd ib))
    && forallb (fun j => match nth_error (c_blocks c) (N.to_nat j) with
                         | Some bj => memN (N.of_nat (fst ib)) (b_succs bj) | None => false end) (b_preds (snd ib)))
    (indexed 0 (c_blocks c)).

Fixpoint branch_only_last_l (l : list stmt) : bool :=
  match l with
  | [] => true
  | [s] => true
  | s :: r => negb (is_branch_b s) && branch_only_last_l r
  end.

Definition branch_only_last_b (c : cfg) : bool :=
  forallb (fun b => branch_only_last_l (b_stmts b)) (c_blocks c).

Definition last_stmt (b : block) : option stmt :=
  nth_error (b_stmts b) (pred (length (b_stmts b))).

Definition branch_targets_ok_b (c : cfg) : bool :=
  forallb (fun ib =>
    match last_stmt (snd ib) with
    | Some (SIf _ _ t f) =>
        N.eqb t (N.of_nat (S (fst ib))) && (N.to_nat t <? nblocks c) && memN t (b_succs (snd ib))
        && match f with
           | Some x => (N.to_nat x <? nblocks c) && memN x (b_succs (snd ib)) && negb (N.eqb x t)
           | None => true
           end
    | _ => true
    end) (indexed 0 (c_blocks c)).

Fixpoint nodupN (l : list N) : bool :=
  match l with [] => true | x :: r => negb (memN x r) && nodupN r end.

Definition ends_in_branch_b (b : block) : bool :=
  match last_stmt b with Some s => is_branch_b s | None => false end.

Definition at_most_two_succs_b (c : cfg) : bool :=
  forallb (fun b => nodupN (b_succs b) && (length (b_succs b) <=? 2)
                    && (ends_in_branch_b b || (length (b_succs b) <=? 1))) (c_blocks c).

(* every block but the first has a predecessor with a smaller index *)
Definition pred_below_b (c : cfg) : bool :=
  forallb (fun ib => match fst ib with
                     | 0 => true
                     | S _ => existsb (fun p => N.to_nat p <? fst ib) (b_preds (snd ib))
                     end) (indexed 0 (c_blocks c)).

Definition cfg_wf_b (c : cfg) : bool :=
  index_is_position_b c && entry_no_pred_b c && edges_in_range_b c && mirror_b c && branch_only_last_b c
  && branch_targets_ok_b c && at_most_two_succs_b c && pred_below_b c.

(* the clause names, for the report of the check: which clause fails first *)
Definition cfg_wf_clauses (c : cfg) : list bool :=
  [index_is_position_b c; entry_no_pred_b c; edges_in_range_b c; mirror_b c; branch_only_last_b c;
   branch_targets_ok_b c; at_most_two_succs_b c; pred_below_b c].
