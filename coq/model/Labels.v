(* Model.Labels — how the labels of a report are built from node metas, and
   how a byte offset becomes the line/column shown to the user (C04).

   Part 1 mirrors the label-building code of every report constructor of the
   anchored files (program_analysis/src/*.rs `into_report`, the CFG / IR / SSA
   error reports, parser/src/errors.rs, program_merger.rs): a label is
   (file id, start, end, style) and is pushed by `add_primary`/`add_secondary`,
   in most constructors under `if let Some(file_id) = <optional file id of a
   meta>`.  A constructor is modelled by the list of its label sources, in
   program order; the table Gen.LabelSites (regenerated from the Rust sources on
   every run) is compared with the shapes declared here (Proofs.LabelsProofs).

   Part 2 mirrors codespan_reporting 0.11.1 `files.rs` (`line_starts`,
   `SimpleFile::line_index`, `line_start`, `line_range`, `column_index`,
   `Files::location`), the only code between a label's byte offset and the
   line:column printed on the terminal (term/views.rs calls `location` for the
   header) and written to SARIF (sarif_conversion.rs calls `location` for both
   ends of the range).  Texts are lists of Unicode scalar values, byte offsets
   are [nat], as in Model.Preprocess / Spec.LexSpec.  `str::is_char_boundary`
   and `match_indices('\n')` are modelled by their meaning on scalar lists
   (offset of a scalar start or the length; offsets of the scalars equal to 10);
   `Vec::binary_search` by its contract on a strictly increasing vector
   ([bsearch]: Ok(index) if present, else Err(insertion point)).
   No proofs in this file. *)
From Coq Require Import NArith List Bool PeanoNat String.
Require Import Model.Base Model.Ir Model.Preprocess.
Import ListNotations.

(* ------------------------------------------------------------------------ *)
(* Part 1: labels                                                           *)
(* ------------------------------------------------------------------------ *)

Record label := { l_file : N; l_start : N; l_end : N; l_primary : bool }.

(* `Meta::default()` of the phi statements inserted by SSA (ssa_impl.rs:137,142):
   location 0..0, no file. *)
Definition default_meta : meta := {| m_start := 0; m_end := 0; m_file := None |}.

(* One `add_primary` / `add_secondary` call with its guard. *)
Inductive source :=
  (* if let Some(file_id) = m.file_id { add(m.location, file_id) } *)
| FromMeta (primary : bool) (m : meta)
  (* inside the guard of [owner]: add(m.location, owner's file_id) — secondary
     labels of UnderConstrainedSignal / UnconstrainedLessThan use the file id of
     the primary node and the range of another node of the same definition *)
| WithFileOf (primary : bool) (owner : meta) (m : meta)
  (* add(range, file_id) with a plain FileID: parser errors of a file being parsed *)
| Known (primary : bool) (file : N) (rstart rend : N)
  (* add(m.location, m.get_file_id()): `get_file_id` unwraps — a panic site when
     the meta has no file (AnonymousComponentError / TupleError) *)
| Unwrapped (primary : bool) (m : meta).

Definition mk (primary : bool) (f s e : N) : label :=
  {| l_file := f; l_start := s; l_end := e; l_primary := primary |}.

(* Ok labels | Panic: the only way a constructor fails is the unwrap *)
Definition labels_of_source (s : source) : outcome (list label) :=
  match s with
  | FromMeta p m =>
      match m_file m with
      | Some f => Ok [mk p f (m_start m) (m_end m)]
      | None => Ok []
      end
  | WithFileOf p owner m =>
      match m_file owner with
      | Some f => Ok [mk p f (m_start m) (m_end m)]
      | None => Ok []
      end
  | Known p f s e => Ok [mk p f s e]
  | Unwrapped p m =>
      match m_file m with
      | Some f => Ok [mk p f (m_start m) (m_end m)]
      | None => Panic 401
      end
  end.

Fixpoint labels_of (ss : list source) : outcome (list label) :=
  match ss with
  | [] => Ok []
  | s :: r =>
      bind (labels_of_source s) (fun a => bind (labels_of r) (fun b => Ok (a ++ b)))
  end.

(* --- the constructors (arguments: the node metas the Rust struct is built from) --- *)

(* signal_assignments.rs *)
Definition signal_assignment_warning (assignment : meta) (constraints : list meta) : list source :=
  FromMeta true assignment :: map (FromMeta false) constraints.
Definition unnecessary_signal_assignment_warning (assignment : meta) : list source :=
  [FromMeta true assignment].

(* side_effect_analysis.rs: variable / parameter uses carry the meta of their node,
   signal declarations the meta of the declaration *)
Definition unused_variable_warning (var : meta) : list source := [FromMeta true var].
Definition unconstrained_signal_warning (decl : meta) : list source := [FromMeta true decl].
Definition unused_signal_warning (decl : meta) : list source := [FromMeta true decl].
Definition unused_parameter_warning (param : meta) : list source := [FromMeta true param].
Definition variable_without_side_effects_warning (var : meta) : list source := [FromMeta true var].
Definition param_without_side_effects_warning (param : meta) : list source := [FromMeta true param].

(* one-label passes: the meta of the expression / statement node found *)
Definition constant_branch_condition_warning (cond : meta) : list source := [FromMeta true cond].
Definition nonstrict_binary_conversion_warning (call : meta) : list source := [FromMeta true call].
Definition bn254_specific_circuit_warning (call : meta) : list source := [FromMeta true call].
Definition unconstrained_division_warning (divisor : meta) : list source := [FromMeta true divisor].
Definition unused_output_signal_warning (component : meta) : list source := [FromMeta true component].
Definition field_arithmetic_warning (e : meta) : list source := [FromMeta true e].
Definition field_comparison_warning (e : meta) : list source := [FromMeta true e].
Definition bitwise_complement_warning (e : meta) : list source := [FromMeta true e].

(* unconstrained_less_than.rs: secondaries inside the primary's guard, with its file id *)
Definition unconstrained_less_than_warning (value : meta) (bit_sizes : list meta) : list source :=
  FromMeta true value :: map (WithFileOf false value) bit_sizes.

(* under_constrained_signals.rs: primary = declaration; at most one secondary =
   the first constraint statement, inside the declaration's guard *)
Definition under_constrained_signal_warning (decl : meta) (constraint : option meta) : list source :=
  FromMeta true decl ::
  match constraint with Some c => [WithFileOf false decl c] | None => [] end.

(* definition_complexity.rs: TooManyArguments uses the parameter list range;
   CyclomaticComplexity has no label *)
Definition too_many_arguments_warning (params : meta) : list source := [FromMeta true params].
Definition cyclomatic_complexity_warning : list source := [].

(* control_flow_graph/errors.rs (built in unique_vars.rs / lifting.rs / ssa_impl.rs) *)
Definition shadowing_variable_warning (decl : meta) (shadowed : meta) : list source :=
  [FromMeta true decl; FromMeta false shadowed].
Definition parameter_name_collision_error (params : meta) : list source := [FromMeta true params].
Definition undefined_variable_error (use : meta) : list source := [FromMeta true use].
Definition invalid_variable_name_error (use : meta) : list source := [FromMeta true use].

(* parser/src/errors.rs *)
Definition unclosed_comment_error (file : N) (opener : nat) : list source :=
  [Known true file (N.of_nat opener) (N.of_nat (opener + 2))].
Definition parsing_error (file : N) (s e : N) : list source := [Known true file s e].
Definition include_error (include_stmt : meta) : list source := [FromMeta true include_stmt].
Definition anonymous_component_error (m : option meta) : list source :=
  match m with Some m => [Unwrapped true m] | None => [] end.
Definition tuple_error (m : option meta) : list source :=
  match m with Some m => [Unwrapped true m] | None => [] end.
(* program_merger.rs: duplicate definition.  First primary label: the range of the
   later definition with the id of the file being merged.  Second primary label
   (`if let Some((first_id, first_location)) = self.first_definition(name)`): the
   stored parameter-list range (`get_param_location()`) of the definition recorded
   first under that name, with the plain FileID stored next to it (`get_file_id()`:
   the file THAT definition was merged from).  [first] = that stored pair. *)
Definition duplicate_definition_error (file : N) (def : meta) (first : option (N * meta)) : list source :=
  Known true file (m_start def) (m_end def) ::
  match first with
  | Some (first_file, params) => [Known true first_file (m_start params) (m_end params)]
  | None => []
  end.

(* --- all modelled constructors as one type ---------------------------------- *)

Inductive constructor :=
| CSignalAssignment (assignment : meta) (constraints : list meta)
| CUnnecessarySignalAssignment (assignment : meta)
| CUnusedVariable (var : meta)
| CUnconstrainedSignal (decl : meta)
| CUnusedSignal (decl : meta)
| CUnusedParameter (param : meta)
| CVariableWithoutSideEffects (var : meta)
| CParamWithoutSideEffects (param : meta)
| CConstantBranchCondition (cond : meta)
| CNonStrictBinaryConversion (call : meta)
| CBn254SpecificCircuit (call : meta)
| CUnconstrainedDivision (divisor : meta)
| CUnusedOutputSignal (component : meta)
| CFieldArithmetic (e : meta)
| CFieldComparison (e : meta)
| CBitwiseComplement (e : meta)
| CUnconstrainedLessThan (value : meta) (bit_sizes : list meta)
| CUnderConstrainedSignal (decl : meta) (constraint : option meta)
| CTooManyArguments (params : meta)
| CCyclomaticComplexity
| CShadowingVariable (decl shadowed : meta)
| CParameterNameCollision (params : meta)
| CUndefinedVariable (use : meta)
| CInvalidVariableName (use : meta)
| CIncludeError (include_stmt : meta)
| CAnonymousComponentError (m : option meta)
| CTupleError (m : option meta)
| CUnclosedComment (file : N) (opener : nat)
| CParsingError (file : N) (s e : N)
| CDuplicateDefinition (file : N) (def : meta) (first : option (N * meta)).

Definition sources_of (c : constructor) : list source :=
  match c with
  | CSignalAssignment a cs => signal_assignment_warning a cs
  | CUnnecessarySignalAssignment a => unnecessary_signal_assignment_warning a
  | CUnusedVariable v => unused_variable_warning v
  | CUnconstrainedSignal d => unconstrained_signal_warning d
  | CUnusedSignal d => unused_signal_warning d
  | CUnusedParameter p => unused_parameter_warning p
  | CVariableWithoutSideEffects v => variable_without_side_effects_warning v
  | CParamWithoutSideEffects p => param_without_side_effects_warning p
  | CConstantBranchCondition c => constant_branch_condition_warning c
  | CNonStrictBinaryConversion c => nonstrict_binary_conversion_warning c
  | CBn254SpecificCircuit c => bn254_specific_circuit_warning c
  | CUnconstrainedDivision d => unconstrained_division_warning d
  | CUnusedOutputSignal c => unused_output_signal_warning c
  | CFieldArithmetic e => field_arithmetic_warning e
  | CFieldComparison e => field_comparison_warning e
  | CBitwiseComplement e => bitwise_complement_warning e
  | CUnconstrainedLessThan v bs => unconstrained_less_than_warning v bs
  | CUnderConstrainedSignal d c => under_constrained_signal_warning d c
  | CTooManyArguments p => too_many_arguments_warning p
  | CCyclomaticComplexity => cyclomatic_complexity_warning
  | CShadowingVariable d s => shadowing_variable_warning d s
  | CParameterNameCollision p => parameter_name_collision_error p
  | CUndefinedVariable u => undefined_variable_error u
  | CInvalidVariableName u => invalid_variable_name_error u
  | CIncludeError i => include_error i
  | CAnonymousComponentError m => anonymous_component_error m
  | CTupleError m => tuple_error m
  | CUnclosedComment f o => unclosed_comment_error f o
  | CParsingError f s e => parsing_error f s e
  | CDuplicateDefinition f d fd => duplicate_definition_error f d fd
  end.

(* the node metas (statement, expression, declaration, parameter list, include
   statement, definition) a constructor is handed *)
Definition nodes_of (c : constructor) : list meta :=
  match c with
  | CSignalAssignment a cs => a :: cs
  | CUnconstrainedLessThan v bs => v :: bs
  | CUnderConstrainedSignal d c => d :: match c with Some c => [c] | None => [] end
  | CShadowingVariable d s => [d; s]
  | CCyclomaticComplexity => []
  | CAnonymousComponentError m | CTupleError m => match m with Some m => [m] | None => [] end
  | CUnclosedComment _ _ | CParsingError _ _ _ => []
  | CDuplicateDefinition _ d fd => d :: match fd with Some (_, p) => [p] | None => [] end
  | CUnnecessarySignalAssignment m | CUnusedVariable m | CUnconstrainedSignal m | CUnusedSignal m
  | CUnusedParameter m | CVariableWithoutSideEffects m | CParamWithoutSideEffects m
  | CConstantBranchCondition m | CNonStrictBinaryConversion m | CBn254SpecificCircuit m
  | CUnconstrainedDivision m | CUnusedOutputSignal m | CFieldArithmetic m | CFieldComparison m
  | CBitwiseComplement m | CTooManyArguments m | CParameterNameCollision m | CUndefinedVariable m
  | CInvalidVariableName m | CIncludeError m => [m]
  end.

(* ranges that come straight from the parser / pre-processor instead of a node *)
Definition parser_ranges_of (c : constructor) : list (N * N) :=
  match c with
  | CUnclosedComment _ o => [(N.of_nat o, N.of_nat (o + 2))]
  | CParsingError _ s e => [(s, e)]
  | _ => []
  end.

(* constructors whose labels all stand under `if let Some(file_id)`: the analysis
   passes and the CFG / IR / SSA / include errors *)
Definition guarded_constructor (c : constructor) : bool :=
  match c with
  | CAnonymousComponentError _ | CTupleError _ | CUnclosedComment _ _ | CParsingError _ _ _
  | CDuplicateDefinition _ _ _ => false
  | _ => true
  end.

(* --- the shape of a constructor, as the source scanner sees it ------------- *)

Inductive range_shape := RMeta | RField | RMadeUp.      (* = Gen.LabelSites.range_src, collapsed below *)
Inductive file_shape := GGuarded | GKnown | GUnwrapped.

Definition shape_of_source (s : source) : bool * file_shape :=
  match s with
  | FromMeta p _ => (p, GGuarded)
  | WithFileOf p _ _ => (p, GGuarded)
  | Known p _ _ _ => (p, GKnown)
  | Unwrapped p _ => (p, GUnwrapped)
  end.

(* The constructors above by the names the scanner gives them (file, owner),
   with the (style, guard) of every `add_primary`/`add_secondary` call in the
   order of the source text.  A constructor with two textual variants of the
   same label (scalar / array message) lists the call twice, as the source does. *)
Local Open Scope string_scope.
Definition P := true.
Definition Sx := false.
Definition modelled_shapes : list (string * string * list (bool * file_shape)) := [
  ("src/signal_assignments", "SignalAssignmentWarning", [(P, GGuarded); (Sx, GGuarded)]);
  ("src/signal_assignments", "UnecessarySignalAssignmentWarning", [(P, GGuarded)]);
  ("src/side_effect_analysis", "UnusedVariableWarning", [(P, GGuarded)]);
  ("src/side_effect_analysis", "UnconstrainedSignalWarning", [(P, GGuarded); (P, GGuarded)]);
  ("src/side_effect_analysis", "UnusedSignalWarning", [(P, GGuarded); (P, GGuarded)]);
  ("src/side_effect_analysis", "UnusedParameterWarning", [(P, GGuarded)]);
  ("src/side_effect_analysis", "VariableWithoutSideEffectsWarning", [(P, GGuarded)]);
  ("src/side_effect_analysis", "ParamWithoutSideEffectsWarning", [(P, GGuarded)]);
  ("src/constant_conditional", "ConstantBranchConditionWarning", [(P, GGuarded)]);
  ("src/nonstrict_binary_conversion", "NonStrictBinaryConversionWarning.Num2Bits", [(P, GGuarded)]);
  ("src/nonstrict_binary_conversion", "NonStrictBinaryConversionWarning.Bits2Num", [(P, GGuarded)]);
  ("src/bn254_specific_circuit", "Bn254SpecificCircuitWarning", [(P, GGuarded)]);
  ("src/unconstrained_less_than", "UnconstrainedLessThanWarning", [(P, GGuarded); (Sx, GGuarded)]);
  ("src/unconstrained_division", "UnconstrainedDivisionWarning", [(P, GGuarded)]);
  ("src/under_constrained_signals", "UnderConstrainedSignalWarning",
     [(P, GGuarded); (Sx, GGuarded); (P, GGuarded); (Sx, GGuarded)]);
  ("src/unused_output_signal", "UnusedOutputSignalWarning", [(P, GGuarded)]);
  ("src/field_arithmetic", "FieldElementArithmeticWarning", [(P, GGuarded)]);
  ("src/field_comparisons", "FieldElementComparisonWarning", [(P, GGuarded)]);
  ("src/bitwise_complement", "BitwiseComplementWarning", [(P, GGuarded)]);
  ("src/definition_complexity", "TooManyArgumentsWarning", [(P, GGuarded)]);
  ("control_flow_graph/errors", "CFGError.UndefinedVariableError", [(P, GGuarded)]);
  ("control_flow_graph/errors", "CFGError.InvalidVariableNameError", [(P, GGuarded)]);
  ("control_flow_graph/errors", "CFGError.ShadowingVariableWarning", [(P, GGuarded); (Sx, GGuarded)]);
  ("control_flow_graph/errors", "CFGError.ParameterNameCollisionError", [(P, GGuarded)]);
  ("intermediate_representation/errors", "IRError.UndefinedVariableError", [(P, GGuarded)]);
  ("intermediate_representation/errors", "IRError.InvalidVariableNameError", [(P, GGuarded)]);
  ("static_single_assignment/errors", "SSAError.UndefinedVariableError", [(P, GGuarded)]);
  ("program_library/program_merger", "Merger", [(P, GKnown); (P, GKnown)]);
  ("src/errors", "UnclosedCommentError", [(P, GKnown)]);
  ("src/errors", "ParsingError", [(P, GKnown)]);
  ("src/errors", "IncludeError", [(P, GGuarded)]);
  ("src/errors", "AnonymousComponentError", [(P, GUnwrapped)]);
  ("src/errors", "TupleError", [(P, GUnwrapped)])
].

(* the only field fills that may be a literal range: the catch-all arm of
   parser_logic.rs::parse_file (`ParseError::User`, which this grammar never
   produces: it has no fallible action) *)
Definition literal_range_allowed : list (string * string) := [("parser_logic", "ParsingError")].

(* ------------------------------------------------------------------------ *)
(* Part 2: byte offset -> (line, column), codespan_reporting::files          *)
(* ------------------------------------------------------------------------ *)
Local Close Scope string_scope.

(* `source.match_indices('\n').map(|(i, _)| i + 1)` while walking the text:
   [pos] is the byte offset of the scalar under the cursor *)
Fixpoint starts_from (pos : nat) (l : list N) : list nat :=
  match l with
  | [] => []
  | c :: r =>
      let pos' := (pos + utf8_len c)%nat in
      if N.eqb c 10 then pos' :: starts_from pos' r else starts_from pos' r
  end.

(* pub fn line_starts: `std::iter::once(0).chain(..)` *)
Definition line_starts (l : list N) : list nat := 0%nat :: starts_from 0 l.

(* `Vec::binary_search(&x)` on a strictly increasing vector: inl i = Ok(i),
   inr i = Err(i) (insertion point) *)
Fixpoint bsearch (x : nat) (v : list nat) (i : nat) : nat + nat :=
  match v with
  | [] => inr i
  | y :: r => if Nat.eqb x y then inl i else if Nat.ltb x y then inr i else bsearch x r (S i)
  end.

(* SimpleFile::line_index: `.binary_search(&byte_index).unwrap_or_else(|next_line| next_line - 1)` *)
Definition line_index (l : list N) (byte_index : nat) : nat :=
  match bsearch byte_index (line_starts l) 0 with
  | inl i => i
  | inr next => (next - 1)%nat
  end.

(* SimpleFile::line_start: Less => the start, Equal => source.len(), Greater => Err(LineTooLarge) *)
Definition line_start (l : list N) (line : nat) : option nat :=
  let ls := line_starts l in
  match Nat.compare line (length ls) with
  | Lt => Some (nth line ls 0%nat)
  | Eq => Some (bytes l)
  | Gt => None
  end.

Definition line_range (l : list N) (line : nat) : option (nat * nat) :=
  match line_start l line, line_start l (S line) with
  | Some a, Some b => Some (a, b)
  | _, _ => None
  end.

(* byte offsets at which a scalar starts, plus the length: what
   `str::is_char_boundary` answers true for *)
Fixpoint boundaries_from (pos : nat) (l : list N) : list nat :=
  match l with
  | [] => [pos]
  | c :: r => pos :: boundaries_from (pos + utf8_len c)%nat r
  end.
Definition is_char_boundary (l : list N) (i : nat) : bool :=
  existsb (Nat.eqb i) (boundaries_from 0 l).

(* pub fn column_index(source, line_range, byte_index) *)
Definition column_index (l : list N) (range : nat * nat) (byte_index : nat) : nat :=
  let end_index := Nat.min byte_index (Nat.min (snd range) (bytes l)) in
  length (filter (fun b => is_char_boundary l (S b)) (seq (fst range) (end_index - fst range))).

(* Files::location: line_number = line_index + 1, column_number = column_index + 1 *)
Definition location (l : list N) (byte_index : nat) : option (nat * nat) :=
  let li := line_index l byte_index in
  match line_range l li with
  | Some range => Some (S li, S (column_index l range byte_index))
  | None => None
  end.

(* what sarif_conversion.rs writes for a label: the locations of both ends *)
Definition sarif_region (l : list N) (s e : nat) : option (nat * nat * nat * nat) :=
  match location l s, location l e with
  | Some (sl, sc), Some (el, ec) => Some (sl, sc, el, ec)
  | _, _ => None
  end.

(* --- the usual notion, for the specification side ------------------------- *)

Definition newlines (u : list N) : nat := length (filter (N.eqb 10) u).
