(* Mirror of parser/src/parser_logic.rs `preprocess` as it was BEFORE the
   repair (commit 326dd34 and earlier), statement for statement, defects
   included.  Kept so that the defects D12, D13, D14 of DESIGN §1.3 stay
   machine-checked facts about the old code (Proofs.PreprocessOldRefuted) and
   so that the old code can still be compared with this mirror
   (`model_preprocess mirror-old`).  Nothing in props/C05.v depends on it. *)
Require Import Model.Base Model.Preprocess.
From Coq Require Import NArith.
Local Open Scope N_scope.

(* `let mut state = 0;` — the three values the code ever assigns *)
Inductive state_old := S0 | S1 | S2.

(* `loc` counts scalars (`loc += 1` per `it.next()`), `block_start` is the
   value of `loc` after the two scalars of the opener. *)
Fixpoint pp_old (s : state_old) (loc block_start : nat) (l : list N) : outcome (list N) :=
  match l with
  | [] => Ok []                                   (* loop ends, `Ok(pp)` in every state *)
  | c0 :: r =>
      let loc := (loc + 1)%nat in
      match s with
      | S0 =>
          if c0 =? 47 then
            let loc := (loc + 1)%nat in
            match r with                          (* match it.next() *)
            | c1 :: r' =>
                if c1 =? 47 then emit [32; 32] (pp_old S1 loc block_start r')
                else if c1 =? 42 then emit [32; 32] (pp_old S2 loc loc r')
                else emit [c0; c1] (pp_old S0 loc block_start r')
            | [] => Ok [c0]                       (* push(c0); break *)
            end
          else emit [c0] (pp_old S0 loc block_start r)
      | S1 =>
          if c0 =? 10 then emit [c0] (pp_old S0 loc block_start r)
          else emit (blank c0) (pp_old S1 loc block_start r)
      | S2 =>
          if c0 =? 42 then
            let loc := (loc + 1)%nat in
            match r with                          (* match it.next() *)
            | c1 :: r' =>
                if c1 =? 47 then emit [32; 32] (pp_old S0 loc block_start r')
                else emit (32 :: blank c1) (pp_old S2 loc block_start r')
            | [] => Err (unclosed block_start)    (* location: block_start..block_start *)
            end
          else emit (blank c0) (pp_old S2 loc block_start r)
      end
  end.

Definition preprocess_old (src : list N) : outcome (list N) := pp_old S0 0 0 src.
