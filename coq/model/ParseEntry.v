(* Mirror of the two parse entry points of parser/src/parser_logic.rs, i.e. of
   the only callers of `preprocess`:

     pub fn parse_file(src: &str, file_id: FileID) -> Result<AST, Box<Report>> {
         lang::ParseAstParser::new()
             .parse(&preprocess(src, file_id)?)
             .map(|mut ast| { .. set_file_id(file_id) .. ast })
             .map_err(|parse_error| .. ParsingError { file_id, .. } ..)
             .map_err(|error| Box::new(error.into_report()))
     }
     pub fn parse_string(src: &str) -> Option<AST> {
         let src = preprocess(src, 0).ok()?;
         lang::ParseAstParser::new().parse(&src).ok()
     }
     pub fn parse_definition(src: &str) -> Option<Definition> {
         match parse_string(src) { Some(AST { mut definitions, .. }) if .. => definitions.pop(), _ => None }
     }

   The generated LALRPOP parser is NOT modelled: it is the argument [parser]
   (any function of the text it is given), and the `.map(..).map_err(..)` chain
   that follows it is the argument [finish] (any function of the parser's
   answer; in the code its closures capture `file_id` and the parse error, not
   `src`).  What IS modelled is the data flow: the `?` after `preprocess`
   returns the unclosed-comment report before the parser is constructed, and the
   parser is handed the pre-processed text and nothing else.  That the code has
   this shape is observed on every run (lib/props/C05.py, "parse entry" part: the
   AST / error that `parser::verif::parse_source` = `parse_file` returns for a
   source is compared with the one it returns for every other explored source
   with the same reference-lexer image).  Executable definitions only. *)
Require Import Model.Base Model.Preprocess.
From Coq Require Import NArith.

(* parser_logic::parse_file *)
Definition parse_file {R A : Type} (parser : list N -> R) (finish : R -> outcome A)
    (src : list N) : outcome A :=
  bind (preprocess src) (fun text => finish (parser text)).

(* parser_logic::parse_string: `.ok()?` turns every failure of the
   pre-processor into `None`; [ok] is the `.ok()` of the parser's answer *)
Definition parse_string {R A : Type} (parser : list N -> R) (ok : R -> option A)
    (src : list N) : option A :=
  match preprocess src with
  | Ok text => ok (parser text)
  | _ => None
  end.

(* parser_logic::parse_definition: [pick] is the match on the definitions *)
Definition parse_definition {R A D : Type} (parser : list N -> R) (ok : R -> option A)
    (pick : A -> option D) (src : list N) : option D :=
  match parse_string parser ok src with
  | Some ast => pick ast
  | None => None
  end.
