(* Mirror of /repo/program_analysis/src/taint_analysis.rs and
   constraint_analysis.rs.

   `taint_map : HashMap<VariableName, HashSet<VariableName>>` is a binary
   relation on names; it is modelled as the list of its pairs (a pair may occur
   more than once; `single_step` dedups).  `add_taint_step` is `cons`.  No
   function below depends on the order of a set except through the final
   canonicalisation [canon], so hash iteration order is irrelevant.

   `multi_step_taint` / `multi_step_constraint` are `while` loops: recursion on
   fuel, `OutOfFuel` when exhausted ([closure_fuel] is proved sufficient in
   Proofs.TaintProofs).

   Input besides the cfg: for every block that ends in an `IfThenElse`, the
   block indices of `Cfg::get_true_branch` and `Cfg::get_false_branch`
   ([branches]); they come from dominance frontiers, which are modelled and
   proved under property C15, and are dumped from the real `Cfg` by the harness.
   Definitions only. *)
From Coq Require Import ZArith NArith List Bool.
Require Import Model.Base Model.Ir Model.VarUse.
Import ListNotations.

(* ---------- canonical sets of names ---------- *)

Fixpoint ident_cmp (a b : ident) : comparison :=
  match a, b with
  | [], [] => Eq
  | [], _ :: _ => Lt
  | _ :: _, [] => Gt
  | x :: a', y :: b' => match N.compare x y with Eq => ident_cmp a' b' | c => c end
  end.

Definition opt_cmp {A} (cmp : A -> A -> comparison) (a b : option A) : comparison :=
  match a, b with
  | None, None => Eq
  | None, Some _ => Lt
  | Some _, None => Gt
  | Some x, Some y => cmp x y
  end.

Definition vname_cmp (a b : vname) : comparison :=
  match ident_cmp (vn_name a) (vn_name b) with
  | Eq => match opt_cmp ident_cmp (vn_suffix a) (vn_suffix b) with
          | Eq => opt_cmp N.compare (vn_version a) (vn_version b)
          | c => c
          end
  | c => c
  end.

Fixpoint insert_sorted (x : vname) (l : list vname) : list vname :=
  match l with
  | [] => [x]
  | y :: r => match vname_cmp x y with
              | Lt => x :: l
              | Eq => l
              | Gt => y :: insert_sorted x r
              end
  end.

(* sorted, duplicate-free *)
Definition canon (l : list vname) : list vname := fold_right insert_sorted [] l.

(* ---------- relations as lists of pairs, closure ---------- *)

Section Closure.
  Variable A : Type.
  Variable eqb : A -> A -> bool.

  Definition mem (x : A) (l : list A) : bool := existsb (eqb x) l.
  Definition subset (l1 l2 : list A) : bool := forallb (fun x => mem x l2) l1.
  Fixpoint dedup (l : list A) : list A :=
    match l with
    | [] => []
    | x :: r => if mem x r then dedup r else x :: dedup r
    end.
  (* HashSet::extend *)
  Definition extend (result update : list A) : list A :=
    fold_right (fun x acc => if mem x acc then acc else x :: acc) result update.

  (* self.taint_map.get(source).cloned().unwrap_or_default() *)
  Definition single_step (m : list (A * A)) (x : A) : list A :=
    dedup (map snd (filter (fun e => eqb (fst e) x) m)).

  (* while !update.is_subset(&result) {
         result.extend(update.iter().cloned());
         update = update.iter().flat_map(|s| self.single_step(s)).collect();
     } *)
  Fixpoint closure_loop (fuel : nat) (m : list (A * A)) (result update : list A) : outcome (list A) :=
    if subset update result then Ok result
    else match fuel with
         | O => OutOfFuel
         | S f => closure_loop f m (extend result update) (dedup (flat_map (single_step m) update))
         end.

  (* every iteration adds a name of the relation's field (or the source) to `result` *)
  Definition closure_fuel (m : list (A * A)) : nat := S (S (length m)).

  (* multi_step_taint: zero or more steps *)
  Definition multi_step_refl (m : list (A * A)) (x : A) : outcome (list A) :=
    closure_loop (closure_fuel m) m [] [x].
  (* multi_step_constraint: one or more steps *)
  Definition multi_step_trans (m : list (A * A)) (x : A) : outcome (list A) :=
    closure_loop (closure_fuel m) m [] (single_step m x).
End Closure.

Arguments mem {A} eqb x l.
Arguments subset {A} eqb l1 l2.
Arguments dedup {A} eqb l.
Arguments extend {A} eqb result update.
Arguments single_step {A} eqb m x.
Arguments closure_loop {A} eqb fuel m result update.
Arguments closure_fuel {A} m.
Arguments multi_step_refl {A} eqb m x.
Arguments multi_step_trans {A} eqb m x.

Notation edges := (list (vname * vname)).

Definition vmem := mem vname_eqb.
Definition single_step_taint (m : edges) (x : vname) : list vname := single_step vname_eqb m x.
Definition multi_step_taint (m : edges) (x : vname) : outcome (list vname) := multi_step_refl vname_eqb m x.
Definition single_step_constraint (m : edges) (x : vname) : list vname := single_step vname_eqb m x.
Definition multi_step_constraint (m : edges) (x : vname) : outcome (list vname) := multi_step_trans vname_eqb m x.

(* taints_any: multi_step_taint(source).iter().any(|s| sinks.contains(s)) *)
Definition taints_any (m : edges) (x : vname) (sinks : list vname) : outcome bool :=
  r <- multi_step_taint m x ;; Ok (existsb (fun s => vmem s sinks) r).

(* ---------- the analysis state ---------- *)

(* a definition / declaration entry: VariableUse reduced to (name, location, has access) *)
Record duse := mkD { d_name : vname; d_meta : meta; d_acc : bool }.

(* HashMap::insert (replaces the entry of an equal key) *)
Fixpoint dmap_insert (l : list duse) (d : duse) : list duse :=
  match l with
  | [] => [d]
  | x :: r => if vname_eqb (d_name x) (d_name d) then d :: r else x :: dmap_insert r d
  end.

Record tstate := mkT { t_edges : edges; t_decls : list duse; t_defs : list duse }.

Definition add_steps (srcs : list vname) (sink : vname) (es : edges) : edges :=
  map (fun s => (s, sink)) srcs ++ es.

Definition meta0 : meta := {| m_start := 0; m_end := 0; m_file := None |}.

(* TaintAnalysis::new: parameter definitions (location of the parameter list: not in the IR) *)
Definition taint_init (params : list vname) : tstate :=
  mkT [] [] (fold_left (fun acc p => dmap_insert acc (mkD p meta0 false)) params []).

Definition is_phi (e : expr) : bool := match e with EPhi _ _ => true | _ => false end.

Notation branches := (list (N * (list N * list N))).

Definition branch_blocks (br : branches) (i : N) : list N :=
  match find (fun e => N.eqb (fst e) i) br with
  | Some (_, (t, f)) => t ++ f          (* true_branch.iter().chain(false_branch.iter()) *)
  | None => []
  end.

Definition get_block (bs : list block) (i : N) : option block :=
  find (fun b => N.eqb (b_index b) i) bs.

Definition taint_stmt (D : decls) (bs : list block) (br : branches) (bi : N) (st : tstate) (s : stmt) : tstate :=
  match s with
  | SSubst _ _ _ rhe _ _ =>
    let reads := stmt_reads D s in
    fold_left (fun st w =>
      let defs := if is_phi rhe then t_defs st
                  else dmap_insert (t_defs st) (mkD (w_name w) (w_meta w) (w_acc w)) in
      mkT (add_steps reads (w_name w) (t_edges st)) (t_decls st) defs)
      (stmt_writes_w D s) st
  | SDecl m names _ dims =>
    let reads := flat_map (fun size => uses_names (expr_uses D size)) dims in
    fold_left (fun st sink =>
      mkT (add_steps reads sink (t_edges st)) (dmap_insert (t_decls st) (mkD sink m false)) (t_defs st))
      names st
  | SIf _ c _ _ =>
    match expr_val c with
    | Some _ => st                         (* constant condition: `continue` *)
    | None =>
      let reads := uses_names (expr_uses D c) in
      fold_left (fun st i =>
        match get_block bs i with
        | Some body =>
          fold_left (fun st sink => mkT (add_steps reads sink (t_edges st)) (t_decls st) (t_defs st))
            (block_writes D body) st
        | None => st
        end) (branch_blocks br bi) st
    end
  | SAssert _ _ | SLog _ _ | SRet _ _ | SCeq _ _ _ => st
  end.

Definition taint_block (D : decls) (bs : list block) (br : branches) (st : tstate) (b : block) : tstate :=
  fold_left (taint_stmt D bs br (b_index b)) (b_stmts b) st.

Definition run_taint_analysis (g : cfg) (br : branches) : tstate :=
  fold_left (taint_block (c_decls g) (c_blocks g) br) (c_blocks g) (taint_init (c_params g)).

(* run_constraint_analysis: the constraint relation (its definition and declaration
   maps are not consumed by any analysis and are not modelled) *)
Definition is_constraint_stmt (s : stmt) : bool :=
  match s with
  | SCeq _ _ _ => true
  | SSubst _ _ OpCSig _ _ _ => true
  | _ => false
  end.

Definition constraint_stmt (D : decls) (es : edges) (s : stmt) : edges :=
  if is_constraint_stmt s then
    let used := stmt_used D s in
    flat_map (fun src => flat_map (fun snk => if vname_eqb src snk then [] else [(src, snk)]) used) used ++ es
  else es.

Definition run_constraint_analysis (g : cfg) : edges :=
  fold_left (fun es b => fold_left (constraint_stmt (c_decls g)) (b_stmts b) es) (c_blocks g) [].

(* constrained_variables: the keys of the constraint map *)
Definition constrained_variables (m : edges) : list vname := map fst m.
