(* Mirror of program_analysis/src/constant_conditional.rs: the analysis pass
   behind the finding `Constant branching statement condition found.` (CS0009).
   For every if statement of the graph, in block order, whose condition carries a
   BOOLEAN value claim, one warning whose primary label reads
   "This condition is always <value>."  A condition with a field-element claim is
   not reported (get_reduces_to() is matched against Boolean only).
   The finding is identified here by the position (block index, statement index)
   of the if statement; the harness maps the label location of each real report
   back to that position. *)
From Coq Require Import ZArith List Bool String Ascii.
Require Import Model.Base Model.Ir.
Import ListNotations.
Local Open Scope N_scope.

Definition cc_stmt (s : stmt) : option bool :=
  match s with
  | SIf _ c _ _ => match expr_val c with Some (VBool b) => Some b | _ => None end
  | _ => None
  end.

Fixpoint cc_stmts (bi : N) (si : N) (ss : list stmt) : list (N * N * bool) :=
  match ss with
  | [] => []
  | s :: rest =>
      match cc_stmt s with
      | Some b => (bi, si, b) :: cc_stmts bi (si + 1) rest
      | None => cc_stmts bi (si + 1) rest
      end
  end.

Definition find_constant_conditional (c : cfg) : list (N * N * bool) :=
  flat_map (fun b => cc_stmts (b_index b) 0 (b_stmts b)) (c_blocks c).

(* the texts, as the pass formats them: format!("This condition is always {}.", value) *)
Definition cc_report_message : string := "Constant branching statement condition found.".
Definition cc_label_message (b : bool) : string :=
  ("This condition is always " ++ (if b then "true" else "false") ++ ".")%string.

Fixpoint bytes_of_string (s : string) : list N :=
  match s with
  | EmptyString => []
  | String a r => N_of_ascii a :: bytes_of_string r
  end.

Definition cc_findings (c : cfg) : list (N * N * list N * list N) :=
  map (fun '(bi, si, b) => (bi, si, bytes_of_string (cc_label_message b), bytes_of_string cc_report_message))
      (find_constant_conditional c).
