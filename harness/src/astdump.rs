//! S-expression printer of the syntax tree (`program_structure::ast`), the format
//! of the PRE/POST fields of the `desugar` engine (harness/src/bin/desugar.rs, read
//! back by coq/extract/desugar.ml and coq/extract/lib_astwire.ml).  A copy of the
//! printer of desugar.rs as a library module, so that other engines dump the same
//! text.  Every constructor and every field is matched explicitly.
use program_structure::ast::*;
use std::fmt::Write as _;

pub fn hexs(s: &str) -> String {
    let mut o = String::from("x");
    for b in s.bytes() {
        write!(o, "{:02x}", b).unwrap();
    }
    o
}

pub fn meta(m: &Meta) -> String {
    match m.file_id {
        Some(f) => format!("@{}:{}:{}", m.start, m.end, f),
        None => format!("@{}:{}:-", m.start, m.end),
    }
}

pub fn op(o: &AssignOp) -> &'static str {
    match o {
        AssignOp::AssignVar => "av",
        AssignOp::AssignSignal => "as",
        AssignOp::AssignConstraintSignal => "acs",
    }
}

pub fn xtype(t: &VariableType) -> String {
    match t {
        VariableType::Var => "var".to_string(),
        VariableType::Component => "comp".to_string(),
        VariableType::AnonymousComponent => "anoncomp".to_string(),
        VariableType::Signal(st, tags) => {
            let s = match st {
                SignalType::Input => "in",
                SignalType::Output => "out",
                SignalType::Intermediate => "mid",
            };
            let mut o = format!("(sig {}", s);
            for t in tags {
                o.push(' ');
                o.push_str(t);
            }
            o.push(')');
            o
        }
    }
}

pub fn infix(o: &ExpressionInfixOpcode) -> &'static str {
    use ExpressionInfixOpcode::*;
    match o {
        Mul => "Mul",
        Div => "Div",
        Add => "Add",
        Sub => "Sub",
        Pow => "Pow",
        IntDiv => "IntDiv",
        Mod => "Mod",
        ShiftL => "ShiftL",
        ShiftR => "ShiftR",
        LesserEq => "LesserEq",
        GreaterEq => "GreaterEq",
        Lesser => "Lesser",
        Greater => "Greater",
        Eq => "Eq",
        NotEq => "NotEq",
        BoolOr => "BoolOr",
        BoolAnd => "BoolAnd",
        BitOr => "BitOr",
        BitAnd => "BitAnd",
        BitXor => "BitXor",
    }
}

pub fn prefix(o: &ExpressionPrefixOpcode) -> &'static str {
    match o {
        ExpressionPrefixOpcode::Sub => "Neg",
        ExpressionPrefixOpcode::BoolNot => "BoolNot",
        ExpressionPrefixOpcode::Complement => "Complement",
    }
}

pub fn exprs(out: &mut String, es: &[Expression]) {
    for e in es {
        out.push(' ');
        expr(out, e);
    }
}

pub fn access(out: &mut String, acc: &[Access]) {
    out.push('(');
    out.push_str("acc");
    for a in acc {
        match a {
            Access::ComponentAccess(n) => {
                write!(out, " (ca {})", n).unwrap();
            }
            Access::ArrayAccess(e) => {
                out.push_str(" (aa ");
                expr(out, e);
                out.push(')');
            }
        }
    }
    out.push(')');
}

pub fn expr(out: &mut String, e: &Expression) {
    match e {
        Expression::InfixOp { meta: m, lhe, infix_op, rhe } => {
            write!(out, "(infix {} {} ", meta(m), infix(infix_op)).unwrap();
            expr(out, lhe);
            out.push(' ');
            expr(out, rhe);
            out.push(')');
        }
        Expression::PrefixOp { meta: m, prefix_op, rhe } => {
            write!(out, "(prefix {} {} ", meta(m), prefix(prefix_op)).unwrap();
            expr(out, rhe);
            out.push(')');
        }
        Expression::InlineSwitchOp { meta: m, cond, if_true, if_false } => {
            write!(out, "(switch {} ", meta(m)).unwrap();
            expr(out, cond);
            out.push(' ');
            expr(out, if_true);
            out.push(' ');
            expr(out, if_false);
            out.push(')');
        }
        Expression::ParallelOp { meta: m, rhe } => {
            write!(out, "(par {} ", meta(m)).unwrap();
            expr(out, rhe);
            out.push(')');
        }
        Expression::Variable { meta: m, name, access: acc } => {
            write!(out, "(var {} {} ", meta(m), name).unwrap();
            access(out, acc);
            out.push(')');
        }
        Expression::Number(m, v) => {
            write!(out, "(num {} {})", meta(m), v.to_str_radix(16)).unwrap();
        }
        Expression::Call { meta: m, id, args } => {
            write!(out, "(call {} {}", meta(m), id).unwrap();
            exprs(out, args);
            out.push(')');
        }
        Expression::AnonymousComponent { meta: m, id, is_parallel, params, signals, names } => {
            write!(out, "(anon {} {} {} (params", meta(m), id, if *is_parallel { 1 } else { 0 })
                .unwrap();
            exprs(out, params);
            out.push_str(") (signals");
            exprs(out, signals);
            out.push(')');
            match names {
                None => out.push_str(" nonames"),
                Some(ns) => {
                    out.push_str(" (names");
                    for (o, n) in ns {
                        write!(out, " ({} {})", op(o), n).unwrap();
                    }
                    out.push(')');
                }
            }
            out.push(')');
        }
        Expression::ArrayInLine { meta: m, values } => {
            write!(out, "(array {}", meta(m)).unwrap();
            exprs(out, values);
            out.push(')');
        }
        Expression::Tuple { meta: m, values } => {
            write!(out, "(tuple {}", meta(m)).unwrap();
            exprs(out, values);
            out.push(')');
        }
    }
}

pub fn stmts(out: &mut String, ss: &[Statement]) {
    for s in ss {
        out.push(' ');
        stmt(out, s);
    }
}

pub fn stmt(out: &mut String, s: &Statement) {
    match s {
        Statement::IfThenElse { meta: m, cond, if_case, else_case } => {
            write!(out, "(if {} ", meta(m)).unwrap();
            expr(out, cond);
            out.push(' ');
            stmt(out, if_case);
            if let Some(e) = else_case {
                out.push(' ');
                stmt(out, e);
            }
            out.push(')');
        }
        Statement::While { meta: m, cond, stmt: body } => {
            write!(out, "(while {} ", meta(m)).unwrap();
            expr(out, cond);
            out.push(' ');
            stmt(out, body);
            out.push(')');
        }
        Statement::Return { meta: m, value } => {
            write!(out, "(return {} ", meta(m)).unwrap();
            expr(out, value);
            out.push(')');
        }
        Statement::InitializationBlock { meta: m, xtype: t, initializations } => {
            write!(out, "(initblock {} {}", meta(m), xtype(t)).unwrap();
            stmts(out, initializations);
            out.push(')');
        }
        Statement::Declaration { meta: m, xtype: t, name, dimensions, is_constant } => {
            write!(out, "(decl {} {} {} {}", meta(m), xtype(t), name, if *is_constant { 1 } else { 0 })
                .unwrap();
            exprs(out, dimensions);
            out.push(')');
        }
        Statement::Substitution { meta: m, var, access: acc, op: o, rhe } => {
            write!(out, "(sub {} {} {} ", meta(m), var, op(o)).unwrap();
            access(out, acc);
            out.push(' ');
            expr(out, rhe);
            out.push(')');
        }
        Statement::MultiSubstitution { meta: m, lhe, op: o, rhe } => {
            write!(out, "(msub {} {} ", meta(m), op(o)).unwrap();
            expr(out, lhe);
            out.push(' ');
            expr(out, rhe);
            out.push(')');
        }
        Statement::ConstraintEquality { meta: m, lhe, rhe } => {
            write!(out, "(ceq {} ", meta(m)).unwrap();
            expr(out, lhe);
            out.push(' ');
            expr(out, rhe);
            out.push(')');
        }
        Statement::LogCall { meta: m, args } => {
            write!(out, "(log {}", meta(m)).unwrap();
            for a in args {
                match a {
                    LogArgument::LogStr(s) => {
                        write!(out, " (str {})", hexs(s)).unwrap();
                    }
                    LogArgument::LogExp(e) => {
                        out.push_str(" (exp ");
                        expr(out, e);
                        out.push(')');
                    }
                }
            }
            out.push(')');
        }
        Statement::Block { meta: m, stmts: ss } => {
            write!(out, "(block {}", meta(m)).unwrap();
            stmts(out, ss);
            out.push(')');
        }
        Statement::Assert { meta: m, arg } => {
            write!(out, "(assert {} ", meta(m)).unwrap();
            expr(out, arg);
            out.push(')');
        }
    }
}

