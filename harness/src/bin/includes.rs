// Engine `includes` (C19): drives the real `parser::parse_files` in process on a
// project materialised on disk and prints one JSON line per case.
//
//   includes            stdin lines "<root>\t<file;file;...>\t<lib;lib;...>" (paths
//                       relative to <root> or absolute; "-" for an empty list)
//
// For every case the working directory is changed to <root> — the directory the
// tool is started in, which the driver may choose below the project root
// (relative argument and -L paths are resolved against it by the code under test), the debug log of the
// parser crate is captured (`reading file`, `adding include ...`), and the
// result line holds
//   read    : the paths logged by `parse_file` as "reading file `...`", in order
//   files   : [name, is_user_input] of every entry of the returned FileLibrary, by id
//   reports : category, code, message, primary labels [file id, start, end]
//   kind    : "program" | "library" | "panic"
//   defs    : the names of the templates and functions of the returned
//             ProgramArchive / TemplateLibrary, sorted (third audit: what
//             `ProgramArchive::new` / `TemplateLibrary::new` keep of the files read)
//   nlog    : number of debug lines of the parser crate that were captured (so that
//             a re-worded `reading file` line can be told from a silent logger)
// A case that does not finish within 10 s prints {"timeout":true} and ends the
// process (the driver restarts it on the remaining cases).
use std::io::{BufRead, Write};
use std::path::PathBuf;
use std::sync::mpsc;
use std::sync::Mutex;
use std::time::Duration;

use parser::ParseResult;
use program_structure::file_definition::FileLibrary;
use program_structure::report::ReportCollection;

static LOG: Mutex<Vec<String>> = Mutex::new(Vec::new());

struct Capture;
impl log::Log for Capture {
    fn enabled(&self, m: &log::Metadata) -> bool {
        m.target().starts_with("circomspect_parser")
    }
    fn log(&self, r: &log::Record) {
        if self.enabled(r.metadata()) {
            if let Ok(mut v) = LOG.lock() {
                v.push(format!("{}", r.args()));
            }
        }
    }
    fn flush(&self) {}
}
static CAPTURE: Capture = Capture;

fn esc(s: &str) -> String {
    let mut out = String::with_capacity(s.len() + 2);
    out.push('"');
    for c in s.chars() {
        match c {
            '"' => out.push_str("\\\""),
            '\\' => out.push_str("\\\\"),
            '\n' => out.push_str("\\n"),
            '\t' => out.push_str("\\t"),
            c if (c as u32) < 0x20 => out.push_str(&format!("\\u{:04x}", c as u32)),
            c => out.push(c),
        }
    }
    out.push('"');
    out
}

fn split_list(s: &str) -> Vec<PathBuf> {
    if s == "-" || s.is_empty() {
        Vec::new()
    } else {
        s.split(';').map(PathBuf::from).collect()
    }
}

fn dump(kind: &str, lib: Option<&FileLibrary>, defs: &[String], reports: &ReportCollection) -> String {
    let log = LOG.lock().map(|v| v.clone()).unwrap_or_default();
    let mut read = Vec::new();
    let mut adds = Vec::new();
    for l in &log {
        if let Some(rest) = l.strip_prefix("reading file `") {
            read.push(esc(rest.trim_end_matches('`')));
        } else if l.starts_with("adding ") && !l.starts_with("adding local") && l.contains("include") {
            adds.push(esc(l));
        } else if l.starts_with("adding local") {
            adds.push(esc(l));
        }
    }
    let mut files = Vec::new();
    if let Some(lib) = lib {
        let mut id = 0usize;
        while let Ok(f) = lib.to_storage().get(id) {
            files.push(format!("[{},{}]", esc(f.name()), lib.is_user_input(id)));
            id += 1;
        }
    }
    // the premise "canonicalising a canonical path gives the path itself", on the
    // real fs::canonicalize: every path handed to parse_file and every name of
    // the FileLibrary is canonical, so canonicalising it again must return it
    let mut not_idem: Vec<String> = Vec::new();
    if let Some(lib) = lib {
        let mut id = 0usize;
        while let Ok(f) = lib.to_storage().get(id) {
            let name: &str = f.name();
            match std::fs::canonicalize(name) {
                Ok(c) if c == PathBuf::from(name) => {}
                _ => not_idem.push(esc(name)),
            }
            id += 1;
        }
    }
    let mut reps = Vec::new();
    for r in reports {
        let labels: Vec<String> = r
            .primary()
            .iter()
            .map(|l| format!("[{},{},{}]", l.file_id, l.range.start, l.range.end))
            .collect();
        reps.push(format!(
            "{{\"cat\":{},\"code\":{},\"msg\":{},\"labels\":[{}]}}",
            esc(&r.category().to_level()),
            esc(&r.id()),
            esc(r.message()),
            labels.join(",")
        ));
    }
    format!(
        "{{\"kind\":{},\"nlog\":{},\"not_idempotent\":[{}],\"defs\":[{}],\"read\":[{}],\"adds\":[{}],\"files\":[{}],\"reports\":[{}]}}",
        esc(kind),
        log.len(),
        not_idem.join(","),
        defs.iter().map(|d| esc(d)).collect::<Vec<_>>().join(","),
        read.join(","),
        adds.join(","),
        files.join(","),
        reps.join(",")
    )
}

fn run_case(line: &str) -> String {
    let parts: Vec<&str> = line.split('\t').collect();
    if parts.len() != 3 {
        return "{\"kind\":\"bad-line\"}".to_string();
    }
    if std::env::set_current_dir(parts[0]).is_err() {
        return "{\"kind\":\"bad-root\"}".to_string();
    }
    let files = split_list(parts[1]);
    let libs = split_list(parts[2]);
    if let Ok(mut v) = LOG.lock() {
        v.clear();
    }
    let version = program_analysis::config::COMPILER_VERSION;
    match verif_harness::guarded(|| parser::parse_files(&files, &libs, &version)) {
        None => dump("panic", None, &[], &Vec::new()),
        Some(ParseResult::Program(archive, reports)) => {
            let mut defs: Vec<String> = archive.templates.keys().cloned().collect();
            defs.extend(archive.functions.keys().cloned());
            defs.sort();
            dump("program", Some(&archive.file_library), &defs, &reports)
        }
        Some(ParseResult::Library(library, reports)) => {
            let mut defs: Vec<String> = library.templates.keys().cloned().collect();
            defs.extend(library.functions.keys().cloned());
            defs.sort();
            dump("library", Some(&library.file_library), &defs, &reports)
        }
    }
}

fn main() {
    verif_harness::silence_panics();
    let _ = log::set_logger(&CAPTURE);
    log::set_max_level(log::LevelFilter::Debug);
    let stdin = std::io::stdin();
    for line in stdin.lock().lines() {
        let line = match line {
            Ok(l) => l,
            Err(_) => break,
        };
        let line = line.trim_end_matches(['\r', '\n']).to_string();
        if line.trim().is_empty() {
            continue;
        }
        let (tx, rx) = mpsc::channel();
        std::thread::Builder::new()
            .stack_size(64 << 20)
            .spawn(move || {
                let _ = tx.send(run_case(&line));
            })
            .expect("thread");
        let out = std::io::stdout();
        let mut out = out.lock();
        match rx.recv_timeout(Duration::from_secs(10)) {
            Ok(s) => {
                writeln!(out, "{}", s).unwrap();
                out.flush().unwrap();
            }
            Err(mpsc::RecvTimeoutError::Disconnected) => {
                writeln!(out, "{{\"kind\":\"panic-outside\"}}").unwrap();
                out.flush().unwrap();
            }
            Err(mpsc::RecvTimeoutError::Timeout) => {
                writeln!(out, "{{\"timeout\":true}}").unwrap();
                out.flush().unwrap();
                std::process::exit(3);
            }
        }
    }
}
