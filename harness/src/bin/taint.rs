// Engine `taint` (C09): one definition per line, `<hex source>`.
//
// Pipeline of the implementation: parse_definition -> (file ids filled in, so that the
// reports carry their primary location) -> into_cfg -> into_ssa -> run_taint_analysis,
// run_constraint_analysis, run_side_effect_analysis.
//
// Prints `(ok CFG BRANCHES RESULT IDOM)` or `(parseerr)` / `(cfgerr)` / `(ssaerr)` / `(panic STAGE)`.
//
//   CFG      := the SSA cfg in the format of irdump.rs
//   BRANCHES := (branches (IDX (T*) (F*))*)   for every block ending in an if: the block indices of
//               Cfg::get_true_branch / get_false_branch (sorted, duplicate free). This is an *input*
//               of the model (dominance frontiers are another property's model).
//   IDOM     := (idom I0 I1 ...) the implementation's immediate dominators (irdump::idoms): the untrusted
//               certificate for the verified SSA validator Model.SsaCheck.ssa_check, whose verdict is a
//               hypothesis of C09_location_is_unique_definition and is evaluated by the model driver.
//   RESULT   := (result (universe V*) (taint (V V*)*) (closure (V V*)*) (cons (V V*)*) (ccl (V V*)*)
//                       (constrained V*) (defs (V START END)*) (decls V*) (sinks V*)
//                       (findings (CODE KIND NAMEHEX START|- END|-)*))
//   universe: parameters, declaration keys, declared names, every name read or written.
//   taint/cons: single_step_taint / single_step_constraint per universe name with a non-empty image;
//   closure/ccl: multi_step_taint / multi_step_constraint per universe name.
//   sinks: recomputed HERE from the public API exactly as run_side_effect_analysis does (its own
//   sink set is a local variable); the findings are the real reports of run_side_effect_analysis.
use parser::parse_definition;
use program_analysis::constraint_analysis::run_constraint_analysis;
use program_analysis::analysis_context::{AnalysisContext, AnalysisError};
use program_analysis::get_analysis_passes;
use program_analysis::taint_analysis::run_taint_analysis;
use program_structure::ast::{Definition, FillMeta};
use program_structure::cfg::{Cfg, IntoCfg};
use program_structure::constants::Curve;
use program_structure::ir::variable_meta::VariableMeta;
use program_structure::ir::{AssignOp, SignalType, Statement, VariableName, VariableType};
use program_structure::file_definition::{FileID, FileLocation};
use program_structure::report::{Report, ReportCollection};
use std::collections::{BTreeMap, BTreeSet, HashSet};
use verif_harness::irdump;

/// `side_effect_analysis` is a private module: its reports are obtained by running the registered
/// passes (each guarded) and keeping the codes only that pass emits.
struct NoContext;
impl AnalysisContext for NoContext {
    fn is_function(&self, _: &str) -> bool {
        false
    }
    fn is_template(&self, _: &str) -> bool {
        false
    }
    fn function(&mut self, name: &str) -> Result<&Cfg, AnalysisError> {
        Err(AnalysisError::UnknownFunction { name: name.to_string() })
    }
    fn template(&mut self, name: &str) -> Result<&Cfg, AnalysisError> {
        Err(AnalysisError::UnknownTemplate { name: name.to_string() })
    }
    fn underlying_str(&self, file_id: &FileID, _: &FileLocation) -> Result<String, AnalysisError> {
        Err(AnalysisError::UnknownFile { file_id: *file_id })
    }
}

fn run_side_effect_analysis(cfg: &Cfg) -> ReportCollection {
    let mut out = ReportCollection::new();
    for pass in get_analysis_passes() {
        let mut ctx = NoContext;
        if let Some(reports) = verif_harness::guarded(|| pass(&mut ctx, cfg)) {
            for r in reports {
                if matches!(r.id().as_str(), "CS0006" | "CS0007" | "CS0008" | "CA01") {
                    out.push(r);
                }
            }
        }
    }
    out
}

fn vs(v: &VariableName) -> String {
    irdump::var(v)
}

fn set_str<'a>(it: impl Iterator<Item = &'a VariableName>) -> String {
    let s: BTreeSet<String> = it.map(vs).collect();
    s.into_iter().collect::<Vec<_>>().join(" ")
}

fn branches(cfg: &Cfg) -> String {
    let mut parts = Vec::new();
    for bb in cfg.iter() {
        if let Some(Statement::IfThenElse { .. }) = bb.iter().last() {
            let t: BTreeSet<usize> = cfg.get_true_branch(bb).iter().map(|b| b.index()).collect();
            let f: BTreeSet<usize> = cfg.get_false_branch(bb).iter().map(|b| b.index()).collect();
            let show = |s: &BTreeSet<usize>| s.iter().map(|x| x.to_string()).collect::<Vec<_>>().join(" ");
            parts.push(format!("({} ({}) ({}))", bb.index(), show(&t), show(&f)));
        }
    }
    format!("(branches {})", parts.join(" "))
}

/// One report of the pass -> `(CODE KIND NAMEHEX START END)`.
///
/// The KIND is derived from the report CODE and from where the report points (third audit: it used to be
/// derived from the English wording, so that a re-worded message became kind `other` and was judged by
/// nobody):
///   CS0007 -> unusedparam;  CA01 -> unconstrained;
///   CS0006 -> unusedvar if the primary label is the location of a definition of the taint analysis
///             (`TaintAnalysis::definitions`), unusedsig if it is the location of a signal declaration;
///   CS0008 -> paramnse if the definition at the label is a parameter, else varnse.
/// The displayed NAME is the name of the definition / declaration at that location; the text between the
/// first pair of backquotes of the message is only used to choose among several entries at one location
/// (parameters share the location of the parameter list). Anything else is kind `other`, which the check
/// counts and reports.
fn finding(r: &Report, cfg: &Cfg, taint: &program_analysis::taint_analysis::TaintAnalysis) -> String {
    let msg = r.message();
    let quoted = msg.split('`').nth(1).unwrap_or("");
    let quoted = quoted.split(|c| c == '[' || c == '.').next().unwrap_or("").to_string();
    let range = r.primary().first().map(|l| (l.range.start, l.range.end));
    // candidates at the label: (displayed name, is a parameter, is a definition)
    let mut cands: Vec<(String, bool, bool)> = Vec::new();
    if let Some((a, b)) = range {
        for d in taint.definitions() {
            if d.meta().start() == a && d.meta().end() == b {
                cands.push((d.name().name().to_string(), cfg.parameters().contains(d.name()), true));
            }
        }
        for (n, d) in cfg.declarations().iter() {
            if matches!(d.variable_type(), VariableType::Signal(_, _))
                && d.file_location().start == a
                && d.file_location().end == b
            {
                cands.push((n.name().to_string(), false, false));
            }
        }
    }
    let code = r.id();
    let want_def = |c: &(String, bool, bool)| match code.as_str() {
        "CS0007" => c.1 && c.2,
        "CS0008" => c.2,
        "CA01" => !c.2,
        _ => true,
    };
    let mut sel: Vec<&(String, bool, bool)> = cands.iter().filter(|c| want_def(c)).collect();
    if sel.iter().any(|c| c.0 == quoted) {
        sel.retain(|c| c.0 == quoted);
    }
    // CS0006 at a location that is both: a definition wins iff the message names it
    let chosen = sel.first().cloned();
    let (kind, name) = match (code.as_str(), chosen) {
        ("CS0007", Some(c)) => ("unusedparam", c.0.clone()),
        ("CA01", Some(c)) => ("unconstrained", c.0.clone()),
        ("CS0006", Some(c)) if c.2 => ("unusedvar", c.0.clone()),
        ("CS0006", Some(c)) => ("unusedsig", c.0.clone()),
        ("CS0008", Some(c)) if c.1 => ("paramnse", c.0.clone()),
        ("CS0008", Some(c)) => ("varnse", c.0.clone()),
        _ => ("other", quoted.clone()),
    };
    let (s, e) = match range {
        Some((a, b)) => (a.to_string(), b.to_string()),
        None => ("-".to_string(), "-".to_string()),
    };
    // parameters: the location is the parameter list, which the IR dump does not carry
    let (s, e) = if kind == "unusedparam" || kind == "paramnse" { ("-".to_string(), "-".to_string()) } else { (s, e) };
    format!("({} {} {} {} {})", r.id(), kind, irdump::hexs(&name), s, e)
}

fn analyse(cfg: &Cfg) -> String {
    let taint = run_taint_analysis(cfg);
    let cons = run_constraint_analysis(cfg);
    // universe of names
    let mut universe: BTreeMap<String, VariableName> = BTreeMap::new();
    let mut add = |v: &VariableName| {
        universe.insert(vs(v), v.clone());
    };
    for p in cfg.parameters().iter() {
        add(p);
    }
    for (n, _) in cfg.declarations().iter() {
        add(n);
    }
    for bb in cfg.iter() {
        for stmt in bb.iter() {
            if let Statement::Declaration { names, .. } = stmt {
                for n in names.iter() {
                    add(n);
                }
            }
            for u in stmt.variables_read() {
                add(u.name());
            }
            for u in stmt.variables_written() {
                add(u.name());
            }
        }
    }
    let mut t1 = Vec::new();
    let mut tc = Vec::new();
    let mut c1 = Vec::new();
    let mut cc = Vec::new();
    for (k, v) in universe.iter() {
        let s = taint.single_step_taint(v);
        if !s.is_empty() {
            t1.push(format!("({} {})", k, set_str(s.iter())));
        }
        tc.push(format!("({} {})", k, set_str(taint.multi_step_taint(v).iter())));
        let s = cons.single_step_constraint(v);
        if !s.is_empty() {
            c1.push(format!("({} {})", k, set_str(s.iter())));
        }
        cc.push(format!("({} {})", k, set_str(cons.multi_step_constraint(v).iter())));
    }
    let constrained = cons.constrained_variables();
    let mut defs: Vec<String> = taint
        .definitions()
        .map(|u| {
            if cfg.parameters().contains(u.name()) {
                // location of the parameter list: not part of the IR dump
                format!("({} - -)", vs(u.name()))
            } else {
                format!("({} {} {})", vs(u.name()), u.meta().start(), u.meta().end())
            }
        })
        .collect();
    defs.sort();
    let decls = set_str(taint.declarations().map(|u| u.name()));

    // sinks, recomputed as in run_side_effect_analysis (public API only). TRANSCRIPTION of
    // /repo/program_analysis/src/side_effect_analysis.rs (commit 81d7439), statement for statement:
    //   `exported`        <- lines 254-278 (signal_decls filtered to Input | Output: exported_signals)
    //   `exported_sinks`  <- lines 282-285
    //   `sinks` (C)       <- lines 289-299 (constraint partners; the source itself if it has any)
    //   `sinks.extend(exported)` <- line 302
    //   first block loop  <- lines 307-322 (repair 7b80e23: tainted names used by a constraint statement)
    //   second block loop <- lines 327-339 (Declaration | Return | Assert | IfThenElse: variables_read)
    // lib/props/C09.py pins the text of lines 254-341 (SINK_CODE_SHA256), checks that this set explains the
    // REAL reports (sink_consistency) and runs the sink probes of lib/c09probe.py against the real pass.
    let exported: HashSet<VariableName> = cfg
        .declarations()
        .iter()
        .filter_map(|(n, d)| {
            if matches!(d.variable_type(), VariableType::Signal(SignalType::Input | SignalType::Output, _)) {
                Some(n.clone())
            } else {
                None
            }
        })
        .collect();
    let exported_sinks: HashSet<VariableName> = exported.iter().flat_map(|s| taint.multi_step_taint(s)).collect();
    let mut sinks: HashSet<VariableName> = exported_sinks
        .iter()
        .flat_map(|s| {
            let mut r = cons.multi_step_constraint(s);
            if !r.is_empty() {
                r.insert(s.clone());
            }
            r
        })
        .collect();
    sinks.extend(exported);
    for bb in cfg.iter() {
        for stmt in bb.iter() {
            if matches!(
                stmt,
                Statement::ConstraintEquality { .. } | Statement::Substitution { op: AssignOp::AssignConstraintSignal, .. }
            ) {
                sinks.extend(stmt.variables_used().map(|v| v.name().clone()).filter(|n| exported_sinks.contains(n)));
            }
        }
    }
    for bb in cfg.iter() {
        for stmt in bb.iter() {
            use Statement::*;
            match stmt {
                Declaration { .. } | Return { .. } | Assert { .. } | IfThenElse { .. } => {
                    sinks.extend(stmt.variables_read().map(|v| v.name().clone()));
                }
                _ => {}
            }
        }
    }

    let reports = run_side_effect_analysis(cfg);
    let mut findings: Vec<String> = reports.iter().map(|r| finding(r, cfg, &taint)).collect();
    findings.sort();

    format!(
        "(result (universe {}) (taint {}) (closure {}) (cons {}) (ccl {}) (constrained {}) (defs {}) (decls {}) (sinks {}) (bset {}) (findings {}))",
        universe.keys().cloned().collect::<Vec<_>>().join(" "),
        t1.join(" "),
        tc.join(" "),
        c1.join(" "),
        cc.join(" "),
        set_str(constrained.iter()),
        defs.join(" "),
        decls,
        set_str(sinks.iter()),
        // the names the real analysis finds tainted by an input or output signal (`exported_sinks`)
        set_str(exported_sinks.iter()),
        findings.join(" ")
    )
}

fn finish(cfg: Cfg) -> String {
    let cfg = match verif_harness::guarded(|| cfg.into_ssa()) {
        None => return "(panic ssa)".to_string(),
        Some(Err(_)) => return "(ssaerr)".to_string(),
        Some(Ok(c)) => c,
    };
    match verif_harness::guarded(|| format!("(ok {} {} {} {})", irdump::cfg(&cfg), branches(&cfg), analyse(&cfg), irdump::idoms(&cfg))) {
        None => "(panic analysis)".to_string(),
        Some(s) => s,
    }
}

/// `file:<hex>`: a whole source file (the analysed definition FIRST, helper templates after it, so that
/// byte offsets are those of the definition alone). The REAL `remove_syntactic_sugar` runs on the
/// definition maps as the program library builds them (anonymous components, tuples, `_`), then the
/// first definition goes through into_cfg / into_ssa / the analyses like a single definition.
fn run_file(hex: &str) -> String {
    use parser::verif::{parse_source, remove_syntactic_sugar};
    use program_structure::file_definition::FileLibrary;
    use program_structure::function_data::FunctionData;
    use program_structure::template_data::TemplateData;
    use std::collections::HashMap;
    let src = irdump::unhex(hex.trim());
    let mut file_library = FileLibrary::new();
    let file_id = file_library.add_file("memory.circom".to_string(), src.clone(), true);
    let ast = match verif_harness::guarded(|| parse_source(&src, file_id)) {
        None => return "(panic parse)".to_string(),
        Some(Err(_)) => return "(parseerr)".to_string(),
        Some(Ok(ast)) => ast,
    };
    let mut templates: HashMap<String, TemplateData> = HashMap::new();
    let mut functions: HashMap<String, FunctionData> = HashMap::new();
    let mut elem_id = 0;
    let mut first: Option<(bool, String)> = None;
    for definition in ast.definitions {
        match definition {
            Definition::Function { name, args, arg_location, body, .. } => {
                first.get_or_insert((false, name.clone()));
                functions.insert(
                    name.clone(),
                    FunctionData::new(name, file_id, body, args.len(), args, arg_location, &mut elem_id),
                );
            }
            Definition::Template { name, args, arg_location, body, parallel, is_custom_gate, .. } => {
                first.get_or_insert((true, name.clone()));
                templates.insert(
                    name.clone(),
                    TemplateData::new(name, file_id, body, args.len(), args, arg_location, &mut elem_id, parallel, is_custom_gate),
                );
            }
        }
    }
    let mut reports = ReportCollection::new();
    let (templates, functions) =
        match verif_harness::guarded(|| remove_syntactic_sugar(&templates, &functions, &file_library, &mut reports)) {
            None => return "(panic sugar)".to_string(),
            Some(r) => r,
        };
    let mut reports = ReportCollection::new();
    let cfg = match first {
        Some((true, name)) => match templates.get(&name) {
            Some(t) => verif_harness::guarded(|| t.into_cfg(&Curve::default(), &mut reports)),
            None => return "(sugarerr)".to_string(),
        },
        Some((false, name)) => match functions.get(&name) {
            Some(f) => verif_harness::guarded(|| f.into_cfg(&Curve::default(), &mut reports)),
            None => return "(sugarerr)".to_string(),
        },
        None => return "(parseerr)".to_string(),
    };
    match cfg {
        None => "(panic cfg)".to_string(),
        Some(Err(_)) => "(cfgerr)".to_string(),
        Some(Ok(c)) => finish(c),
    }
}

fn run(line: &str) -> String {
    if let Some(hex) = line.trim().strip_prefix("file:") {
        return run_file(hex);
    }
    let src = irdump::unhex(line.trim());
    let mut def = match verif_harness::guarded(|| parse_definition(&src)) {
        None => return "(panic parse)".to_string(),
        Some(None) => return "(parseerr)".to_string(),
        Some(Some(d)) => d,
    };
    // what the program library does for definitions of a parsed file: file ids on every node
    match &mut def {
        Definition::Template { meta, body, .. } | Definition::Function { meta, body, .. } => {
            meta.set_file_id(0);
            let mut id = 0;
            body.fill(0, &mut id);
        }
    }
    let mut reports = ReportCollection::new();
    let cfg = match verif_harness::guarded(|| def.into_cfg(&Curve::default(), &mut reports)) {
        None => return "(panic cfg)".to_string(),
        Some(Err(_)) => return "(cfgerr)".to_string(),
        Some(Ok(c)) => c,
    };
    finish(cfg)
}

fn main() {
    verif_harness::silence_panics();
    verif_harness::each_line(run);
}
