// Engine `taint` (C09): one definition per line, `<hex source>`.
//
// Pipeline of the implementation: parse_definition -> (file ids filled in, so that the
// reports carry their primary location) -> into_cfg -> into_ssa -> run_taint_analysis,
// run_constraint_analysis, run_side_effect_analysis.
//
// Prints `(ok CFG BRANCHES RESULT IDOM)` or `(parseerr)` / `(cfgerr)` / `(ssaerr)` / `(panic STAGE)`.
//
//   CFG      := the SSA cfg in the format of irdump.rs
//   BRANCHES := (branches (IDX (T*) (F*))*)   for every block ending in an if: the block indices of
//               Cfg::get_true_branch / get_false_branch (sorted, duplicate free). This is an *input*
//               of the model (dominance frontiers are another property's model).
//   IDOM     := (idom I0 I1 ...) the implementation's immediate dominators (irdump::idoms): the untrusted
//               certificate for the verified SSA validator Model.SsaCheck.ssa_check, whose verdict is a
//               hypothesis of C09_location_is_unique_definition and is evaluated by the model driver.
//   RESULT   := (result (universe V*) (taint (V V*)*) (closure (V V*)*) (cons (V V*)*) (ccl (V V*)*)
//                       (constrained V*) (defs (V START END)*) (decls V*) (sinks V*)
//                       (findings (CODE KIND NAMEHEX START|- END|-)*))
//   universe: parameters, declaration keys, declared names, every name read or written.
//   taint/cons: single_step_taint / single_step_constraint per universe name with a non-empty image;
//   closure/ccl: multi_step_taint / multi_step_constraint per universe name.
//   sinks: recomputed HERE from the public API exactly as run_side_effect_analysis does (its own
//   sink set is a local variable); the findings are the real reports of run_side_effect_analysis.
use parser::parse_definition;
use program_analysis::constraint_analysis::run_constraint_analysis;
use program_analysis::analysis_context::{AnalysisContext, AnalysisError};
use program_analysis::get_analysis_passes;
use program_analysis::taint_analysis::run_taint_analysis;
use program_structure::ast::{Definition, FillMeta};
use program_structure::cfg::{Cfg, IntoCfg};
use program_structure::constants::Curve;
use program_structure::ir::variable_meta::VariableMeta;
use program_structure::ir::{AssignOp, SignalType, Statement, VariableName, VariableType};
use program_structure::file_definition::{FileID, FileLocation};
use program_structure::report::{Report, ReportCollection};
use std::collections::{BTreeMap, BTreeSet, HashSet};
use verif_harness::irdump;

/// `side_effect_analysis` is a private module: its reports are obtained by running the registered
/// passes (each guarded) and keeping the codes only that pass emits.
struct NoContext;
impl AnalysisContext for NoContext {
    fn is_function(&self, _: &str) -> bool {
        false
    }
    fn is_template(&self, _: &str) -> bool {
        false
    }
    fn function(&mut self, name: &str) -> Result<&Cfg, AnalysisError> {
        Err(AnalysisError::UnknownFunction { name: name.to_string() })
    }
    fn template(&mut self, name: &str) -> Result<&Cfg, AnalysisError> {
        Err(AnalysisError::UnknownTemplate { name: name.to_string() })
    }
    fn underlying_str(&self, file_id: &FileID, _: &FileLocation) -> Result<String, AnalysisError> {
        Err(AnalysisError::UnknownFile { file_id: *file_id })
    }
}

fn run_side_effect_analysis(cfg: &Cfg) -> ReportCollection {
    let mut out = ReportCollection::new();
    for pass in get_analysis_passes() {
        let mut ctx = NoContext;
        if let Some(reports) = verif_harness::guarded(|| pass(&mut ctx, cfg)) {
            for r in reports {
                if matches!(r.id().as_str(), "CS0006" | "CS0007" | "CS0008" | "CA01") {
                    out.push(r);
                }
            }
        }
    }
    out
}

fn vs(v: &VariableName) -> String {
    irdump::var(v)
}

fn set_str<'a>(it: impl Iterator<Item = &'a VariableName>) -> String {
    let s: BTreeSet<String> = it.map(vs).collect();
    s.into_iter().collect::<Vec<_>>().join(" ")
}

fn branches(cfg: &Cfg) -> String {
    let mut parts = Vec::new();
    for bb in cfg.iter() {
        if let Some(Statement::IfThenElse { .. }) = bb.iter().last() {
            let t: BTreeSet<usize> = cfg.get_true_branch(bb).iter().map(|b| b.index()).collect();
            let f: BTreeSet<usize> = cfg.get_false_branch(bb).iter().map(|b| b.index()).collect();
            let show = |s: &BTreeSet<usize>| s.iter().map(|x| x.to_string()).collect::<Vec<_>>().join(" ");
            parts.push(format!("({} ({}) ({}))", bb.index(), show(&t), show(&f)));
        }
    }
    format!("(branches {})", parts.join(" "))
}

fn finding(r: &Report) -> String {
    let msg = r.message();
    let kind = if msg.starts_with("The variable `") {
        "unusedvar"
    } else if msg.starts_with("The parameter `") && msg.ends_with("is never read.") {
        "unusedparam"
    } else if msg.starts_with("The value assigned to `") {
        "varnse"
    } else if msg.starts_with("The parameter `") {
        "paramnse"
    } else if msg.starts_with("The signal") && msg.contains("not used by") {
        "unusedsig"
    } else if msg.starts_with("The signal") && msg.contains("not constrained by") {
        "unconstrained"
    } else {
        "other"
    };
    // the displayed variable: text between the first pair of backquotes, cut at the first access
    let name = msg.split('`').nth(1).unwrap_or("");
    let name = name.split(|c| c == '[' || c == '.').next().unwrap_or("");
    let (s, e) = match r.primary().first() {
        Some(l) => (l.range.start.to_string(), l.range.end.to_string()),
        None => ("-".to_string(), "-".to_string()),
    };
    // parameters: the location is the parameter list, which the IR dump does not carry
    let (s, e) = if kind == "unusedparam" || kind == "paramnse" { ("-".to_string(), "-".to_string()) } else { (s, e) };
    format!("({} {} {} {} {})", r.id(), kind, irdump::hexs(name), s, e)
}

fn analyse(cfg: &Cfg) -> String {
    let taint = run_taint_analysis(cfg);
    let cons = run_constraint_analysis(cfg);
    // universe of names
    let mut universe: BTreeMap<String, VariableName> = BTreeMap::new();
    let mut add = |v: &VariableName| {
        universe.insert(vs(v), v.clone());
    };
    for p in cfg.parameters().iter() {
        add(p);
    }
    for (n, _) in cfg.declarations().iter() {
        add(n);
    }
    for bb in cfg.iter() {
        for stmt in bb.iter() {
            if let Statement::Declaration { names, .. } = stmt {
                for n in names.iter() {
                    add(n);
                }
            }
            for u in stmt.variables_read() {
                add(u.name());
            }
            for u in stmt.variables_written() {
                add(u.name());
            }
        }
    }
    let mut t1 = Vec::new();
    let mut tc = Vec::new();
    let mut c1 = Vec::new();
    let mut cc = Vec::new();
    for (k, v) in universe.iter() {
        let s = taint.single_step_taint(v);
        if !s.is_empty() {
            t1.push(format!("({} {})", k, set_str(s.iter())));
        }
        tc.push(format!("({} {})", k, set_str(taint.multi_step_taint(v).iter())));
        let s = cons.single_step_constraint(v);
        if !s.is_empty() {
            c1.push(format!("({} {})", k, set_str(s.iter())));
        }
        cc.push(format!("({} {})", k, set_str(cons.multi_step_constraint(v).iter())));
    }
    let constrained = cons.constrained_variables();
    let mut defs: Vec<String> = taint
        .definitions()
        .map(|u| {
            if cfg.parameters().contains(u.name()) {
                // location of the parameter list: not part of the IR dump
                format!("({} - -)", vs(u.name()))
            } else {
                format!("({} {} {})", vs(u.name()), u.meta().start(), u.meta().end())
            }
        })
        .collect();
    defs.sort();
    let decls = set_str(taint.declarations().map(|u| u.name()));

    // sinks, recomputed as in run_side_effect_analysis (public API only). TRANSCRIPTION of
    // /repo/program_analysis/src/side_effect_analysis.rs (commit 81d7439), statement for statement:
    //   `exported`        <- lines 254-278 (signal_decls filtered to Input | Output: exported_signals)
    //   `exported_sinks`  <- lines 282-285
    //   `sinks` (C)       <- lines 289-299 (constraint partners; the source itself if it has any)
    //   `sinks.extend(exported)` <- line 302
    //   first block loop  <- lines 307-322 (repair 7b80e23: tainted names used by a constraint statement)
    //   second block loop <- lines 327-339 (Declaration | Return | Assert | IfThenElse: variables_read)
    // lib/props/C09.py pins the text of lines 254-341 (SINK_CODE_SHA256), checks that this set explains the
    // REAL reports (sink_consistency) and runs the sink probes of lib/c09probe.py against the real pass.
    let exported: HashSet<VariableName> = cfg
        .declarations()
        .iter()
        .filter_map(|(n, d)| {
            if matches!(d.variable_type(), VariableType::Signal(SignalType::Input | SignalType::Output, _)) {
                Some(n.clone())
            } else {
                None
            }
        })
        .collect();
    let exported_sinks: HashSet<VariableName> = exported.iter().flat_map(|s| taint.multi_step_taint(s)).collect();
    let mut sinks: HashSet<VariableName> = exported_sinks
        .iter()
        .flat_map(|s| {
            let mut r = cons.multi_step_constraint(s);
            if !r.is_empty() {
                r.insert(s.clone());
            }
            r
        })
        .collect();
    sinks.extend(exported);
    for bb in cfg.iter() {
        for stmt in bb.iter() {
            if matches!(
                stmt,
                Statement::ConstraintEquality { .. } | Statement::Substitution { op: AssignOp::AssignConstraintSignal, .. }
            ) {
                sinks.extend(stmt.variables_used().map(|v| v.name().clone()).filter(|n| exported_sinks.contains(n)));
            }
        }
    }
    for bb in cfg.iter() {
        for stmt in bb.iter() {
            use Statement::*;
            match stmt {
                Declaration { .. } | Return { .. } | Assert { .. } | IfThenElse { .. } => {
                    sinks.extend(stmt.variables_read().map(|v| v.name().clone()));
                }
                _ => {}
            }
        }
    }

    let reports = run_side_effect_analysis(cfg);
    let mut findings: Vec<String> = reports.iter().map(finding).collect();
    findings.sort();

    format!(
        "(result (universe {}) (taint {}) (closure {}) (cons {}) (ccl {}) (constrained {}) (defs {}) (decls {}) (sinks {}) (findings {}))",
        universe.keys().cloned().collect::<Vec<_>>().join(" "),
        t1.join(" "),
        tc.join(" "),
        c1.join(" "),
        cc.join(" "),
        set_str(constrained.iter()),
        defs.join(" "),
        decls,
        set_str(sinks.iter()),
        findings.join(" ")
    )
}

fn run(line: &str) -> String {
    let src = irdump::unhex(line.trim());
    let mut def = match verif_harness::guarded(|| parse_definition(&src)) {
        None => return "(panic parse)".to_string(),
        Some(None) => return "(parseerr)".to_string(),
        Some(Some(d)) => d,
    };
    // what the program library does for definitions of a parsed file: file ids on every node
    match &mut def {
        Definition::Template { meta, body, .. } | Definition::Function { meta, body, .. } => {
            meta.set_file_id(0);
            let mut id = 0;
            body.fill(0, &mut id);
        }
    }
    let mut reports = ReportCollection::new();
    let cfg = match verif_harness::guarded(|| def.into_cfg(&Curve::default(), &mut reports)) {
        None => return "(panic cfg)".to_string(),
        Some(Err(_)) => return "(cfgerr)".to_string(),
        Some(Ok(c)) => c,
    };
    let cfg = match verif_harness::guarded(|| cfg.into_ssa()) {
        None => return "(panic ssa)".to_string(),
        Some(Err(_)) => return "(ssaerr)".to_string(),
        Some(Ok(c)) => c,
    };
    match verif_harness::guarded(|| format!("(ok {} {} {} {})", irdump::cfg(&cfg), branches(&cfg), analyse(&cfg), irdump::idoms(&cfg))) {
        None => "(panic analysis)".to_string(),
        Some(s) => s,
    }
}

fn main() {
    verif_harness::silence_panics();
    verif_harness::each_line(run);
}
