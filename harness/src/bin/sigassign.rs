// Engine `sigassign` (C08): one Circom *file* per line (hex-encoded UTF-8 source).
// The file goes through the real front end (`parser::parse_files`: parse,
// desugaring of tuples / anonymous components with the template library
// available), every definition is lifted (`into_cfg` + `into_ssa`, as
// `analysis_runner::generate_cfg` does) and handed to every analysis pass of
// `program_analysis::get_analysis_passes()`; the CS0005 / CS0013 reports are
// kept (the pass itself, `signal_assignments`, is a private module).
//
// Output, one line per input:
//   (file MODE NPARSEREPORTS (DEF*))
//   DEF  := (def KIND NAME (ok CFG (R*) NPANICS)) | (def KIND NAME (liftfail STAGE))
//   R    := (r CODE (M*) (M*))      primary labels, secondary labels (sorted)
//   M    := (m START END FILE)
//   CFG  := the irdump of the SSA cfg (see irdump.rs)
// or (panic parse_files) / (badline).
use parser::ParseResult;
use program_analysis::analysis_context::{AnalysisContext, AnalysisError};
use program_analysis::{config, get_analysis_passes};
use program_structure::cfg::{Cfg, IntoCfg};
use program_structure::constants::Curve;
use program_structure::file_definition::{FileID, FileLibrary, FileLocation};
use program_structure::function_data::FunctionInfo;
use program_structure::report::{Report, ReportCollection, ReportLabel};
use program_structure::template_data::TemplateInfo;
use std::collections::HashMap;
use std::path::PathBuf;
use verif_harness::{each_line, guarded, irdump, silence_panics};

fn lift<Ast: IntoCfg>(ast: Ast, curve: &Curve) -> Result<Cfg, &'static str> {
    let mut reports = ReportCollection::new();
    match ast.into_cfg(curve, &mut reports) {
        Err(_) => Err("cfg"),
        Ok(cfg) => match cfg.into_ssa() {
            Err(_) => Err("ssa"),
            Ok(cfg) => Ok(cfg),
        },
    }
}

struct Ctx<'a> {
    templates: &'a TemplateInfo,
    functions: &'a FunctionInfo,
    files: &'a FileLibrary,
    curve: Curve,
    tcfgs: HashMap<String, Option<Cfg>>,
    fcfgs: HashMap<String, Option<Cfg>>,
}

impl<'a> AnalysisContext for Ctx<'a> {
    fn is_function(&self, name: &str) -> bool {
        self.functions.contains_key(name)
    }

    fn is_template(&self, name: &str) -> bool {
        self.templates.contains_key(name)
    }

    fn function(&mut self, name: &str) -> Result<&Cfg, AnalysisError> {
        if !self.fcfgs.contains_key(name) {
            let Some(ast) = self.functions.get(name) else {
                return Err(AnalysisError::UnknownFunction { name: name.to_string() });
            };
            let cfg = guarded(|| lift(ast, &self.curve).ok()).flatten();
            self.fcfgs.insert(name.to_string(), cfg);
        }
        match self.fcfgs.get(name).unwrap() {
            Some(cfg) => Ok(cfg),
            None => Err(AnalysisError::FailedToLiftFunction { name: name.to_string() }),
        }
    }

    fn template(&mut self, name: &str) -> Result<&Cfg, AnalysisError> {
        if !self.tcfgs.contains_key(name) {
            let Some(ast) = self.templates.get(name) else {
                return Err(AnalysisError::UnknownTemplate { name: name.to_string() });
            };
            let cfg = guarded(|| lift(ast, &self.curve).ok()).flatten();
            self.tcfgs.insert(name.to_string(), cfg);
        }
        match self.tcfgs.get(name).unwrap() {
            Some(cfg) => Ok(cfg),
            None => Err(AnalysisError::FailedToLiftTemplate { name: name.to_string() }),
        }
    }

    fn underlying_str(
        &self,
        file_id: &FileID,
        file_location: &FileLocation,
    ) -> Result<String, AnalysisError> {
        let Ok(file) = self.files.to_storage().get(*file_id) else {
            return Err(AnalysisError::UnknownFile { file_id: *file_id });
        };
        if file_location.end <= file.source().len() {
            Ok(file.source()[file_location.start..file_location.end].to_string())
        } else {
            Err(AnalysisError::InvalidLocation {
                file_id: *file_id,
                file_location: file_location.clone(),
            })
        }
    }
}

fn label(l: &ReportLabel) -> String {
    format!("(m {} {} {})", l.range.start, l.range.end, l.file_id)
}

fn labels(ls: &[ReportLabel]) -> String {
    let mut v: Vec<(usize, usize, usize)> =
        ls.iter().map(|l| (l.file_id, l.range.start, l.range.end)).collect();
    v.sort_unstable();
    let parts: Vec<String> = v.iter().map(|(f, s, e)| format!("(m {} {} {})", s, e, f)).collect();
    format!("({})", parts.join(" "))
}

fn report(r: &Report) -> String {
    let prim: Vec<String> = r.primary().iter().map(label).collect();
    format!("(r {} ({}) {})", r.id(), prim.join(" "), labels(r.secondary()))
}

fn definition(kind: &str, name: &str, lifted: Option<Result<Cfg, &'static str>>, ctx: &mut Ctx) -> String {
    let head = format!("(def {} {}", kind, irdump::hexs(name));
    let cfg = match lifted {
        None => return format!("{} (liftfail panic))", head),
        Some(Err(stage)) => return format!("{} (liftfail {}))", head, stage),
        Some(Ok(cfg)) => cfg,
    };
    let mut found: Vec<String> = Vec::new();
    let mut panics = 0;
    for pass in get_analysis_passes() {
        match guarded(|| pass(ctx, &cfg)) {
            Some(reports) => {
                for r in &reports {
                    let id = r.id();
                    if id == "CS0005" || id == "CS0013" {
                        found.push(report(r));
                    }
                }
            }
            None => panics += 1,
        }
    }
    found.sort();
    format!("{} (ok {} ({}) {}))", head, irdump::cfg(&cfg), found.join(" "), panics)
}

fn run(line: &str, path: &PathBuf) -> String {
    let t: Vec<&str> = line.split_whitespace().collect();
    if t.len() != 1 {
        return "(badline)".to_string();
    }
    let src = irdump::unhex(t[0]);
    if std::fs::write(path, src).is_err() {
        return "(badline)".to_string();
    }
    let files_in = vec![path.clone()];
    let Some(result) = guarded(|| parser::parse_files(&files_in, &[], &config::COMPILER_VERSION))
    else {
        return "(panic parse_files)".to_string();
    };
    let (mode, templates, functions, files, parse_reports) = match result {
        ParseResult::Program(p, r) => ("program", p.templates, p.functions, p.file_library, r),
        ParseResult::Library(l, r) => ("library", l.templates, l.functions, l.file_library, r),
    };
    let curve = Curve::default();
    let mut ctx = Ctx {
        templates: &templates,
        functions: &functions,
        files: &files,
        curve: curve.clone(),
        tcfgs: HashMap::new(),
        fcfgs: HashMap::new(),
    };
    let mut defs = Vec::new();
    let mut names: Vec<&String> = functions.keys().collect();
    names.sort();
    for name in names {
        let ast = &functions[name];
        let lifted = guarded(|| lift(ast, &curve));
        defs.push(definition("function", name, lifted, &mut ctx));
    }
    let mut names: Vec<&String> = templates.keys().collect();
    names.sort();
    for name in names {
        let ast = &templates[name];
        let lifted = guarded(|| lift(ast, &curve));
        defs.push(definition("template", name, lifted, &mut ctx));
    }
    format!("(file {} {} ({}))", mode, parse_reports.len(), defs.join(" "))
}

fn main() {
    silence_panics();
    let dir = std::env::temp_dir().join(format!("verif-sigassign-{}", std::process::id()));
    let _ = std::fs::create_dir_all(&dir);
    let path = dir.join("input.circom");
    each_line(|line| run(line, &path));
    let _ = std::fs::remove_dir_all(&dir);
}
