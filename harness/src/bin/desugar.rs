// Engine `desugar` (property C18): runs the REAL parser and the REAL
// `remove_syntactic_sugar` on Circom sources and prints, per input line,
//   PRE  <sexp of the definitions as parsed (TemplateData/FunctionData bodies)>
//   POST <sexp of the templates/functions handed on, sorted by name> | panic
//   REP  <sorted reports>
//   PIPE <ok|panic ...>   (into_cfg + into_ssa of everything handed on)
//   LIB  <mode> TAB LIBREP <reports>   and   PROG <mode> ... TAB PROGREP <reports>: what the
//        REAL `parser::parse_files` hands on for the same text written to a file, once as it
//        is (no main component: `ParseResult::Library`) and once with a main component
//        appended (`ParseResult::Program`): `<mode>` is `library`/`program`, followed by the
//        definitions in the POST format (`=` when they are literally the POST field)
//   IO   <(in ..)(out ..) of EVERY parsed template, kept or rejected, as TemplateData::new recorded them>
//   REPCAT / LIBREPCAT / PROGREPCAT  <name:category of every report of the corresponding list>
// Fourth audit: the text may hold several files (`\n//@@FILE <name>\n` starts the next one; the first is the
// main file and `include`s the others): each is parsed under its own file id for the hook route, and all are
// written to a directory for the parse_files routes.  One program in five gets an ANONYMOUS main component
// (`component main = A0()();`, mode `program-anon`) instead of `component main = A0();`.
// separated by tabs.  Input line: the source with `\n` and `\\` escaped.
// The printer matches every constructor and every field explicitly (no `..` on
// children), so that a sugar node anywhere in a tree shows up in the text.
use parser::verif::{parse_source, remove_syntactic_sugar};
use program_structure::ast::*;
use program_structure::cfg::IntoCfg;
use program_structure::constants::Curve;
use program_structure::file_definition::FileLibrary;
use program_structure::function_data::FunctionData;
use program_structure::report::{Report, ReportCollection};
use program_structure::template_data::TemplateData;
use std::collections::HashMap;
use std::fmt::Write as _;
use verif_harness::{each_line, guarded, silence_panics};

fn hexs(s: &str) -> String {
    let mut o = String::from("x");
    for b in s.bytes() {
        write!(o, "{:02x}", b).unwrap();
    }
    o
}

fn meta(m: &Meta) -> String {
    match m.file_id {
        Some(f) => format!("@{}:{}:{}", m.start, m.end, f),
        None => format!("@{}:{}:-", m.start, m.end),
    }
}

fn op(o: &AssignOp) -> &'static str {
    match o {
        AssignOp::AssignVar => "av",
        AssignOp::AssignSignal => "as",
        AssignOp::AssignConstraintSignal => "acs",
    }
}

fn xtype(t: &VariableType) -> String {
    match t {
        VariableType::Var => "var".to_string(),
        VariableType::Component => "comp".to_string(),
        VariableType::AnonymousComponent => "anoncomp".to_string(),
        VariableType::Signal(st, tags) => {
            let s = match st {
                SignalType::Input => "in",
                SignalType::Output => "out",
                SignalType::Intermediate => "mid",
            };
            let mut o = format!("(sig {}", s);
            for t in tags {
                o.push(' ');
                o.push_str(t);
            }
            o.push(')');
            o
        }
    }
}

fn infix(o: &ExpressionInfixOpcode) -> &'static str {
    use ExpressionInfixOpcode::*;
    match o {
        Mul => "Mul",
        Div => "Div",
        Add => "Add",
        Sub => "Sub",
        Pow => "Pow",
        IntDiv => "IntDiv",
        Mod => "Mod",
        ShiftL => "ShiftL",
        ShiftR => "ShiftR",
        LesserEq => "LesserEq",
        GreaterEq => "GreaterEq",
        Lesser => "Lesser",
        Greater => "Greater",
        Eq => "Eq",
        NotEq => "NotEq",
        BoolOr => "BoolOr",
        BoolAnd => "BoolAnd",
        BitOr => "BitOr",
        BitAnd => "BitAnd",
        BitXor => "BitXor",
    }
}

fn prefix(o: &ExpressionPrefixOpcode) -> &'static str {
    match o {
        ExpressionPrefixOpcode::Sub => "Neg",
        ExpressionPrefixOpcode::BoolNot => "BoolNot",
        ExpressionPrefixOpcode::Complement => "Complement",
    }
}

fn exprs(out: &mut String, es: &[Expression]) {
    for e in es {
        out.push(' ');
        expr(out, e);
    }
}

fn access(out: &mut String, acc: &[Access]) {
    out.push('(');
    out.push_str("acc");
    for a in acc {
        match a {
            Access::ComponentAccess(n) => {
                write!(out, " (ca {})", n).unwrap();
            }
            Access::ArrayAccess(e) => {
                out.push_str(" (aa ");
                expr(out, e);
                out.push(')');
            }
        }
    }
    out.push(')');
}

fn expr(out: &mut String, e: &Expression) {
    match e {
        Expression::InfixOp { meta: m, lhe, infix_op, rhe } => {
            write!(out, "(infix {} {} ", meta(m), infix(infix_op)).unwrap();
            expr(out, lhe);
            out.push(' ');
            expr(out, rhe);
            out.push(')');
        }
        Expression::PrefixOp { meta: m, prefix_op, rhe } => {
            write!(out, "(prefix {} {} ", meta(m), prefix(prefix_op)).unwrap();
            expr(out, rhe);
            out.push(')');
        }
        Expression::InlineSwitchOp { meta: m, cond, if_true, if_false } => {
            write!(out, "(switch {} ", meta(m)).unwrap();
            expr(out, cond);
            out.push(' ');
            expr(out, if_true);
            out.push(' ');
            expr(out, if_false);
            out.push(')');
        }
        Expression::ParallelOp { meta: m, rhe } => {
            write!(out, "(par {} ", meta(m)).unwrap();
            expr(out, rhe);
            out.push(')');
        }
        Expression::Variable { meta: m, name, access: acc } => {
            write!(out, "(var {} {} ", meta(m), name).unwrap();
            access(out, acc);
            out.push(')');
        }
        Expression::Number(m, v) => {
            write!(out, "(num {} {})", meta(m), v.to_str_radix(16)).unwrap();
        }
        Expression::Call { meta: m, id, args } => {
            write!(out, "(call {} {}", meta(m), id).unwrap();
            exprs(out, args);
            out.push(')');
        }
        Expression::AnonymousComponent { meta: m, id, is_parallel, params, signals, names } => {
            write!(out, "(anon {} {} {} (params", meta(m), id, if *is_parallel { 1 } else { 0 })
                .unwrap();
            exprs(out, params);
            out.push_str(") (signals");
            exprs(out, signals);
            out.push(')');
            match names {
                None => out.push_str(" nonames"),
                Some(ns) => {
                    out.push_str(" (names");
                    for (o, n) in ns {
                        write!(out, " ({} {})", op(o), n).unwrap();
                    }
                    out.push(')');
                }
            }
            out.push(')');
        }
        Expression::ArrayInLine { meta: m, values } => {
            write!(out, "(array {}", meta(m)).unwrap();
            exprs(out, values);
            out.push(')');
        }
        Expression::Tuple { meta: m, values } => {
            write!(out, "(tuple {}", meta(m)).unwrap();
            exprs(out, values);
            out.push(')');
        }
    }
}

fn stmts(out: &mut String, ss: &[Statement]) {
    for s in ss {
        out.push(' ');
        stmt(out, s);
    }
}

fn stmt(out: &mut String, s: &Statement) {
    match s {
        Statement::IfThenElse { meta: m, cond, if_case, else_case } => {
            write!(out, "(if {} ", meta(m)).unwrap();
            expr(out, cond);
            out.push(' ');
            stmt(out, if_case);
            if let Some(e) = else_case {
                out.push(' ');
                stmt(out, e);
            }
            out.push(')');
        }
        Statement::While { meta: m, cond, stmt: body } => {
            write!(out, "(while {} ", meta(m)).unwrap();
            expr(out, cond);
            out.push(' ');
            stmt(out, body);
            out.push(')');
        }
        Statement::Return { meta: m, value } => {
            write!(out, "(return {} ", meta(m)).unwrap();
            expr(out, value);
            out.push(')');
        }
        Statement::InitializationBlock { meta: m, xtype: t, initializations } => {
            write!(out, "(initblock {} {}", meta(m), xtype(t)).unwrap();
            stmts(out, initializations);
            out.push(')');
        }
        Statement::Declaration { meta: m, xtype: t, name, dimensions, is_constant } => {
            write!(out, "(decl {} {} {} {}", meta(m), xtype(t), name, if *is_constant { 1 } else { 0 })
                .unwrap();
            exprs(out, dimensions);
            out.push(')');
        }
        Statement::Substitution { meta: m, var, access: acc, op: o, rhe } => {
            write!(out, "(sub {} {} {} ", meta(m), var, op(o)).unwrap();
            access(out, acc);
            out.push(' ');
            expr(out, rhe);
            out.push(')');
        }
        Statement::MultiSubstitution { meta: m, lhe, op: o, rhe } => {
            write!(out, "(msub {} {} ", meta(m), op(o)).unwrap();
            expr(out, lhe);
            out.push(' ');
            expr(out, rhe);
            out.push(')');
        }
        Statement::ConstraintEquality { meta: m, lhe, rhe } => {
            write!(out, "(ceq {} ", meta(m)).unwrap();
            expr(out, lhe);
            out.push(' ');
            expr(out, rhe);
            out.push(')');
        }
        Statement::LogCall { meta: m, args } => {
            write!(out, "(log {}", meta(m)).unwrap();
            for a in args {
                match a {
                    LogArgument::LogStr(s) => {
                        write!(out, " (str {})", hexs(s)).unwrap();
                    }
                    LogArgument::LogExp(e) => {
                        out.push_str(" (exp ");
                        expr(out, e);
                        out.push(')');
                    }
                }
            }
            out.push(')');
        }
        Statement::Block { meta: m, stmts: ss } => {
            write!(out, "(block {}", meta(m)).unwrap();
            stmts(out, ss);
            out.push(')');
        }
        Statement::Assert { meta: m, arg } => {
            write!(out, "(assert {} ", meta(m)).unwrap();
            expr(out, arg);
            out.push(')');
        }
    }
}

fn template_line(name: &str, t: &TemplateData, with_io: bool) -> String {
    let mut o = format!("(T {}", name);
    if with_io {
        o.push_str(" (in");
        for (n, d) in t.get_declaration_inputs() {
            write!(o, " {}:{}", n, d).unwrap();
        }
        o.push_str(") (out");
        for (n, d) in t.get_declaration_outputs() {
            write!(o, " {}:{}", n, d).unwrap();
        }
        o.push(')');
    }
    o.push(' ');
    stmt(&mut o, t.get_body());
    o.push(')');
    o
}

fn function_line(name: &str, f: &FunctionData) -> String {
    let mut o = format!("(F {} ", name);
    stmt(&mut o, f.get_body());
    o.push(')');
    o
}

fn report_line(r: &Report) -> String {
    let mut o = format!("(r {} {}", r.name(), hexs(r.message()));
    for l in r.primary() {
        write!(o, " (p {} {} {} {})", l.range.start, l.range.end, l.file_id, hexs(&l.message)).unwrap();
    }
    o.push(')');
    o
}

fn show_defs(
    templates: &HashMap<String, TemplateData>,
    functions: &HashMap<String, FunctionData>,
) -> String {
    let mut tnames: Vec<&String> = templates.keys().collect();
    tnames.sort();
    let mut fnames: Vec<&String> = functions.keys().collect();
    fnames.sort();
    let mut post = String::from("(out");
    for n in &tnames {
        post.push(' ');
        post.push_str(&template_line(n, &templates[*n], true));
    }
    for n in &fnames {
        post.push(' ');
        post.push_str(&function_line(n, &functions[*n]));
    }
    post.push(')');
    post
}

fn show_reports(reports: &ReportCollection) -> String {
    let mut reps: Vec<String> = reports.iter().map(report_line).collect();
    reps.sort();
    format!("(reports{}{})", if reps.is_empty() { "" } else { " " }, reps.join(" "))
}

// The whole front end on a file holding `src`: `parser::parse_files` itself (file stack,
// parse_file, ProgramArchive::new / TemplateLibrary::new, the desugaring step and the
// assignment of its results), not the hook.
fn front_end(files: &[(String, String)], tag: &str) -> (String, String, String) {
    let dir = std::env::temp_dir().join(format!("c18-{}-{}", std::process::id(), tag));
    let _ = std::fs::remove_dir_all(&dir);
    if std::fs::create_dir_all(&dir).is_err() {
        return ("io-error".to_string(), "-".to_string(), "-".to_string());
    }
    for (name, text) in files {
        if std::fs::write(dir.join(name), text).is_err() {
            return ("io-error".to_string(), "-".to_string(), "-".to_string());
        }
    }
    let paths = vec![dir.join(&files[0].0)];
    let result = guarded(|| {
        parser::parse_files(&paths, &[], &program_analysis::config::COMPILER_VERSION)
    });
    let _ = std::fs::remove_dir_all(&dir);
    match result {
        None => ("panic".to_string(), "-".to_string(), "-".to_string()),
        Some(parser::ParseResult::Program(archive, reports)) => (
            format!("program {}", show_defs(&archive.templates, &archive.functions)),
            show_reports(&reports),
            show_categories(&reports),
        ),
        Some(parser::ParseResult::Library(library, reports)) => (
            format!("library {}", show_defs(&library.templates, &library.functions)),
            show_reports(&reports),
            show_categories(&reports),
        ),
    }
}

fn show_categories(reports: &ReportCollection) -> String {
    let mut v: Vec<String> = reports.iter().map(|r| format!("{}:{}", r.name(), r.category())).collect();
    v.sort();
    if v.is_empty() {
        "-".to_string()
    } else {
        v.join(",")
    }
}

const FILE_MARK: &str = "\n//@@FILE ";

// (file name, text) of every file of the input; the first one is the main file
fn split_files(src: &str) -> Vec<(String, String)> {
    let mut parts = src.split(FILE_MARK);
    let mut out = vec![("main.circom".to_string(), format!("{}\n", parts.next().unwrap_or("")))];
    for p in parts {
        match p.split_once('\n') {
            Some((name, text)) => out.push((name.trim().to_string(), text.to_string())),
            None => out.push((p.trim().to_string(), String::new())),
        }
    }
    out
}

fn unescape(line: &str) -> String {
    let mut o = String::new();
    let mut it = line.chars();
    while let Some(c) = it.next() {
        if c == '\\' {
            match it.next() {
                Some('n') => o.push('\n'),
                Some('\\') => o.push('\\'),
                Some(d) => {
                    o.push('\\');
                    o.push(d)
                }
                None => o.push('\\'),
            }
        } else {
            o.push(c);
        }
    }
    o
}

fn run(line: &str) -> String {
    let src = unescape(line);
    let files = split_files(&src);
    let mut file_library = FileLibrary::new();
    // Build the definition maps the way TemplateLibrary::new / ProgramArchive do.
    let mut templates: HashMap<String, TemplateData> = HashMap::new();
    let mut functions: HashMap<String, FunctionData> = HashMap::new();
    let mut order: Vec<(bool, String)> = Vec::new();
    let mut elem_id = 0;
    for (k, (name, text)) in files.iter().enumerate() {
        let file_id = file_library.add_file(name.clone(), text.clone(), k == 0);
        let ast = match guarded(|| parse_source(text, file_id)) {
            None => return "PARSE\tpanic".to_string(),
            Some(Err(r)) => return format!("PARSE\terror {}", report_line(&r)),
            Some(Ok(ast)) => ast,
        };
        for definition in ast.definitions {
            match definition {
                Definition::Function { name, args, arg_location, body, .. } => {
                    if functions.contains_key(&name) || templates.contains_key(&name) {
                        continue;
                    }
                    order.push((false, name.clone()));
                    functions.insert(
                        name.clone(),
                        FunctionData::new(name, file_id, body, args.len(), args, arg_location, &mut elem_id),
                    );
                }
                Definition::Template { name, args, arg_location, body, parallel, is_custom_gate, .. } => {
                    if functions.contains_key(&name) || templates.contains_key(&name) {
                        continue;
                    }
                    order.push((true, name.clone()));
                    templates.insert(
                        name.clone(),
                        TemplateData::new(
                            name,
                            file_id,
                            body,
                            args.len(),
                            args,
                            arg_location,
                            &mut elem_id,
                            parallel,
                            is_custom_gate,
                        ),
                    );
                }
            }
        }
    }
    let mut io = String::from("(io");
    for (is_t, name) in &order {
        if *is_t {
            let t = &templates[name];
            write!(io, " (T {} (in", name).unwrap();
            for (n, d) in t.get_declaration_inputs() {
                write!(io, " {}:{}", n, d).unwrap();
            }
            io.push_str(") (out");
            for (n, d) in t.get_declaration_outputs() {
                write!(io, " {}:{}", n, d).unwrap();
            }
            io.push_str("))");
        }
    }
    io.push(')');
    let mut pre = String::from("(prog");
    for (is_t, name) in &order {
        pre.push(' ');
        if *is_t {
            pre.push_str(&template_line(name, &templates[name], false));
        } else {
            pre.push_str(&function_line(name, &functions[name]));
        }
    }
    pre.push(')');

    let mut reports = ReportCollection::new();
    let result =
        guarded(|| remove_syntactic_sugar(&templates, &functions, &file_library, &mut reports));
    let (new_templates, new_functions) = match result {
        None => return format!("PRE\t{}\tPOST\tpanic\tREP\t-\tPIPE\t-\tIO\t{}", pre, io),
        Some(r) => r,
    };
    let mut tnames: Vec<&String> = new_templates.keys().collect();
    tnames.sort();
    let mut fnames: Vec<&String> = new_functions.keys().collect();
    fnames.sort();
    let mut post = String::from("(out");
    for n in &tnames {
        post.push(' ');
        post.push_str(&template_line(n, &new_templates[*n], true));
    }
    for n in &fnames {
        post.push(' ');
        post.push_str(&function_line(n, &new_functions[*n]));
    }
    post.push(')');
    let mut reps: Vec<String> = reports.iter().map(report_line).collect();
    reps.sort();
    let reps = format!("(reports{}{})", if reps.is_empty() { "" } else { " " }, reps.join(" "));
    let repcat = show_categories(&reports);

    // Downstream: everything handed on goes through CFG lifting and SSA.
    let mut pipe = Vec::new();
    for n in &tnames {
        let t = &new_templates[*n];
        let r = guarded(|| {
            let mut rs = ReportCollection::new();
            match t.into_cfg(&Curve::default(), &mut rs) {
                Ok(cfg) => match cfg.into_ssa() {
                    Ok(_) => "ok",
                    Err(_) => "ssa-err",
                },
                Err(_) => "cfg-err",
            }
        });
        pipe.push(format!("{}={}", n, r.unwrap_or("panic")));
    }
    for n in &fnames {
        let f = &new_functions[*n];
        let r = guarded(|| {
            let mut rs = ReportCollection::new();
            match f.into_cfg(&Curve::default(), &mut rs) {
                Ok(cfg) => match cfg.into_ssa() {
                    Ok(_) => "ok",
                    Err(_) => "ssa-err",
                },
                Err(_) => "cfg-err",
            }
        });
        pipe.push(format!("{}={}", n, r.unwrap_or("panic")));
    }
    // `=`: the definitions are, character for character, those of the POST field
    let same = |x: String| -> String {
        match x.split_once(' ') {
            Some((mode, defs)) if defs == post => format!("{} =", mode),
            _ => x,
        }
    };
    let (lib, librep, libcat) = front_end(&files, "l");
    let lib = same(lib);
    let mut with_main = files.clone();
    let mut anon_main = false;
    if !src.contains("component main") {
        anon_main = src.matches(';').count() % 5 == 0;
        with_main[0].1.push_str(if anon_main {
            "\ncomponent main = A0()();\n"
        } else {
            "\ncomponent main = A0();\n"
        });
    }
    let (prog, progrep, progcat) = front_end(&with_main, "p");
    let prog = same(prog);
    let prog = if anon_main { prog.replacen("program ", "program-anon ", 1) } else { prog };
    format!(
        "PRE\t{}\tPOST\t{}\tREP\t{}\tPIPE\t{}\tLIB\t{}\tLIBREP\t{}\tPROG\t{}\tPROGREP\t{}\tIO\t{}\tREPCAT\t{}\tLIBREPCAT\t{}\tPROGREPCAT\t{}",
        pre,
        post,
        reps,
        if pipe.is_empty() { "-".to_string() } else { pipe.join(",") },
        lib,
        librep,
        prog,
        progrep,
        io,
        repcat,
        libcat,
        progcat
    )
}

fn main() {
    silence_panics();
    each_line(run);
}
