// Engine `e2e` (C03 C02 C17): in-process ground truth of what every stage of
// the pipeline produces for a project, independent of AnalysisRunner's caches
// and of the writers/filters in cli/src/main.rs (those are the model's job).
//
//   e2e truth     stdin: one JSON object per line {"files":[..],"libs":[..],"curve":".."}
//                 stdout: one JSON object per line (see `truth`)
//   e2e category  the MessageCategory tables (order, to_level, from_str, Display)
use codespan_reporting::files::Files;
use parser::ParseResult;
use program_analysis::analysis_context::{AnalysisContext, AnalysisError};
use program_analysis::{config, get_analysis_passes};
use program_structure::cfg::{Cfg, IntoCfg};
use program_structure::constants::Curve;
use program_structure::file_definition::{FileID, FileLibrary, FileLocation};
use program_structure::function_data::FunctionInfo;
use program_structure::report::{MessageCategory, Report, ReportCollection, ReportLabel};
use program_structure::template_data::TemplateInfo;
use serde_json::{json, Value};
use std::collections::HashMap;
use std::path::PathBuf;
use std::str::FromStr;
use verif_harness::{each_line, guarded, silence_panics};

fn label_json(label: &ReportLabel, files: &FileLibrary) -> Value {
    let storage = files.to_storage();
    let path = storage.get(label.file_id).map(|f| f.name().clone()).ok();
    let start = storage.location(label.file_id, label.range.start).ok();
    let end = storage.location(label.file_id, label.range.end).ok();
    json!({
        "file": label.file_id,
        "path": path,
        "start": label.range.start,
        "end": label.range.end,
        "sl": start.as_ref().map(|l| l.line_number),
        "sc": start.as_ref().map(|l| l.column_number),
        "el": end.as_ref().map(|l| l.line_number),
        "ec": end.as_ref().map(|l| l.column_number),
        "msg": label.message,
    })
}

fn report_json(report: &Report, files: &FileLibrary) -> Value {
    json!({
        "level": report.category().to_string(),
        "sarif_level": report.category().to_level(),
        "id": report.id(),
        "name": report.name(),
        "url": report.code().url(),
        "message": report.message(),
        "pfiles": report.primary_file_ids(),
        "primary": report.primary().iter().map(|l| label_json(l, files)).collect::<Vec<_>>(),
        "secondary": report.secondary().iter().map(|l| label_json(l, files)).collect::<Vec<_>>(),
        "notes": report.notes(),
    })
}

fn reports_json(reports: &[Report], files: &FileLibrary) -> Value {
    Value::Array(reports.iter().map(|r| report_json(r, files)).collect())
}

/// What CFG + SSA generation of one definition produces.
struct Lift {
    reports: ReportCollection,
    error: Option<Report>,
    stage: Option<&'static str>,
    cfg: Option<Cfg>,
}

fn lift<Ast: IntoCfg>(ast: Ast, curve: &Curve) -> Lift {
    let mut reports = ReportCollection::new();
    match ast.into_cfg(curve, &mut reports) {
        Err(error) => Lift { reports, error: Some(error.into()), stage: Some("cfg"), cfg: None },
        Ok(cfg) => match cfg.into_ssa() {
            Err(error) => Lift { reports, error: Some(error.into()), stage: Some("ssa"), cfg: None },
            Ok(cfg) => Lift { reports, error: None, stage: None, cfg: Some(cfg) },
        },
    }
}

/// The analysis context handed to the passes: answers lookups from the
/// definitions of the parsed project, lifting on demand, and records them.
struct Ctx<'a> {
    templates: &'a TemplateInfo,
    functions: &'a FunctionInfo,
    files: &'a FileLibrary,
    curve: Curve,
    tcfgs: HashMap<String, Option<Cfg>>,
    fcfgs: HashMap<String, Option<Cfg>>,
    lookups: Vec<Value>,
}

impl<'a> AnalysisContext for Ctx<'a> {
    fn is_function(&self, name: &str) -> bool {
        self.functions.contains_key(name)
    }

    fn is_template(&self, name: &str) -> bool {
        self.templates.contains_key(name)
    }

    fn function(&mut self, name: &str) -> Result<&Cfg, AnalysisError> {
        if !self.fcfgs.contains_key(name) {
            let Some(ast) = self.functions.get(name) else {
                self.lookups.push(json!({"kind": "function", "name": name, "known": false, "ok": false}));
                return Err(AnalysisError::UnknownFunction { name: name.to_string() });
            };
            let cfg = guarded(|| lift(ast, &self.curve).cfg).flatten();
            self.fcfgs.insert(name.to_string(), cfg);
        }
        let ok = self.fcfgs.get(name).unwrap().is_some();
        self.lookups.push(json!({"kind": "function", "name": name, "known": true, "ok": ok}));
        match self.fcfgs.get(name).unwrap() {
            Some(cfg) => Ok(cfg),
            None => Err(AnalysisError::FailedToLiftFunction { name: name.to_string() }),
        }
    }

    fn template(&mut self, name: &str) -> Result<&Cfg, AnalysisError> {
        if !self.tcfgs.contains_key(name) {
            let Some(ast) = self.templates.get(name) else {
                self.lookups.push(json!({"kind": "template", "name": name, "known": false, "ok": false}));
                return Err(AnalysisError::UnknownTemplate { name: name.to_string() });
            };
            let cfg = guarded(|| lift(ast, &self.curve).cfg).flatten();
            self.tcfgs.insert(name.to_string(), cfg);
        }
        let ok = self.tcfgs.get(name).unwrap().is_some();
        self.lookups.push(json!({"kind": "template", "name": name, "known": true, "ok": ok}));
        match self.tcfgs.get(name).unwrap() {
            Some(cfg) => Ok(cfg),
            None => Err(AnalysisError::FailedToLiftTemplate { name: name.to_string() }),
        }
    }

    fn underlying_str(
        &self,
        file_id: &FileID,
        file_location: &FileLocation,
    ) -> Result<String, AnalysisError> {
        let Ok(file) = self.files.to_storage().get(*file_id) else {
            return Err(AnalysisError::UnknownFile { file_id: *file_id });
        };
        if file_location.end <= file.source().len() {
            Ok(file.source()[file_location.start..file_location.end].to_string())
        } else {
            Err(AnalysisError::InvalidLocation {
                file_id: *file_id,
                file_location: file_location.clone(),
            })
        }
    }
}

fn definition_json(
    kind: &str,
    name: &str,
    file_id: FileID,
    lifted: Option<Lift>,
    ctx: &mut Ctx,
) -> Value {
    let files = ctx.files;
    let user = files.is_user_input(file_id);
    let Some(lifted) = lifted else {
        return json!({"kind": kind, "name": name, "file": file_id, "user": user, "panic": "lift"});
    };
    let mut passes = Vec::new();
    let mut pass_panic = false;
    ctx.lookups.clear();
    if let Some(cfg) = &lifted.cfg {
        for pass in get_analysis_passes() {
            match guarded(|| pass(ctx, cfg)) {
                Some(reports) => passes.push(reports_json(&reports, files)),
                None => {
                    pass_panic = true;
                    passes.push(Value::Null);
                }
            }
        }
    }
    let lookups = std::mem::take(&mut ctx.lookups);
    json!({
        "kind": kind,
        "name": name,
        "file": file_id,
        "user": user,
        "lift": reports_json(&lifted.reports, files),
        "err": lifted.error.as_ref().map(|r| report_json(r, files)),
        "err_stage": lifted.stage,
        "passes": passes,
        "pass_panic": pass_panic,
        "lookups": lookups,
    })
}

fn truth(line: &str) -> String {
    let input: Value = match serde_json::from_str(line) {
        Ok(v) => v,
        Err(e) => return json!({"bad_input": e.to_string()}).to_string(),
    };
    let paths = |key: &str| -> Vec<PathBuf> {
        input[key]
            .as_array()
            .map(|a| a.iter().filter_map(|x| x.as_str()).map(PathBuf::from).collect())
            .unwrap_or_default()
    };
    let files_in = paths("files");
    let libs_in = paths("libs");
    let curve = Curve::from_str(input["curve"].as_str().unwrap_or(config::DEFAULT_CURVE))
        .unwrap_or_default();
    let Some(result) =
        guarded(|| parser::parse_files(&files_in, &libs_in, &config::COMPILER_VERSION))
    else {
        return json!({"panic": "parse_files"}).to_string();
    };
    let (mode, templates, functions, files, parse_reports) = match result {
        ParseResult::Program(p, r) => ("program", p.templates, p.functions, p.file_library, r),
        ParseResult::Library(l, r) => ("library", l.templates, l.functions, l.file_library, r),
    };
    let mut file_list = Vec::new();
    let mut id = 0;
    while let Ok(file) = files.to_storage().get(id) {
        file_list.push(json!({"id": id, "path": file.name(), "user": files.is_user_input(id)}));
        id += 1;
    }
    let mut ctx = Ctx {
        templates: &templates,
        functions: &functions,
        files: &files,
        curve: curve.clone(),
        tcfgs: HashMap::new(),
        fcfgs: HashMap::new(),
        lookups: Vec::new(),
    };
    let mut defs = Vec::new();
    let mut names: Vec<&String> = functions.keys().collect();
    names.sort();
    for name in names {
        let ast = &functions[name];
        // The CFG of the definition under analysis is not in the context's
        // cache (a recursive lookup lifts it again), as in the runner.
        ctx.fcfgs.remove(name.as_str());
        let lifted = guarded(|| lift(ast, &curve));
        defs.push(definition_json("function", name, ast.get_file_id(), lifted, &mut ctx));
        ctx.fcfgs.remove(name.as_str());
    }
    let mut names: Vec<&String> = templates.keys().collect();
    names.sort();
    for name in names {
        let ast = &templates[name];
        ctx.tcfgs.remove(name.as_str());
        let lifted = guarded(|| lift(ast, &curve));
        defs.push(definition_json("template", name, ast.get_file_id(), lifted, &mut ctx));
        ctx.tcfgs.remove(name.as_str());
    }
    json!({
        "mode": mode,
        "files": file_list,
        "parse_reports": reports_json(&parse_reports, &files),
        "defs": defs,
    })
    .to_string()
}

fn category_tables() {
    use MessageCategory::*;
    let all = [Info, Warning, Error];
    for a in all.iter() {
        for b in all.iter() {
            println!(
                "cmp {} {} {:?} ge={} gt={} le={} lt={} eq={}",
                a,
                b,
                a.cmp(b),
                a >= b,
                a > b,
                a <= b,
                a < b,
                a == b
            );
        }
    }
    for a in all.iter() {
        println!("to_level {} {}", a, a.to_level());
    }
    for s in [
        "info", "INFO", "Info", "warning", "WARNING", "Warning", "error", "ERROR", "Error", "note",
        "warn", "err", "", "debug", "0", "1", "2", " warning", "warning ", "errors",
    ] {
        match MessageCategory::from_str(s) {
            Ok(c) => println!("from_str {:?} {}", s, c),
            Err(_) => println!("from_str {:?} -", s),
        }
    }
    println!("default_level {:?}", config::DEFAULT_LEVEL);
}

fn main() {
    silence_panics();
    let args: Vec<String> = std::env::args().collect();
    match args.get(1).map(|s| s.as_str()) {
        Some("truth") => each_line(truth),
        Some("category") => category_tables(),
        _ => {
            eprintln!("usage: e2e truth|category");
            std::process::exit(2);
        }
    }
}
