// Engine `tabulate`: executes the finite operator tables of degree_meta.rs
// exhaustively and prints them, one entry per line (translator input for
// coq/gen/DegreeTable.v).
use program_structure::ir::degree_meta::{Degree, DegreeRange};
use verif_harness::irdump::deg;

const DS: [Degree; 4] = [Degree::Constant, Degree::Linear, Degree::Quadratic, Degree::NonQuadratic];

type DOp = fn(&Degree, &Degree) -> Degree;
type ROp = fn(&DegreeRange, &DegreeRange) -> DegreeRange;

fn main() {
    let dops: Vec<(&str, DOp, ROp)> = vec![
        ("mul", Degree::mul, DegreeRange::mul),
        ("div", Degree::div, DegreeRange::div),
        ("add", Degree::add, DegreeRange::add),
        ("sub", Degree::infix_sub, DegreeRange::infix_sub),
        ("pow", Degree::pow, DegreeRange::pow),
        ("idiv", Degree::int_div, DegreeRange::int_div),
        ("mod", Degree::modulo, DegreeRange::modulo),
        ("shl", Degree::shift_left, DegreeRange::shift_left),
        ("shr", Degree::shift_right, DegreeRange::shift_right),
        ("le", Degree::lesser_eq, DegreeRange::lesser_eq),
        ("ge", Degree::greater_eq, DegreeRange::greater_eq),
        ("lt", Degree::lesser, DegreeRange::lesser),
        ("gt", Degree::greater, DegreeRange::greater),
        ("eq", Degree::equal, DegreeRange::equal),
        ("neq", Degree::not_equal, DegreeRange::not_equal),
        ("or", Degree::bool_or, DegreeRange::bool_or),
        ("and", Degree::bool_and, DegreeRange::bool_and),
        ("bor", Degree::bit_or, DegreeRange::bit_or),
        ("band", Degree::bit_and, DegreeRange::bit_and),
        ("bxor", Degree::bit_xor, DegreeRange::bit_xor),
    ];
    for (name, d, r) in &dops {
        for a in DS.iter() {
            for b in DS.iter() {
                println!("deg {} {} {} {}", name, deg(*a), deg(*b), deg(d(a, b)));
            }
        }
        for a0 in DS.iter() {
            for a1 in DS.iter() {
                for b0 in DS.iter() {
                    for b1 in DS.iter() {
                        let x = r(&DegreeRange::new(*a0, *a1), &DegreeRange::new(*b0, *b1));
                        println!(
                            "range {} {} {} {} {} {} {}",
                            name, deg(*a0), deg(*a1), deg(*b0), deg(*b1), deg(x.start()), deg(x.end())
                        );
                    }
                }
            }
        }
    }
    type DP = fn(&Degree) -> Degree;
    type RP = fn(&DegreeRange) -> DegreeRange;
    let pops: Vec<(&str, DP, RP)> = vec![
        ("neg", Degree::prefix_sub, DegreeRange::prefix_sub),
        ("compl", Degree::complement, DegreeRange::complement),
        ("not", Degree::bool_not, DegreeRange::bool_not),
    ];
    for (name, d, r) in &pops {
        for a in DS.iter() {
            println!("pdeg {} {} {}", name, deg(*a), deg(d(a)));
        }
        for a0 in DS.iter() {
            for a1 in DS.iter() {
                let x = r(&DegreeRange::new(*a0, *a1));
                println!("prange {} {} {} {} {}", name, deg(*a0), deg(*a1), deg(x.start()), deg(x.end()));
            }
        }
    }
    for a0 in DS.iter() {
        for a1 in DS.iter() {
            let x = DegreeRange::new(*a0, *a1);
            println!(
                "pred {} {} {} {} {}",
                deg(*a0), deg(*a1), x.is_constant() as u8, x.is_linear() as u8, x.is_quadratic() as u8
            );
            for b0 in DS.iter() {
                for b1 in DS.iter() {
                    let y = x.inf(&DegreeRange::new(*b0, *b1));
                    println!("inf {} {} {} {} {} {}", deg(*a0), deg(*a1), deg(*b0), deg(*b1), deg(y.start()), deg(y.end()));
                }
            }
        }
    }
    for a in DS.iter() {
        for b in DS.iter() {
            println!("cmp {} {} {}", deg(*a), deg(*b), (a <= b) as u8);
        }
    }
}
