// Engine `ir`: one definition per line, `<curve> <value-budget|-> <degree-budget|-> <hex source>`.
// Prints `(ok <cfg dump before SSA> <cfg dump after SSA> (idom ...) (dominfo ...))`, `(ssaerr <pre> (dominfo ...))`, `(cfgerr)`, `(ssaerr <pre-SSA dump>)`,
// `(parseerr)` or `(panic <stage>)`.
use parser::parse_definition;
use program_structure::cfg::verif::{set_degree_pass_budget, set_value_pass_budget};
use program_structure::cfg::IntoCfg;
use program_structure::constants::Curve;
use program_structure::report::ReportCollection;
use std::str::FromStr;
use verif_harness::irdump;

fn budget(s: &str) -> usize {
    if s == "-" {
        usize::MAX
    } else {
        s.parse().unwrap()
    }
}

fn run(line: &str) -> String {
    let t: Vec<&str> = line.split_whitespace().collect();
    if t.len() != 4 {
        return "(badline)".to_string();
    }
    let curve = Curve::from_str(t[0]).unwrap();
    set_value_pass_budget(budget(t[1]));
    set_degree_pass_budget(budget(t[2]));
    let src = irdump::unhex(t[3]);
    let def = match verif_harness::guarded(|| parse_definition(&src)) {
        None => return "(panic parse)".to_string(),
        Some(None) => return "(parseerr)".to_string(),
        Some(Some(d)) => d,
    };
    let mut reports = ReportCollection::new();
    let cfg = match verif_harness::guarded(|| def.into_cfg(&curve, &mut reports)) {
        None => return "(panic cfg)".to_string(),
        Some(Err(_)) => return "(cfgerr)".to_string(),
        Some(Ok(c)) => c,
    };
    let pre = irdump::cfg(&cfg);
    let dominfo = irdump::dominfo(&cfg);
    match verif_harness::guarded(|| cfg.into_ssa()) {
        None => format!("(panic ssa {})", pre),
        Some(Err(_)) => format!("(ssaerr {} {})", pre, dominfo),
        Some(Ok(c)) => format!("(ok {} {} {} {})", pre, irdump::cfg(&c), irdump::idoms(&c), dominfo),
    }
}

fn main() {
    verif_harness::silence_panics();
    verif_harness::each_line(run);
}
