// Engine `ir`: one definition per line, `<curve> <value-budget|-> <degree-budget|-> <hex source>`.
// Prints `(ok <cfg dump before SSA> <cfg dump after SSA> (idom ...) (dominfo ...) (cc ...))`, `(ssaerr <pre> (dominfo ...))`, `(cfgerr)`, `(ssaerr <pre-SSA dump>)`,
// `(parseerr)` or `(panic <stage>)`. `(cc (<block> <statement index> <hex label text> <hex message>) ...)` lists the
// reports of the real constant-conditional pass run on the SSA graph: the location of the primary label of each report
// is mapped back to the if statement whose condition has that location (`-` when no such statement exists).
use parser::parse_definition;
use program_analysis::analysis_context::{AnalysisContext, AnalysisError};
use program_analysis::get_analysis_passes;
use program_structure::file_definition::{FileID, FileLocation};
use program_structure::report::Report;
use program_structure::ast::{Definition, FillMeta};
use program_structure::cfg::Cfg;
use program_structure::ir::Statement;
use std::collections::HashMap;
use program_structure::cfg::verif::{set_degree_pass_budget, set_value_pass_budget};
use program_structure::cfg::IntoCfg;
use program_structure::constants::Curve;
use program_structure::report::ReportCollection;
use std::str::FromStr;
use verif_harness::irdump;

fn budget(s: &str) -> usize {
    if s == "-" {
        usize::MAX
    } else {
        s.parse().unwrap()
    }
}

/// `constant_conditional` is a private module: its reports are obtained by running the registered
/// passes (each guarded) and keeping the reports with its code, CS0009.
struct NoContext;
impl AnalysisContext for NoContext {
    fn is_function(&self, _: &str) -> bool {
        false
    }
    fn is_template(&self, _: &str) -> bool {
        false
    }
    fn function(&mut self, name: &str) -> Result<&Cfg, AnalysisError> {
        Err(AnalysisError::UnknownFunction { name: name.to_string() })
    }
    fn template(&mut self, name: &str) -> Result<&Cfg, AnalysisError> {
        Err(AnalysisError::UnknownTemplate { name: name.to_string() })
    }
    fn underlying_str(&self, file_id: &FileID, _: &FileLocation) -> Result<String, AnalysisError> {
        Err(AnalysisError::UnknownFile { file_id: *file_id })
    }
}

fn find_constant_conditional_statement(cfg: &Cfg) -> Vec<Report> {
    let mut out = Vec::new();
    for pass in get_analysis_passes() {
        let mut ctx = NoContext;
        if let Some(reports) = verif_harness::guarded(|| pass(&mut ctx, cfg)) {
            for r in reports {
                if r.id() == "CS0009" {
                    out.push(r);
                }
            }
        }
    }
    out
}

fn const_conds(cfg: &Cfg) -> String {
    let mut at: HashMap<(usize, usize), Vec<(usize, usize)>> = HashMap::new();
    for bb in cfg.iter() {
        for (si, stmt) in bb.iter().enumerate() {
            if let Statement::IfThenElse { cond, .. } = stmt {
                let loc = cond.meta().file_location();
                at.entry((loc.start, loc.end)).or_default().push((bb.index(), si));
            }
        }
    }
    let mut out = Vec::new();
    for r in find_constant_conditional_statement(cfg) {
        let msg = irdump::hexs(r.message());
        match r.primary().first() {
            Some(l) => {
                let pos = at.get_mut(&(l.range.start, l.range.end)).and_then(|v| if v.is_empty() { None } else { Some(v.remove(0)) });
                match pos {
                    Some((bi, si)) => out.push(format!("({} {} {} {})", bi, si, irdump::hexs(&l.message), msg)),
                    None => out.push(format!("(- - {} {})", irdump::hexs(&l.message), msg)),
                }
            }
            None => out.push(format!("(- - - {})", msg)),
        }
    }
    format!("(cc {})", out.join(" "))
}

/// The reports of the consumers of partial facts (CS0013 unnecessary signal assignment, CS0010 non-strict binary
/// conversion), run on the graph exactly as the pass budgets left it: `(adv (<code> <start> <end>) ...)`, the location
/// being the primary label's (the statement for CS0013).
fn advice(cfg: &Cfg) -> String {
    let mut out = Vec::new();
    for pass in get_analysis_passes() {
        let mut ctx = NoContext;
        if let Some(reports) = verif_harness::guarded(|| pass(&mut ctx, cfg)) {
            for r in reports {
                if r.id() == "CS0013" || r.id() == "CS0010" {
                    match r.primary().first() {
                        Some(l) => out.push(format!("({} {} {})", r.id(), l.range.start, l.range.end)),
                        None => out.push(format!("({} - -)", r.id())),
                    }
                }
            }
        }
    }
    out.sort();
    format!("(adv {})", out.join(" "))
}

/// `file:<hex>`: a whole source text (the definition under test first, then the templates / functions it uses). The
/// REAL `remove_syntactic_sugar` runs on the definition maps as the program library builds them (anonymous components,
/// tuples, `_`); the FIRST definition then goes through into_cfg / into_ssa like a single definition.
fn lift_file(src: &str, curve: &Curve) -> Result<Cfg, String> {
    use parser::verif::{parse_source, remove_syntactic_sugar};
    use program_structure::file_definition::FileLibrary;
    use program_structure::function_data::FunctionData;
    use program_structure::template_data::TemplateData;
    let mut file_library = FileLibrary::new();
    let file_id = file_library.add_file("memory.circom".to_string(), src.to_string(), true);
    let ast = match verif_harness::guarded(|| parse_source(src, file_id)) {
        None => return Err("(panic parse)".to_string()),
        Some(Err(_)) => return Err("(parseerr)".to_string()),
        Some(Ok(ast)) => ast,
    };
    let mut templates: HashMap<String, TemplateData> = HashMap::new();
    let mut functions: HashMap<String, FunctionData> = HashMap::new();
    let mut elem_id = 0;
    let mut first: Option<(bool, String)> = None;
    for definition in ast.definitions {
        match definition {
            Definition::Function { name, args, arg_location, body, .. } => {
                first.get_or_insert((false, name.clone()));
                functions.insert(name.clone(), FunctionData::new(name, file_id, body, args.len(), args, arg_location, &mut elem_id));
            }
            Definition::Template { name, args, arg_location, body, parallel, is_custom_gate, .. } => {
                first.get_or_insert((true, name.clone()));
                templates.insert(
                    name.clone(),
                    TemplateData::new(name, file_id, body, args.len(), args, arg_location, &mut elem_id, parallel, is_custom_gate),
                );
            }
        }
    }
    let mut reports = ReportCollection::new();
    let (templates, functions) =
        match verif_harness::guarded(|| remove_syntactic_sugar(&templates, &functions, &file_library, &mut reports)) {
            None => return Err("(panic sugar)".to_string()),
            Some(r) => r,
        };
    let mut reports = ReportCollection::new();
    let cfg = match first {
        Some((true, name)) => match templates.get(&name) {
            Some(t) => verif_harness::guarded(|| t.into_cfg(curve, &mut reports)),
            None => return Err("(sugarerr)".to_string()),
        },
        Some((false, name)) => match functions.get(&name) {
            Some(f) => verif_harness::guarded(|| f.into_cfg(curve, &mut reports)),
            None => return Err("(sugarerr)".to_string()),
        },
        None => return Err("(parseerr)".to_string()),
    };
    match cfg {
        None => Err("(panic cfg)".to_string()),
        Some(Err(_)) => Err("(cfgerr)".to_string()),
        Some(Ok(c)) => Ok(c),
    }
}

fn run(line: &str) -> String {
    let t: Vec<&str> = line.split_whitespace().collect();
    if t.len() != 4 {
        return "(badline)".to_string();
    }
    let curve = Curve::from_str(t[0]).unwrap();
    set_value_pass_budget(budget(t[1]));
    set_degree_pass_budget(budget(t[2]));
    let cfg = if let Some(hex) = t[3].strip_prefix("file:") {
        match lift_file(&irdump::unhex(hex), &curve) {
            Ok(c) => c,
            Err(e) => return e,
        }
    } else {
        let src = irdump::unhex(t[3]);
        let mut def = match verif_harness::guarded(|| parse_definition(&src)) {
            None => return "(panic parse)".to_string(),
            Some(None) => return "(parseerr)".to_string(),
            Some(Some(d)) => d,
        };
        // what the program library does for the definitions of a parsed file: a file id on every node
        match &mut def {
            Definition::Template { meta, body, .. } | Definition::Function { meta, body, .. } => {
                meta.set_file_id(0);
                let mut id = 0;
                body.fill(0, &mut id);
            }
        }
        let mut reports = ReportCollection::new();
        match verif_harness::guarded(|| def.into_cfg(&curve, &mut reports)) {
            None => return "(panic cfg)".to_string(),
            Some(Err(_)) => return "(cfgerr)".to_string(),
            Some(Ok(c)) => c,
        }
    };
    let pre = irdump::cfg(&cfg);
    let dominfo = irdump::dominfo(&cfg);
    match verif_harness::guarded(|| cfg.into_ssa()) {
        None => format!("(panic ssa {})", pre),
        Some(Err(_)) => format!("(ssaerr {} {})", pre, dominfo),
        Some(Ok(c)) => match verif_harness::guarded(|| const_conds(&c)) {
            None => format!("(panic constcond {})", pre),
            Some(cc) => format!("(ok {} {} {} {} {} {})", pre, irdump::cfg(&c), irdump::idoms(&c), dominfo, cc, advice(&c)),
        },
    }
}

fn main() {
    verif_harness::silence_panics();
    verif_harness::each_line(run);
}
