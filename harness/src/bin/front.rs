// Engine `front` (C02): the `content` function of Model.Includes for real files —
// what `open_file` + `parser_logic::parse_file` yield for one path, abstracted to
// the include statements.  FileStack / parse_files themselves are NOT run here
// (their mirror is the model; the implementation side of the comparison is the
// in-process ground truth of harness `e2e truth`).
//
//   front content   stdin: one JSON string per line (a path)
//                   stdout: one JSON object per line
//                     {"c":"U"}                        read_to_string fails
//                     {"c":"E"}                        the single-file parser returns an error
//                     {"c":"P","incs":[[path,start,end],..]}  include statements with the range of their Meta
//                     {"c":"panic"}
//   front code      stdout: {"id": .., "name": ..} — `ReportCode::ParseFail.id()` / `.name()` of the current tree, the
//                   code Model.Front.report_of gives every report of the Includes stage (parameters pf_id / pf_name);
//                   third pass: also "codes": {<key>: {"id","name"}} for the codes of Model.FrontStages.codes and
//                   "compiler_version": `config::COMPILER_VERSION` (the source of the regenerated Gen.CompilerVersion: third
//                   audit, the constant is no longer read off the text of config.rs with a regular expression)
//   front stages    (third pass) the inputs of Model.FrontStages that the PARSER yields, for the files of a FileLibrary:
//                   stdin: one JSON object per line {"files": [[file id, path], ..]} (the ids and paths of the real
//                   FileLibrary, in id order); every file is read and parsed ALONE with its own file id by
//                   `parser_logic::parse_file` (nothing of parse_files / FileStack / the desugarer / the lifter runs here);
//                   stdout: {"files": [{"id","parsed","ver": [a,b,c]|null,"main": bool,"starts": [line starts]}],
//                            "defs": ["(def KIND NAME (params P*) FILE START END <body: astdump>)", ..]}
//                   the definitions as `TemplateData::new` / `FunctionData::new` hold them (name, parameter names, the
//                   location of the parameter list, the file id, the body), in file-id order then source order
use program_structure::ast::Definition;
use program_structure::function_data::FunctionData;
use program_structure::report_code::ReportCode;
use program_structure::template_data::TemplateData;
use serde_json::{json, Value};
use verif_harness::{astdump, each_line, guarded, silence_panics};

fn content(line: &str) -> String {
    let path: String = match serde_json::from_str(line) {
        Ok(Value::String(s)) => s,
        _ => return json!({"c": "bad-line"}).to_string(),
    };
    let src = match std::fs::read_to_string(&path) {
        Ok(s) => s,
        Err(_) => return json!({"c": "U"}).to_string(),
    };
    match guarded(|| parser::verif::parse_source(&src, 0)) {
        None => json!({"c": "panic"}).to_string(),
        Some(Err(_)) => json!({"c": "E"}).to_string(),
        Some(Ok(ast)) => {
            let incs: Vec<Value> = ast
                .includes
                .iter()
                .map(|i| {
                    let loc = i.meta.file_location();
                    json!([i.path, loc.start, loc.end])
                })
                .collect();
            json!({"c": "P", "incs": incs}).to_string()
        }
    }
}

fn def_line(kind: &str, name: &str, params: &[String], file: usize, start: usize, end: usize, body: &program_structure::ast::Statement) -> String {
    let mut o = format!("(def {} {} (params", kind, name);
    for p in params {
        o.push(' ');
        o.push_str(p);
    }
    o.push_str(&format!(") {} {} {} ", file, start, end));
    astdump::stmt(&mut o, body);
    o.push(')');
    o
}

fn stages(line: &str) -> String {
    let input: Value = match serde_json::from_str(line) {
        Ok(v) => v,
        Err(_) => return json!({"bad": "line"}).to_string(),
    };
    let mut files = Vec::new();
    let mut defs: Vec<String> = Vec::new();
    let mut elem_id = 0;
    for entry in input["files"].as_array().cloned().unwrap_or_default() {
        let (Some(id), Some(path)) = (entry[0].as_u64(), entry[1].as_str()) else {
            return json!({"bad": "entry"}).to_string();
        };
        let id = id as usize;
        let src = match std::fs::read_to_string(path) {
            Ok(s) => s,
            Err(_) => {
                files.push(json!({"id": id, "parsed": false, "ver": null, "main": false, "starts": [0], "unreadable": true}));
                continue;
            }
        };
        // codespan's line_starts
        let starts: Vec<usize> = std::iter::once(0).chain(src.match_indices('\n').map(|(i, _)| i + 1)).collect();
        match guarded(|| parser::verif::parse_source(&src, id)) {
            None => return json!({"panic": "parse_source"}).to_string(),
            Some(Err(_)) => files.push(json!({"id": id, "parsed": false, "ver": null, "main": false, "starts": starts})),
            Some(Ok(ast)) => {
                let ver = ast.compiler_version.map(|v| json!([v.0, v.1, v.2]));
                files.push(json!({"id": id, "parsed": true, "ver": ver, "main": ast.main_component.is_some(), "starts": starts}));
                for definition in ast.definitions {
                    match definition {
                        Definition::Function { name, args, arg_location, body, .. } => {
                            let f = FunctionData::new(name.clone(), id, body, args.len(), args, arg_location, &mut elem_id);
                            let loc = f.get_param_location();
                            defs.push(def_line("function", &name, f.get_name_of_params(), f.get_file_id(), loc.start, loc.end, f.get_body()));
                        }
                        Definition::Template { name, args, arg_location, body, parallel, is_custom_gate, .. } => {
                            let t = TemplateData::new(name.clone(), id, body, args.len(), args, arg_location, &mut elem_id, parallel, is_custom_gate);
                            let kind = if t.is_custom_gate() { "custom" } else { "template" };
                            let loc = t.get_param_location();
                            defs.push(def_line(kind, &name, t.get_name_of_params(), t.get_file_id(), loc.start, loc.end, t.get_body()));
                        }
                    }
                }
            }
        }
    }
    json!({"files": files, "defs": defs}).to_string()
}

fn main() {
    silence_panics();
    let args: Vec<String> = std::env::args().collect();
    match args.get(1).map(|s| s.as_str()) {
        Some("content") => each_line(content),
        Some("code") => {
            let code = ReportCode::ParseFail;
            let one = |c: ReportCode| json!({"id": c.id(), "name": c.name()});
            let cv = program_analysis::config::COMPILER_VERSION;
            println!(
                "{}",
                json!({"id": code.id(), "name": code.name(),
                       "codes": {
                           "version_error": one(ReportCode::CompilerVersionError),
                           "no_version": one(ReportCode::NoCompilerVersionWarning),
                           "multiple_main": one(ReportCode::MultipleMainInComponent),
                           "tuple": one(ReportCode::TupleError),
                           "anonymous": one(ReportCode::AnonymousComponentError),
                           "param_collision": one(ReportCode::ParameterNameCollision),
                           "undefined": one(ReportCode::UninitializedSymbolInExpression),
                           "same_symbol": one(ReportCode::SameSymbolDeclaredTwice),
                       },
                       "compiler_version": [cv.0, cv.1, cv.2]})
            );
        }
        Some("stages") => each_line(stages),
        _ => {
            eprintln!("usage: front content|code|stages");
            std::process::exit(2);
        }
    }
}
