// Engine `front` (C02): the `content` function of Model.Includes for real files —
// what `open_file` + `parser_logic::parse_file` yield for one path, abstracted to
// the include statements.  FileStack / parse_files themselves are NOT run here
// (their mirror is the model; the implementation side of the comparison is the
// in-process ground truth of harness `e2e truth`).
//
//   front content   stdin: one JSON string per line (a path)
//                   stdout: one JSON object per line
//                     {"c":"U"}                        read_to_string fails
//                     {"c":"E"}                        the single-file parser returns an error
//                     {"c":"P","incs":[[path,start,end],..]}  include statements with the range of their Meta
//                     {"c":"panic"}
//   front code      stdout: {"id": .., "name": ..} — `ReportCode::ParseFail.id()` / `.name()` of the current tree, the
//                   code Model.Front.report_of gives every report of the Includes stage (parameters pf_id / pf_name)
use serde_json::{json, Value};
use verif_harness::{each_line, guarded, silence_panics};

fn content(line: &str) -> String {
    let path: String = match serde_json::from_str(line) {
        Ok(Value::String(s)) => s,
        _ => return json!({"c": "bad-line"}).to_string(),
    };
    let src = match std::fs::read_to_string(&path) {
        Ok(s) => s,
        Err(_) => return json!({"c": "U"}).to_string(),
    };
    match guarded(|| parser::verif::parse_source(&src, 0)) {
        None => json!({"c": "panic"}).to_string(),
        Some(Err(_)) => json!({"c": "E"}).to_string(),
        Some(Ok(ast)) => {
            let incs: Vec<Value> = ast
                .includes
                .iter()
                .map(|i| {
                    let loc = i.meta.file_location();
                    json!([i.path, loc.start, loc.end])
                })
                .collect();
            json!({"c": "P", "incs": incs}).to_string()
        }
    }
}

fn main() {
    silence_panics();
    let args: Vec<String> = std::env::args().collect();
    match args.get(1).map(|s| s.as_str()) {
        Some("content") => each_line(content),
        Some("code") => {
            let code = program_structure::report_code::ReportCode::ParseFail;
            println!("{}", json!({"id": code.id(), "name": code.name()}));
        }
        _ => {
            eprintln!("usage: front content|code");
            std::process::exit(2);
        }
    }
}
