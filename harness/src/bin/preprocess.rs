// Engine `preprocess` (C05, C04): runs the real comment stripper
// `parser::verif::preprocess` and prints one canonical line per case.
//
//   preprocess                      stdin lines "c c c ..." (decimal Unicode scalar
//                                   values, "-" for the empty string) -> "<input> = <result>"
//   preprocess sweep L P full       every string of exactly L symbols over the alphabet
//                                   / * \n a " é whose first min(L,2) symbols are the
//                                   base-6 digits of P, in lexicographic order
//   preprocess sweep L P digest     same space, one line "digest <count> <ok> <err> <changed> <hash>"
//   preprocess sweep L P full|digest c,c,c,...   the same over the given alphabet (decimal
//                                   scalar values, K symbols, prefix digits in base K)
//
// result: "ok c c c" (scalars of the output text) | "err <start> <end>" (byte
// range of the primary label of the report) | "panic".
use std::io::Write;

pub const ALPHABET: [char; 6] = ['/', '*', '\n', 'a', '"', 'é'];

fn show_scalars<I: Iterator<Item = char>>(it: I) -> String {
    let v: Vec<String> = it.map(|c| (c as u32).to_string()).collect();
    if v.is_empty() {
        "-".to_string()
    } else {
        v.join(" ")
    }
}

pub fn run_one(src: &str) -> String {
    match verif_harness::guarded(|| parser::verif::preprocess(src, 0)) {
        None => "panic".to_string(),
        Some(Ok(text)) => format!("ok {}", show_scalars(text.chars())),
        Some(Err(report)) => match report.primary().first() {
            Some(label) => format!("err {} {}", label.range.start, label.range.end),
            None => "err nolabel".to_string(),
        },
    }
}

fn run_line(line: &str) -> String {
    let mut src = String::new();
    if line != "-" {
        for t in line.split_whitespace() {
            match t.parse::<u32>().ok().and_then(char::from_u32) {
                Some(c) => src.push(c),
                None => return format!("{} = bad-line", line),
            }
        }
    }
    format!("{} = {}", line, run_one(&src))
}

/// 62-bit multiplicative hash, the same on the OCaml side.
fn mix(h: u64, bytes: &[u8]) -> u64 {
    let mut h = h;
    for b in bytes {
        h = (h.wrapping_mul(1099511628211) ^ (*b as u64)) & 0x3fff_ffff_ffff_ffff;
    }
    h
}

fn sweep(len: usize, prefix: usize, digest: bool, alphabet: &[char]) {
    let k_sym = alphabet.len();
    let stdout = std::io::stdout();
    let mut out = std::io::BufWriter::new(stdout.lock());
    let fixed = len.min(2);
    let mut idx = vec![0usize; len];
    if fixed == 2 {
        idx[0] = prefix / k_sym;
        idx[1] = prefix % k_sym;
    } else if fixed == 1 {
        idx[0] = prefix % k_sym;
    }
    let (mut count, mut n_ok, mut n_err, mut n_changed, mut h) = (0u64, 0u64, 0u64, 0u64, 14695981039346656037u64 & 0x3fff_ffff_ffff_ffff);
    loop {
        let src: String = idx.iter().map(|&i| alphabet[i]).collect();
        let res = run_one(&src);
        let line = format!("{} = {}", show_scalars(src.chars()), res);
        if digest {
            count += 1;
            if res.starts_with("ok") {
                n_ok += 1;
                if res[3..] != show_scalars(src.chars()) {
                    n_changed += 1;
                }
            } else if res.starts_with("err") {
                n_err += 1;
            }
            h = mix(h, line.as_bytes());
            h = mix(h, b"\n");
        } else {
            writeln!(out, "{}", line).unwrap();
        }
        // next string (odometer over the free positions)
        let mut k = len;
        loop {
            if k == fixed {
                if digest {
                    writeln!(out, "digest {} {} {} {} {}", count, n_ok, n_err, n_changed, h).unwrap();
                }
                out.flush().unwrap();
                return;
            }
            k -= 1;
            if idx[k] + 1 < k_sym {
                idx[k] += 1;
                break;
            }
            idx[k] = 0;
        }
    }
}

fn main() {
    verif_harness::silence_panics();
    let args: Vec<String> = std::env::args().collect();
    if args.len() >= 5 && args[1] == "sweep" {
        let alphabet: Vec<char> = match args.get(5) {
            Some(a) => a.split(',').map(|t| char::from_u32(t.parse().unwrap()).unwrap()).collect(),
            None => ALPHABET.to_vec(),
        };
        sweep(args[2].parse().unwrap(), args[3].parse().unwrap(), args[4] == "digest", &alphabet);
    } else {
        verif_harness::each_line(run_line);
    }
}
