// Engine `preprocess` (C05, C04): runs the real comment stripper
// `parser::verif::preprocess` and prints one canonical line per case.
//
//   preprocess                      stdin lines "c c c ..." (decimal Unicode scalar
//                                   values, "-" for the empty string) -> "<input> = <result>"
//   preprocess sweep L P full       every string of exactly L symbols over the alphabet
//                                   / * \n a " é whose first min(L,2) symbols are the
//                                   base-6 digits of P, in lexicographic order
//   preprocess sweep L P digest     same space, one line "digest <count> <ok> <err> <changed> <hash>"
//   preprocess sweep L P full|digest c,c,c,...   the same over the given alphabet (decimal
//                                   scalar values, K symbols, prefix digits in base K)
//
//   preprocess ast                  stdin lines as above -> "<input> = <answer of the parse entry point>":
//                                   `parser::verif::parse_source` (= parser_logic::parse_file) is run on
//                                   the text with the file id (0 unless `fid N`) and the WHOLE answer is printed: "ast <sexp>"
//                                   (version, custom-gate flags, includes, every definition with name,
//                                   arguments, argument location and body, main component; every Meta with
//                                   start, end, location, file id; every constructor and field matched
//                                   explicitly) | "error <sexp of the report: level, id, message, primary
//                                   and secondary labels with ranges, notes>" | "panic".  Used by C05 to
//                                   observe that sources with the same comment-lexer image are
//                                   indistinguishable behind the entry point.
//
//   preprocess project              stdin lines: JSON {"files": [paths named on the command line]} -> one JSON line:
//                                   the answer of the public entry point `parser::parse_files` (no hook), UNFILTERED:
//                                   mode (program | library), the files read (id, path, user input or included),
//                                   every report (level, id, message, primary labels with file id, path, byte range)
//                                   and every definition kept (kind, name, path of its file).  Used for an unclosed
//                                   comment in a file that is only included: the CLI does not display reports located
//                                   in such files (C03 / C19), so the report is looked for where it is produced.
//   preprocess fid <N> ...          any of the above with file id N instead of 0 handed to the hook
//                                   (third audit: the file id of the report is part of the answer)
//
// result: "ok c c c" (scalars of the output text) | "err <start> <end>" (byte
// range of the primary label of the report; followed by " file-id <f>" when the
// label names another file than the one the hook was called with, and by
// " labels <n>" when the report has not exactly one primary label) | "panic".
use program_structure::ast::*;
use program_structure::report::Report;
use std::fmt::Write as _;
use std::io::Write;

pub const ALPHABET: [char; 6] = ['/', '*', '\n', 'a', '"', 'é'];

fn show_scalars<I: Iterator<Item = char>>(it: I) -> String {
    let v: Vec<String> = it.map(|c| (c as u32).to_string()).collect();
    if v.is_empty() {
        "-".to_string()
    } else {
        v.join(" ")
    }
}

static FILE_ID: std::sync::atomic::AtomicUsize = std::sync::atomic::AtomicUsize::new(0);

fn file_id() -> usize {
    FILE_ID.load(std::sync::atomic::Ordering::Relaxed)
}

pub fn run_one(src: &str) -> String {
    let fid = file_id();
    match verif_harness::guarded(|| parser::verif::preprocess(src, fid)) {
        None => "panic".to_string(),
        Some(Ok(text)) => format!("ok {}", show_scalars(text.chars())),
        Some(Err(report)) => match report.primary().first() {
            Some(label) => {
                let mut o = format!("err {} {}", label.range.start, label.range.end);
                if label.file_id != fid {
                    write!(o, " file-id {}", label.file_id).unwrap();
                }
                if report.primary().len() != 1 {
                    write!(o, " labels {}", report.primary().len()).unwrap();
                }
                o
            }
            None => "err nolabel".to_string(),
        },
    }
}

fn run_line(line: &str) -> String {
    run_line_with(line, run_one)
}

fn ast_line(line: &str) -> String {
    run_line_with(line, ast_one)
}

fn run_line_with(line: &str, f: fn(&str) -> String) -> String {
    let mut src = String::new();
    if line != "-" {
        for t in line.split_whitespace() {
            match t.parse::<u32>().ok().and_then(char::from_u32) {
                Some(c) => src.push(c),
                None => return format!("{} = bad-line", line),
            }
        }
    }
    format!("{} = {}", line, f(&src))
}

// ---------------------------------------------------------------------------
// `ast` mode: the answer of the parse entry point, printed in full
// ---------------------------------------------------------------------------

fn hexs(s: &str) -> String {
    let mut o = String::from("x");
    for b in s.bytes() {
        write!(o, "{:02x}", b).unwrap();
    }
    o
}

fn meta(m: &Meta) -> String {
    let f = match m.file_id {
        Some(f) => f.to_string(),
        None => "-".to_string(),
    };
    format!("@{}:{}:{}:{}:{}", m.start, m.end, m.location.start, m.location.end, f)
}

fn op(o: &AssignOp) -> &'static str {
    match o {
        AssignOp::AssignVar => "av",
        AssignOp::AssignSignal => "as",
        AssignOp::AssignConstraintSignal => "acs",
    }
}

fn xtype(t: &VariableType) -> String {
    match t {
        VariableType::Var => "var".to_string(),
        VariableType::Component => "comp".to_string(),
        VariableType::AnonymousComponent => "anoncomp".to_string(),
        VariableType::Signal(st, tags) => {
            let s = match st {
                SignalType::Input => "in",
                SignalType::Output => "out",
                SignalType::Intermediate => "mid",
            };
            let mut o = format!("(sig {}", s);
            for t in tags {
                o.push(' ');
                o.push_str(t);
            }
            o.push(')');
            o
        }
    }
}

fn infix(o: &ExpressionInfixOpcode) -> &'static str {
    use ExpressionInfixOpcode::*;
    match o {
        Mul => "Mul",
        Div => "Div",
        Add => "Add",
        Sub => "Sub",
        Pow => "Pow",
        IntDiv => "IntDiv",
        Mod => "Mod",
        ShiftL => "ShiftL",
        ShiftR => "ShiftR",
        LesserEq => "LesserEq",
        GreaterEq => "GreaterEq",
        Lesser => "Lesser",
        Greater => "Greater",
        Eq => "Eq",
        NotEq => "NotEq",
        BoolOr => "BoolOr",
        BoolAnd => "BoolAnd",
        BitOr => "BitOr",
        BitAnd => "BitAnd",
        BitXor => "BitXor",
    }
}

fn prefix(o: &ExpressionPrefixOpcode) -> &'static str {
    match o {
        ExpressionPrefixOpcode::Sub => "Neg",
        ExpressionPrefixOpcode::BoolNot => "BoolNot",
        ExpressionPrefixOpcode::Complement => "Complement",
    }
}

fn exprs(out: &mut String, es: &[Expression]) {
    for e in es {
        out.push(' ');
        expr(out, e);
    }
}

fn access(out: &mut String, acc: &[Access]) {
    out.push_str("(acc");
    for a in acc {
        match a {
            Access::ComponentAccess(n) => {
                write!(out, " (ca {})", n).unwrap();
            }
            Access::ArrayAccess(e) => {
                out.push_str(" (aa ");
                expr(out, e);
                out.push(')');
            }
        }
    }
    out.push(')');
}

fn expr(out: &mut String, e: &Expression) {
    match e {
        Expression::InfixOp { meta: m, lhe, infix_op, rhe } => {
            write!(out, "(infix {} {} ", meta(m), infix(infix_op)).unwrap();
            expr(out, lhe);
            out.push(' ');
            expr(out, rhe);
            out.push(')');
        }
        Expression::PrefixOp { meta: m, prefix_op, rhe } => {
            write!(out, "(prefix {} {} ", meta(m), prefix(prefix_op)).unwrap();
            expr(out, rhe);
            out.push(')');
        }
        Expression::InlineSwitchOp { meta: m, cond, if_true, if_false } => {
            write!(out, "(switch {} ", meta(m)).unwrap();
            expr(out, cond);
            out.push(' ');
            expr(out, if_true);
            out.push(' ');
            expr(out, if_false);
            out.push(')');
        }
        Expression::ParallelOp { meta: m, rhe } => {
            write!(out, "(par {} ", meta(m)).unwrap();
            expr(out, rhe);
            out.push(')');
        }
        Expression::Variable { meta: m, name, access: acc } => {
            write!(out, "(var {} {} ", meta(m), name).unwrap();
            access(out, acc);
            out.push(')');
        }
        Expression::Number(m, v) => {
            write!(out, "(num {} {})", meta(m), v.to_str_radix(16)).unwrap();
        }
        Expression::Call { meta: m, id, args } => {
            write!(out, "(call {} {}", meta(m), id).unwrap();
            exprs(out, args);
            out.push(')');
        }
        Expression::AnonymousComponent { meta: m, id, is_parallel, params, signals, names } => {
            write!(out, "(anon {} {} {} (params", meta(m), id, if *is_parallel { 1 } else { 0 }).unwrap();
            exprs(out, params);
            out.push_str(") (signals");
            exprs(out, signals);
            out.push(')');
            match names {
                None => out.push_str(" nonames"),
                Some(ns) => {
                    out.push_str(" (names");
                    for (o, n) in ns {
                        write!(out, " ({} {})", op(o), n).unwrap();
                    }
                    out.push(')');
                }
            }
            out.push(')');
        }
        Expression::ArrayInLine { meta: m, values } => {
            write!(out, "(array {}", meta(m)).unwrap();
            exprs(out, values);
            out.push(')');
        }
        Expression::Tuple { meta: m, values } => {
            write!(out, "(tuple {}", meta(m)).unwrap();
            exprs(out, values);
            out.push(')');
        }
    }
}

fn stmts(out: &mut String, ss: &[Statement]) {
    for s in ss {
        out.push(' ');
        stmt(out, s);
    }
}

fn stmt(out: &mut String, s: &Statement) {
    match s {
        Statement::IfThenElse { meta: m, cond, if_case, else_case } => {
            write!(out, "(if {} ", meta(m)).unwrap();
            expr(out, cond);
            out.push(' ');
            stmt(out, if_case);
            if let Some(e) = else_case {
                out.push(' ');
                stmt(out, e);
            }
            out.push(')');
        }
        Statement::While { meta: m, cond, stmt: body } => {
            write!(out, "(while {} ", meta(m)).unwrap();
            expr(out, cond);
            out.push(' ');
            stmt(out, body);
            out.push(')');
        }
        Statement::Return { meta: m, value } => {
            write!(out, "(return {} ", meta(m)).unwrap();
            expr(out, value);
            out.push(')');
        }
        Statement::InitializationBlock { meta: m, xtype: t, initializations } => {
            write!(out, "(initblock {} {}", meta(m), xtype(t)).unwrap();
            stmts(out, initializations);
            out.push(')');
        }
        Statement::Declaration { meta: m, xtype: t, name, dimensions, is_constant } => {
            write!(out, "(decl {} {} {} {}", meta(m), xtype(t), name, if *is_constant { 1 } else { 0 }).unwrap();
            exprs(out, dimensions);
            out.push(')');
        }
        Statement::Substitution { meta: m, var, access: acc, op: o, rhe } => {
            write!(out, "(sub {} {} {} ", meta(m), var, op(o)).unwrap();
            access(out, acc);
            out.push(' ');
            expr(out, rhe);
            out.push(')');
        }
        Statement::MultiSubstitution { meta: m, lhe, op: o, rhe } => {
            write!(out, "(msub {} {} ", meta(m), op(o)).unwrap();
            expr(out, lhe);
            out.push(' ');
            expr(out, rhe);
            out.push(')');
        }
        Statement::ConstraintEquality { meta: m, lhe, rhe } => {
            write!(out, "(ceq {} ", meta(m)).unwrap();
            expr(out, lhe);
            out.push(' ');
            expr(out, rhe);
            out.push(')');
        }
        Statement::LogCall { meta: m, args } => {
            write!(out, "(log {}", meta(m)).unwrap();
            for a in args {
                match a {
                    LogArgument::LogStr(s) => {
                        write!(out, " (str {})", hexs(s)).unwrap();
                    }
                    LogArgument::LogExp(e) => {
                        out.push_str(" (exp ");
                        expr(out, e);
                        out.push(')');
                    }
                }
            }
            out.push(')');
        }
        Statement::Block { meta: m, stmts: ss } => {
            write!(out, "(block {}", meta(m)).unwrap();
            stmts(out, ss);
            out.push(')');
        }
        Statement::Assert { meta: m, arg } => {
            write!(out, "(assert {} ", meta(m)).unwrap();
            expr(out, arg);
            out.push(')');
        }
    }
}

fn definition(out: &mut String, d: &Definition) {
    match d {
        Definition::Template { meta: m, name, args, arg_location, body, parallel, is_custom_gate } => {
            write!(out, "(T {} {} (args", meta(m), name).unwrap();
            for a in args {
                write!(out, " {}", a).unwrap();
            }
            write!(out, ") (argloc {} {}) par={} custom={} ", arg_location.start, arg_location.end,
                   if *parallel { 1 } else { 0 }, if *is_custom_gate { 1 } else { 0 }).unwrap();
            stmt(out, body);
            out.push(')');
        }
        Definition::Function { meta: m, name, args, arg_location, body } => {
            write!(out, "(F {} {} (args", meta(m), name).unwrap();
            for a in args {
                write!(out, " {}", a).unwrap();
            }
            write!(out, ") (argloc {} {}) ", arg_location.start, arg_location.end).unwrap();
            stmt(out, body);
            out.push(')');
        }
    }
}

fn ast_dump(ast: &AST) -> String {
    let AST { meta: m, compiler_version, custom_gates, custom_gates_declared, includes, definitions, main_component } = ast;
    let mut out = format!("(ast {} ", meta(m));
    match compiler_version {
        Some((a, b, c)) => write!(out, "(version {} {} {})", a, b, c).unwrap(),
        None => out.push_str("noversion"),
    }
    write!(out, " gates={} declared={} (includes", if *custom_gates { 1 } else { 0 },
           if *custom_gates_declared { 1 } else { 0 }).unwrap();
    for Include { meta: im, path } in includes {
        write!(out, " (inc {} {})", meta(im), hexs(path)).unwrap();
    }
    out.push_str(") (defs");
    for d in definitions {
        out.push(' ');
        definition(&mut out, d);
    }
    out.push_str(") ");
    match main_component {
        None => out.push_str("nomain"),
        Some((public, call)) => {
            out.push_str("(main (public");
            for p in public {
                write!(out, " {}", p).unwrap();
            }
            out.push_str(") ");
            expr(&mut out, call);
            out.push(')');
        }
    }
    out.push(')');
    out
}

fn report_dump(r: &Report) -> String {
    let mut o = format!("(report {} {} {} {}", r.category().to_level(), r.id(), r.name(), hexs(r.message()));
    for l in r.primary() {
        write!(o, " (p {} {} {} {})", l.range.start, l.range.end, l.file_id, hexs(&l.message)).unwrap();
    }
    for l in r.secondary() {
        write!(o, " (s {} {} {} {})", l.range.start, l.range.end, l.file_id, hexs(&l.message)).unwrap();
    }
    for n in r.notes() {
        write!(o, " (n {})", hexs(n)).unwrap();
    }
    o.push(')');
    o
}

pub fn ast_one(src: &str) -> String {
    match verif_harness::guarded(|| parser::verif::parse_source(src, file_id())) {
        None => "panic".to_string(),
        Some(Ok(ast)) => format!("ast {}", ast_dump(&ast)),
        Some(Err(report)) => format!("error {}", report_dump(&report)),
    }
}

fn project_line(line: &str) -> String {
    use serde_json::{json, Value};
    let input: Value = match serde_json::from_str(line) {
        Ok(v) => v,
        Err(e) => return json!({"bad_input": e.to_string()}).to_string(),
    };
    let files_in: Vec<std::path::PathBuf> = input["files"]
        .as_array()
        .map(|a| a.iter().filter_map(|x| x.as_str()).map(std::path::PathBuf::from).collect())
        .unwrap_or_default();
    let Some(result) = verif_harness::guarded(|| {
        parser::parse_files(&files_in, &[], &program_analysis::config::COMPILER_VERSION)
    }) else {
        return json!({"panic": "parse_files"}).to_string();
    };
    let (mode, templates, functions, files, reports) = match result {
        parser::ParseResult::Program(p, r) => ("program", p.templates, p.functions, p.file_library, r),
        parser::ParseResult::Library(l, r) => ("library", l.templates, l.functions, l.file_library, r),
    };
    let storage = files.to_storage();
    let path_of = |id: usize| storage.get(id).map(|f| f.name().clone()).ok();
    let mut file_list = Vec::new();
    let mut id = 0;
    while let Ok(file) = storage.get(id) {
        file_list.push(json!({"id": id, "path": file.name(), "user": files.is_user_input(id)}));
        id += 1;
    }
    let reports: Vec<Value> = reports
        .iter()
        .map(|r| {
            json!({
                "level": r.category().to_level(),
                "id": r.id(),
                "message": r.message(),
                "primary": r.primary().iter().map(|l| json!({"file": l.file_id, "path": path_of(l.file_id),
                    "start": l.range.start, "end": l.range.end})).collect::<Vec<_>>(),
            })
        })
        .collect();
    let mut defs = Vec::new();
    let mut names: Vec<&String> = templates.keys().collect();
    names.sort();
    for n in names {
        defs.push(json!({"kind": "template", "name": n, "path": path_of(templates[n].get_file_id())}));
    }
    let mut names: Vec<&String> = functions.keys().collect();
    names.sort();
    for n in names {
        defs.push(json!({"kind": "function", "name": n, "path": path_of(functions[n].get_file_id())}));
    }
    json!({"mode": mode, "files": file_list, "reports": reports, "defs": defs}).to_string()
}

/// 62-bit multiplicative hash, the same on the OCaml side.
fn mix(h: u64, bytes: &[u8]) -> u64 {
    let mut h = h;
    for b in bytes {
        h = (h.wrapping_mul(1099511628211) ^ (*b as u64)) & 0x3fff_ffff_ffff_ffff;
    }
    h
}

fn sweep(len: usize, prefix: usize, digest: bool, alphabet: &[char]) {
    let k_sym = alphabet.len();
    let stdout = std::io::stdout();
    let mut out = std::io::BufWriter::new(stdout.lock());
    let fixed = len.min(2);
    let mut idx = vec![0usize; len];
    if fixed == 2 {
        idx[0] = prefix / k_sym;
        idx[1] = prefix % k_sym;
    } else if fixed == 1 {
        idx[0] = prefix % k_sym;
    }
    let (mut count, mut n_ok, mut n_err, mut n_changed, mut h) = (0u64, 0u64, 0u64, 0u64, 14695981039346656037u64 & 0x3fff_ffff_ffff_ffff);
    loop {
        let src: String = idx.iter().map(|&i| alphabet[i]).collect();
        let res = run_one(&src);
        let line = format!("{} = {}", show_scalars(src.chars()), res);
        if digest {
            count += 1;
            if res.starts_with("ok") {
                n_ok += 1;
                if res[3..] != show_scalars(src.chars()) {
                    n_changed += 1;
                }
            } else if res.starts_with("err") {
                n_err += 1;
            }
            h = mix(h, line.as_bytes());
            h = mix(h, b"\n");
        } else {
            writeln!(out, "{}", line).unwrap();
        }
        // next string (odometer over the free positions)
        let mut k = len;
        loop {
            if k == fixed {
                if digest {
                    writeln!(out, "digest {} {} {} {} {}", count, n_ok, n_err, n_changed, h).unwrap();
                }
                out.flush().unwrap();
                return;
            }
            k -= 1;
            if idx[k] + 1 < k_sym {
                idx[k] += 1;
                break;
            }
            idx[k] = 0;
        }
    }
}

fn main() {
    verif_harness::silence_panics();
    let mut args: Vec<String> = std::env::args().collect();
    if args.len() >= 3 && args[1] == "fid" {
        FILE_ID.store(args[2].parse().unwrap(), std::sync::atomic::Ordering::Relaxed);
        args.drain(1..3);
    }
    if args.len() >= 5 && args[1] == "sweep" {
        let alphabet: Vec<char> = match args.get(5) {
            Some(a) => a.split(',').map(|t| char::from_u32(t.parse().unwrap()).unwrap()).collect(),
            None => ALPHABET.to_vec(),
        };
        sweep(args[2].parse().unwrap(), args[3].parse().unwrap(), args[4] == "digest", &alphabet);
    } else if args.len() >= 2 && args[1] == "project" {
        verif_harness::each_line(project_line);
    } else if args.len() >= 2 && args[1] == "ast" {
        verif_harness::each_line(ast_line);
    } else {
        verif_harness::each_line(run_line);
    }
}
