// Engine `c17` (property C17 only): the REAL AnalysisRunner driven in process.
//
//   c17 orders   stdin: one JSON object per line {"files":[..],"libs":[..],"reps":N}
//                The complete pipeline of cli/src/main.rs (AnalysisRunner::new
//                .with_libraries.with_files, the parser's reports,
//                analyze_functions, analyze_templates) is run N times, each
//                time in a freshly spawned thread: every std HashMap/HashSet
//                created by the pipeline then gets a fresh RandomState (the
//                thread-local keys of std::collections::hash_map::RandomState
//                are drawn from the OS per thread), exactly like a fresh
//                process.  A capturing writer (LogWriter + ReportWriter)
//                records what the runner hands to the writer per "analyzing"
//                message.  Output: the iteration orders seen per repetition
//                and the distinct outcomes (per owner the sorted reports).
//
//   c17 deps     stdin: {"files":[..],"libs":[..],"orders":[[["template","T"],..],..]}
//                For every given analysis order a fresh real runner is built
//                and driven exactly as analyze_template / analyze_function do
//                (take_*, the passes of get_analysis_passes(), replace_*),
//                but the passes see the runner through a recording wrapper:
//                every AnalysisContext::template / function call is passed on
//                to the REAL runner (its caches answer) and logged together
//                with what the pass can read from the answer (the output
//                signals of the CFG and the number of their dimensions).
//                Output per order and definition: lookups with answers, the
//                pass reports, per pass the number of questions put to the
//                context and the ids of its reports.  This mode exists to
//                RECORD the lookups; it re-plays take/passes/replace and does
//                not run analyze_template itself - that is `allorders`.
//
//   c17 allorders  stdin: {"files":[..],"libs":[..],"curve":..,"want":N,"cap":M}
//                The real analyze_functions / analyze_templates (the private
//                analyze_template with take_*_reports and the writer) in
//                fresh threads until N distinct analysis orders were seen.
use program_analysis::analysis_context::{AnalysisContext, AnalysisError};
use program_analysis::analysis_runner::AnalysisRunner;
use program_analysis::{config, get_analysis_passes};
use program_structure::cfg::Cfg;
use program_structure::constants::Curve;
use program_structure::file_definition::{FileID, FileLibrary, FileLocation};
use program_structure::report::{Report, ReportLabel};
use program_structure::writers::{LogWriter, ReportWriter};
use serde_json::{json, Value};
use std::collections::BTreeMap;
use std::fmt::Display;
use std::path::PathBuf;
use std::str::FromStr;
use verif_harness::{each_line, guarded, silence_panics};

fn label_json(label: &ReportLabel, files: &FileLibrary) -> Value {
    let storage = files.to_storage();
    let (path, text) = match storage.get(label.file_id) {
        Ok(f) => {
            let src = f.source();
            let text = if label.range.start <= label.range.end
                && label.range.end <= src.len()
                && src.is_char_boundary(label.range.start)
                && src.is_char_boundary(label.range.end)
            {
                Some(src[label.range.start..label.range.end].to_string())
            } else {
                None
            };
            (Some(f.name().clone()), text)
        }
        Err(_) => (None, None),
    };
    json!({"path": path, "text": text, "msg": label.message,
           "start": label.range.start, "end": label.range.end})
}

/// The labels of a report in the order in which they are DISPLAYED (codespan
/// renders them by position; the order inside the report's vectors - often a
/// hash order - is not observable): by file, start, end, message.
fn labels_json(labels: &[ReportLabel], files: &FileLibrary) -> Vec<Value> {
    let mut ls: Vec<&ReportLabel> = labels.iter().collect();
    ls.sort_by(|a, b| {
        (a.file_id, a.range.start, a.range.end, &a.message)
            .cmp(&(b.file_id, b.range.start, b.range.end, &b.message))
    });
    ls.into_iter().map(|l| label_json(l, files)).collect()
}

/// A report as it is displayed: level, id, message, the labels (file, byte
/// range, labelled source text, message) in display order, the notes.
fn report_json(report: &Report, files: &FileLibrary) -> Value {
    json!({
        "level": report.category().to_level(),
        "id": report.id(),
        "message": report.message(),
        "primary": labels_json(report.primary(), files),
        "secondary": labels_json(report.secondary(), files),
        "notes": report.notes(),
    })
}

fn inputs(line: &str) -> Result<(Value, Vec<PathBuf>, Vec<PathBuf>, Curve), String> {
    let input: Value = serde_json::from_str(line).map_err(|e| e.to_string())?;
    let paths = |key: &str| -> Vec<PathBuf> {
        input[key]
            .as_array()
            .map(|a| a.iter().filter_map(|x| x.as_str()).map(PathBuf::from).collect())
            .unwrap_or_default()
    };
    let files = paths("files");
    let libs = paths("libs");
    let curve = Curve::from_str(input["curve"].as_str().unwrap_or(config::DEFAULT_CURVE))
        .unwrap_or_default();
    Ok((input, files, libs, curve))
}

// ---- orders -------------------------------------------------------------------

/// Records what the runner writes: the owner is the last "analyzing ..." message.
#[derive(Default)]
struct Capture {
    owner: String,
    log: Vec<String>,
    segments: Vec<(String, Vec<String>)>,
    written: usize,
}

/// "<verb> template|function <name>": the announcement of the analysis of a
/// definition, whatever the verb and the quotes are.
fn is_owner_line(m: &str) -> bool {
    let w: Vec<&str> = m.split_whitespace().collect();
    w.len() == 3 && (w[1] == "template" || w[1] == "function")
}

fn owner_suffix(m: &str) -> String {
    m.split_once(' ').map(|x| x.1.to_string()).unwrap_or_default()
}

impl LogWriter for Capture {
    fn write_messages<D: Display>(&mut self, messages: &[D]) {
        for m in messages {
            let m = m.to_string();
            if is_owner_line(&m) {
                self.owner = m.clone();
            }
            self.log.push(m);
        }
    }
}

impl ReportWriter for Capture {
    fn write_reports(&mut self, reports: &[Report], file_library: &FileLibrary) -> usize {
        let mut rs: Vec<String> =
            reports.iter().map(|r| report_json(r, file_library).to_string()).collect();
        rs.sort();
        self.written += rs.len();
        self.segments.push((self.owner.clone(), rs));
        reports.len()
    }

    fn reports_written(&self) -> usize {
        self.written
    }
}

/// One run of the pipeline of main.rs. -> (template map order, function map
/// order, analysis log, owner -> sorted reports)
fn pipeline(
    files: &[PathBuf],
    libs: &[PathBuf],
    curve: &Curve,
) -> (Vec<String>, Vec<String>, Vec<String>, BTreeMap<String, Vec<String>>) {
    let (mut runner, reports) =
        AnalysisRunner::new(curve.clone()).with_libraries(libs).with_files(files);
    let torder = runner.template_names(false);
    let forder = runner.function_names(false);
    let mut cap = Capture { owner: "parse".to_string(), ..Default::default() };
    let fl = runner.file_library().clone();
    cap.write_reports(&reports, &fl);
    runner.analyze_functions(&mut cap, true);
    runner.analyze_templates(&mut cap, true);
    let mut owners: BTreeMap<String, Vec<String>> = BTreeMap::new();
    for (owner, rs) in cap.segments {
        // an owner analysed twice would show up as two segments: keep that visible
        if let Some(e) = owners.get_mut(&owner) {
            e.push("<<second segment>>".to_string());
            e.extend(rs);
        } else {
            owners.insert(owner, rs);
        }
    }
    (torder, forder, cap.log, owners)
}

fn orders(line: &str) -> String {
    let (input, files, libs, curve) = match inputs(line) {
        Ok(x) => x,
        Err(e) => return json!({"bad_input": e}).to_string(),
    };
    let reps = input["reps"].as_u64().unwrap_or(8) as usize;
    let mut torders = Vec::new();
    let mut forders = Vec::new();
    let mut aorders = Vec::new();
    let mut outcomes: Vec<(String, usize, usize)> = Vec::new(); // canonical text, count, first rep
    for rep in 0..reps {
        let (f, l, c) = (files.clone(), libs.clone(), curve.clone());
        // a fresh thread: fresh thread-local hasher keys for every map of the pipeline
        let res = std::thread::Builder::new()
            .stack_size(64 << 20)
            .spawn(move || guarded(|| pipeline(&f, &l, &c)))
            .ok()
            .and_then(|h| h.join().ok())
            .flatten();
        let canon = match res {
            Some((t, f, log, owners)) => {
                torders.push(t.join(" "));
                forders.push(f.join(" "));
                aorders.push(
                    log.iter()
                        .filter(|m| is_owner_line(m))
                        .map(|m| owner_suffix(m))
                        .collect::<Vec<_>>()
                        .join(" "),
                );
                json!({"owners": owners}).to_string()
            }
            None => {
                torders.push("<panic>".to_string());
                forders.push("<panic>".to_string());
                aorders.push("<panic>".to_string());
                json!({"panic": true}).to_string()
            }
        };
        match outcomes.iter_mut().find(|o| o.0 == canon) {
            Some(o) => o.1 += 1,
            None => outcomes.push((canon, 1, rep)),
        }
    }
    let outs: Vec<Value> = outcomes
        .iter()
        .map(|(c, n, first)| {
            json!({"count": n, "first_rep": first, "outcome": serde_json::from_str::<Value>(c).unwrap_or(Value::Null)})
        })
        .collect();
    json!({"reps": reps, "template_orders": torders, "function_orders": forders,
           "analysis_orders": aorders, "outcomes": outs})
    .to_string()
}

// ---- allorders ------------------------------------------------------------------

/// The REAL `analyze_functions` / `analyze_templates` (hence the real private
/// `analyze_template` / `analyze_function` with `take_*_reports` and the
/// writer) under EVERY order of the two name maps: the pipeline is repeated in
/// fresh threads (fresh hasher keys, hence another iteration order of
/// `template_asts` / `function_asts`) until `want` distinct analysis orders
/// have been seen or `cap` repetitions were made.  No hook is needed: for the
/// small maps this is used for (<= 4 entries) every permutation turns up
/// within a few dozen hash states.  Output: per distinct analysis order the
/// number of times it was seen and the index of its outcome; the distinct
/// outcomes (owner -> sorted reports, as `orders` gives them).
fn allorders(line: &str) -> String {
    let (input, files, libs, curve) = match inputs(line) {
        Ok(x) => x,
        Err(e) => return json!({"bad_input": e}).to_string(),
    };
    let cap = input["cap"].as_u64().unwrap_or(200) as usize;
    let want = input["want"].as_u64().unwrap_or(1) as usize;
    let mut seen: Vec<(String, usize, Vec<usize>)> = Vec::new(); // order, count, outcome indices
    let mut outcomes: Vec<String> = Vec::new();
    let mut reps = 0;
    let mut panics = 0;
    while reps < cap && seen.len() < want {
        reps += 1;
        let (f, l, c) = (files.clone(), libs.clone(), curve.clone());
        let res = std::thread::Builder::new()
            .stack_size(64 << 20)
            .spawn(move || guarded(|| pipeline(&f, &l, &c)))
            .ok()
            .and_then(|h| h.join().ok())
            .flatten();
        let Some((_, _, log, owners)) = res else {
            panics += 1;
            continue;
        };
        let order = log
            .iter()
            .filter(|m| is_owner_line(m))
            .map(|m| owner_suffix(m))
            .collect::<Vec<_>>()
            .join(" ");
        let canon = json!({"owners": owners}).to_string();
        let oi = match outcomes.iter().position(|o| *o == canon) {
            Some(i) => i,
            None => {
                outcomes.push(canon);
                outcomes.len() - 1
            }
        };
        match seen.iter_mut().find(|s| s.0 == order) {
            Some(s) => {
                s.1 += 1;
                if !s.2.contains(&oi) {
                    s.2.push(oi);
                }
            }
            None => seen.push((order, 1, vec![oi])),
        }
    }
    let orders: Vec<Value> = seen
        .iter()
        .map(|(o, n, ois)| json!({"order": o, "count": n, "outcomes": ois}))
        .collect();
    let outs: Vec<Value> =
        outcomes.iter().map(|c| serde_json::from_str::<Value>(c).unwrap_or(Value::Null)).collect();
    json!({"reps": reps, "want": want, "panics": panics, "orders": orders, "outcomes": outs}).to_string()
}

// ---- deps ---------------------------------------------------------------------

/// What a pass can read from the answer to a lookup: the output signals of the
/// CFG and the number of dimensions of their declarations (sorted: the
/// declaration map is iterated in hash order).
fn summary(cfg: &Cfg) -> Value {
    let mut outs: Vec<(String, usize)> = cfg
        .output_signals()
        .map(|name| {
            let dims = cfg.get_declaration(name).map(|d| d.dimensions().len());
            (name.name().to_string(), dims.unwrap_or(usize::MAX))
        })
        .collect();
    outs.sort();
    json!(outs)
}

struct Rec<'a> {
    inner: &'a mut AnalysisRunner,
    lookups: Vec<Value>,
    /// is_function / is_template questions (they take &self): name, kind, answer
    asked: std::cell::RefCell<Vec<Value>>,
}

impl<'a> AnalysisContext for Rec<'a> {
    fn is_function(&self, name: &str) -> bool {
        let a = self.inner.is_function(name);
        self.asked.borrow_mut().push(json!({"kind": "is_function", "name": name, "answer": a}));
        a
    }

    fn is_template(&self, name: &str) -> bool {
        let a = self.inner.is_template(name);
        self.asked.borrow_mut().push(json!({"kind": "is_template", "name": name, "answer": a}));
        a
    }

    fn function(&mut self, name: &str) -> Result<&Cfg, AnalysisError> {
        let res = self.inner.function(name);
        self.lookups.push(match &res {
            Ok(cfg) => json!({"kind": "function", "name": name, "answer": summary(cfg)}),
            Err(e) => json!({"kind": "function", "name": name, "answer": Value::Null, "error": e.to_string()}),
        });
        res
    }

    fn template(&mut self, name: &str) -> Result<&Cfg, AnalysisError> {
        let res = self.inner.template(name);
        self.lookups.push(match &res {
            Ok(cfg) => json!({"kind": "template", "name": name, "answer": summary(cfg)}),
            Err(e) => json!({"kind": "template", "name": name, "answer": Value::Null, "error": e.to_string()}),
        });
        res
    }

    fn underlying_str(
        &self,
        file_id: &FileID,
        file_location: &FileLocation,
    ) -> Result<String, AnalysisError> {
        self.inner.underlying_str(file_id, file_location)
    }
}

/// analyze_template / analyze_function with the recording wrapper between the
/// passes and the runner (the cached CFG-generation reports are private to the
/// runner; they are observed through `orders` and the binary).
fn analyze(runner: &mut AnalysisRunner, kind: &str, name: &str) -> Value {
    let is_template = kind == "template";
    let cfg = if is_template { runner.take_template(name) } else { runner.take_function(name) };
    let cfg = match cfg {
        Ok(cfg) => cfg,
        Err(e) => {
            return json!({"kind": kind, "name": name, "lifted": false, "error": e.to_string(),
                          "lookups": [], "pass_reports": []})
        }
    };
    let own = summary(&cfg);
    let mut rec = Rec { inner: runner, lookups: Vec::new(), asked: Default::default() };
    let mut reports = Vec::new();
    // per pass (by position in get_analysis_passes()): how many questions it put to the
    // context and the ids of the reports it returned - which passes CAN depend on other
    // definitions is observed by running them, not read from the source text
    let mut per_pass = Vec::new();
    for pass in get_analysis_passes() {
        let before = rec.lookups.len() + rec.asked.borrow().len();
        let mut rs = pass(&mut rec, &cfg);
        let asked = rec.lookups.len() + rec.asked.borrow().len() - before;
        let mut ids: Vec<String> = rs.iter().map(|r| r.id()).collect();
        ids.sort();
        ids.dedup();
        per_pass.push(json!({"questions": asked, "ids": ids}));
        reports.append(&mut rs);
    }
    let mut lookups = std::mem::take(&mut rec.lookups);
    lookups.append(&mut rec.asked.borrow_mut());
    let regenerated = if is_template {
        runner.replace_template(name, cfg)
    } else {
        runner.replace_function(name, cfg)
    };
    let fl = runner.file_library();
    let mut rs: Vec<String> = reports.iter().map(|r| report_json(r, fl).to_string()).collect();
    rs.sort();
    json!({"kind": kind, "name": name, "lifted": true, "summary": own, "lookups": lookups,
           "regenerated": regenerated, "per_pass": per_pass,
           "pass_reports": rs.iter().map(|s| serde_json::from_str::<Value>(s).unwrap_or(Value::Null)).collect::<Vec<_>>()})
}

fn deps(line: &str) -> String {
    let (input, files, libs, curve) = match inputs(line) {
        Ok(x) => x,
        Err(e) => return json!({"bad_input": e}).to_string(),
    };
    let mut runs = Vec::new();
    let given: Vec<Value> = input["orders"].as_array().cloned().unwrap_or_default();
    // no order given: the user definitions, functions then templates, sorted by name
    let orders: Vec<Option<Value>> =
        if given.is_empty() { vec![None] } else { given.into_iter().map(Some).collect() };
    let mut user_defs = Value::Null;
    for order in orders {
        let (f, l, c) = (files.clone(), libs.clone(), curve.clone());
        let res = guarded(move || {
            let (mut runner, _reports) =
                AnalysisRunner::new(c).with_libraries(&l).with_files(&f);
            let mut fnames = runner.function_names(true);
            fnames.sort();
            let mut tnames = runner.template_names(true);
            tnames.sort();
            let mut all_t = runner.template_names(false);
            all_t.sort();
            let mut all_f = runner.function_names(false);
            all_f.sort();
            let seq: Vec<(String, String)> = match &order {
                Some(o) => o
                    .as_array()
                    .map(|a| {
                        a.iter()
                            .map(|x| {
                                (
                                    x[0].as_str().unwrap_or("").to_string(),
                                    x[1].as_str().unwrap_or("").to_string(),
                                )
                            })
                            .collect()
                    })
                    .unwrap_or_default(),
                None => fnames
                    .iter()
                    .map(|n| ("function".to_string(), n.clone()))
                    .chain(tnames.iter().map(|n| ("template".to_string(), n.clone())))
                    .collect(),
            };
            let defs: Vec<Value> =
                seq.iter().map(|(k, n)| analyze(&mut runner, k, n)).collect();
            // the files in FileID order, as the tool numbered them (the order in which it read them)
            let mut file_list = Vec::new();
            let mut id = 0;
            while let Ok(file) = runner.file_library().to_storage().get(id) {
                file_list.push(json!({"id": id, "path": file.name(),
                                      "user": runner.file_library().is_user_input(id)}));
                id += 1;
            }
            (json!({"user_functions": fnames, "user_templates": tnames,
                    "all_templates": all_t, "all_functions": all_f, "files": file_list}), defs)
        });
        match res {
            Some((u, defs)) => {
                user_defs = u;
                runs.push(json!({"defs": defs}));
            }
            None => runs.push(json!({"panic": true})),
        }
    }
    json!({"maps": user_defs, "runs": runs}).to_string()
}

fn main() {
    silence_panics();
    let args: Vec<String> = std::env::args().collect();
    match args.get(1).map(|s| s.as_str()) {
        Some("orders") => each_line(orders),
        Some("deps") => each_line(deps),
        Some("allorders") => each_line(allorders),
        _ => {
            eprintln!("usage: c17 orders|deps|allorders");
            std::process::exit(2);
        }
    }
}
