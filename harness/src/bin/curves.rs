// Engine `curves` (property C11): executes the curve-related functions of
// /repo's current tree.
//
//   curves primes        one line per curve: `<Variant> <prime, decimal> <prime_size>`
//                        obtained by executing UsefulConstants::new(&curve)
//   curves parse         stdin: one spelling per line, hex-encoded UTF-8 bytes
//                        (empty spelling = `-`); prints `<hex> = <Variant>|reject|panic`
//                        obtained by executing <Curve as FromStr>::from_str
//   curves upper         stdin: one text per line (hex); prints `<hex> = <hex of str::to_uppercase() of it>`: the
//                        normaliser Curve::from_str used before /repo db291d0, executed on every spelling of the
//                        sweep on every run and compared with Model.Curves.unicode_upper (fourth audit)
//   curves upper-table   one line `<code point, decimal> <text>` per character >= 128 whose
//                        char::to_uppercase() is ASCII text (obtained by executing it on every
//                        code point): the part of str::to_uppercase that can produce an ASCII name
//   curves ir            stdin: `<Variant> <hex path of a .circom file>` per line.  The file goes
//                        through the tool's own front end (AnalysisRunner::with_files: parser,
//                        desugaring, CFG, SSA, value/type propagation); printed is one JSON object:
//                        per definition the statements of the CFG in the order the passes visit them
//                        (cfg.iter() / basic_block.iter()), each reduced to what the three
//                        curve-dependent passes inspect (third audit: the abstraction is DERIVED from
//                        the tool's IR here, no longer written by the generator), and the result of
//                        comparing Expression::eq / Hash with structural identity on every pair of
//                        expressions the LessThan pass uses as keys.
use program_analysis::analysis_context::AnalysisContext;
use program_analysis::analysis_runner::AnalysisRunner;
use program_structure::cfg::{Cfg, DefinitionType};
use program_structure::constants::{Curve, UsefulConstants};
use program_structure::ir::value_meta::{ValueMeta, ValueReduction};
use program_structure::ir::*;
use serde_json::{json, Value};
use std::collections::hash_map::DefaultHasher;
use std::hash::{Hash, Hasher};
use std::path::PathBuf;
use std::str::FromStr;
use verif_harness::irdump;

fn variant(c: &Curve) -> &'static str {
    match c {
        Curve::Bn254 => "Bn254",
        Curve::Bls12_381 => "Bls12_381",
        Curve::Goldilocks => "Goldilocks",
    }
}

fn unhex(s: &str) -> Option<String> {
    if s == "-" {
        return Some(String::new());
    }
    if s.len() % 2 != 0 {
        return None;
    }
    let mut bytes = Vec::new();
    for i in (0..s.len()).step_by(2) {
        bytes.push(u8::from_str_radix(s.get(i..i + 2)?, 16).ok()?);
    }
    String::from_utf8(bytes).ok()
}

fn parse_line(line: &str) -> String {
    let res = match unhex(line) {
        None => "bad-line".to_string(),
        Some(s) => match verif_harness::guarded(|| Curve::from_str(&s)) {
            None => "panic".to_string(),
            Some(Ok(c)) => variant(&c).to_string(),
            Some(Err(_)) => "reject".to_string(),
        },
    };
    format!("{} = {}", line, res)
}

// ---------------------------------------------------------------------------
// `ir`: what the passes see of a file
// ---------------------------------------------------------------------------
fn vname(v: &VariableName) -> String {
    // name | suffix | version, each explicit (Debug's `a_1.2` is ambiguous for names with `_`)
    format!(
        "{}|{}|{}",
        v.name(),
        v.suffix().as_ref().map(|s| s.to_string()).unwrap_or_default(),
        v.version().map(|x| x.to_string()).unwrap_or_default()
    )
}

/// Structural identity of an expression: every field except the metas, written out.  This is the
/// reading of "syntactic equality" the model uses for the keys of the LessThan pass; the real
/// `PartialEq` / `Hash for Expression` are compared with it pair by pair (`eq_check`).
fn ident(e: &Expression) -> String {
    use Expression::*;
    fn list(es: &[Expression]) -> String {
        es.iter().map(ident).collect::<Vec<_>>().join(" ")
    }
    match e {
        Number(_, v) => format!("(n {})", v),
        Variable { name, .. } => format!("(v {})", vname(name)),
        InfixOp { lhe, infix_op, rhe, .. } => format!("(i {} {} {})", irdump::infix(infix_op), ident(lhe), ident(rhe)),
        PrefixOp { prefix_op, rhe, .. } => format!("(p {} {})", irdump::prefix(prefix_op), ident(rhe)),
        SwitchOp { cond, if_true, if_false, .. } => format!("(s {} {} {})", ident(cond), ident(if_true), ident(if_false)),
        Call { name, args, .. } => format!("(c {} {})", name, list(args)),
        InlineArray { values, .. } => format!("(a {})", list(values)),
        Access { var, access, .. } => format!("(x {} {})", vname(var), access_ident(access)),
        Update { var, access, rhe, .. } => format!("(u {} {} {})", vname(var), access_ident(access), ident(rhe)),
        Phi { args, .. } => format!("(phi {})", args.iter().map(vname).collect::<Vec<_>>().join(" ")),
    }
}

fn access_ident(a: &[AccessType]) -> String {
    a.iter()
        .map(|x| match x {
            AccessType::ArrayAccess(e) => format!("[{}]", ident(e)),
            AccessType::ComponentAccess(n) => format!(".{}", n),
        })
        .collect::<Vec<_>>()
        .join("")
}

fn access_json(a: &[AccessType]) -> Value {
    Value::Array(
        a.iter()
            .map(|x| match x {
                AccessType::ArrayAccess(e) => json!(["i", ident(e)]),
                AccessType::ComponentAccess(n) => json!(["f", n]),
            })
            .collect(),
    )
}

fn line_of(starts: &[usize], offset: usize) -> usize {
    match starts.binary_search(&offset) {
        Ok(i) => i + 1,
        Err(i) => i,
    }
}

fn argval(e: &Expression) -> Value {
    match e.value() {
        Some(ValueReduction::FieldElement { value }) => json!({"v": "f", "n": value.to_string()}),
        Some(ValueReduction::Boolean { value }) => json!({"v": "b", "b": value}),
        None => json!({"v": "-"}),
    }
}

fn hash_of(e: &Expression) -> u64 {
    let mut h = DefaultHasher::new();
    e.hash(&mut h);
    h.finish()
}

/// Every pair of key expressions of one FILE (fourth audit: across its definitions, no longer per definition):
/// `==` must be structural identity, both ways round, and equal expressions must hash alike.
fn eq_check(keys: &[(Expression, usize, String)], bad: &mut Vec<Value>, pairs: &mut usize) {
    let ids: Vec<String> = keys.iter().map(|(e, _, _)| ident(e)).collect();
    let hs: Vec<u64> = keys.iter().map(|(e, _, _)| hash_of(e)).collect();
    for i in 0..keys.len() {
        for j in i..keys.len() {
            *pairs += 1;
            let same = ids[i] == ids[j];
            let eq = keys[i].0 == keys[j].0;
            let sym = keys[j].0 == keys[i].0;
            if (eq != same || sym != same || (same && hs[i] != hs[j])) && bad.len() < 20 {
                bad.push(json!({"definition": format!("{} / {}", keys[i].2, keys[j].2), "a": keys[i].0.to_string(), "b": keys[j].0.to_string(),
                    "line_a": keys[i].1, "line_b": keys[j].1, "structurally_identical": same,
                    "eq": eq, "eq_swapped": sym, "hash_equal": hs[i] == hs[j]}));
            }
        }
    }
}

fn index_exprs(a: &[AccessType], line: usize, def: &str, out: &mut Vec<(Expression, usize, String)>) {
    for x in a {
        if let AccessType::ArrayAccess(e) = x {
            out.push((e.as_ref().clone(), line, def.to_string()));
        }
    }
}

fn dump_cfg(cfg: &Cfg, starts: &[usize], keys: &mut Vec<(Expression, usize, String)>) -> Value {
    use AssignOp::*;
    use Expression::*;
    use Statement::*;
    let mut stmts = Vec::new();
    let def = cfg.name().to_string();
    for bb in cfg.iter() {
        for stmt in bb.iter() {
            let line = line_of(starts, stmt.meta().start());
            match stmt {
                Substitution { meta, var, op: AssignLocalOrComponent, rhe } => {
                    let tk = meta.type_knowledge();
                    let tk = if tk.is_local() {
                        "local"
                    } else if tk.is_signal() {
                        "signal"
                    } else if tk.is_component() {
                        "component"
                    } else {
                        "none"
                    };
                    let (rhs, access): (&Expression, &[AccessType]) =
                        if let Update { access, rhe, .. } = rhe { (rhe.as_ref(), &access[..]) } else { (rhe, &[]) };
                    index_exprs(access, line, &def, keys);
                    let call = if let Call { meta: cm, name, args } = rhs {
                        json!({"name": name, "line": line_of(starts, cm.start()), "args": args.iter().map(argval).collect::<Vec<_>>(),
                               "shown": args.iter().map(|a| a.to_string()).collect::<Vec<_>>()})
                    } else {
                        Value::Null
                    };
                    stmts.push(json!({"k": "assign", "line": line, "tk": tk, "var": vname(&var.without_version()),
                                      "acc": access_json(access), "call": call}));
                }
                Substitution { var, op: AssignConstraintSignal, rhe, .. } => {
                    let (value, access, upd): (&Expression, &[AccessType], bool) =
                        if let Update { access, rhe, .. } = rhe { (rhe.as_ref(), &access[..], true) } else { (rhe, &[], false) };
                    index_exprs(access, line, &def, keys);
                    keys.push((value.clone(), line, def.clone()));
                    stmts.push(json!({"k": "constrain", "line": line, "var": vname(&var.without_version()), "acc": access_json(access),
                                      "update": upd, "value": ident(value), "shown": value.to_string(),
                                      "value_line": line_of(starts, value.meta().start())}));
                }
                Substitution { op: AssignSignal, .. } => stmts.push(json!({"k": "other", "line": line, "what": "assign-signal"})),
                _ => stmts.push(json!({"k": "other", "line": line})),
            }
        }
    }
    let kind = match cfg.definition_type() {
        DefinitionType::Function => "Function",
        DefinitionType::Template => "Template",
        DefinitionType::CustomTemplate => "CustomTemplate",
    };
    json!({"name": cfg.name(), "kind": kind, "stmts": stmts})
}

fn ir_line(line: &str) -> String {
    let t: Vec<&str> = line.split_whitespace().collect();
    if t.len() != 2 {
        return json!({"error": "bad line"}).to_string();
    }
    let curve = match t[0] {
        "Bn254" => Curve::Bn254,
        "Bls12_381" => Curve::Bls12_381,
        "Goldilocks" => Curve::Goldilocks,
        _ => return json!({"error": "bad curve"}).to_string(),
    };
    let path = match unhex(t[1]) {
        Some(p) => p,
        None => return json!({"error": "bad path"}).to_string(),
    };
    let text = match std::fs::read_to_string(&path) {
        Ok(x) => x,
        Err(_) => return json!({"error": "unreadable file"}).to_string(),
    };
    let mut starts = vec![0usize];
    for (i, b) in text.bytes().enumerate() {
        if b == b'\n' {
            starts.push(i + 1);
        }
    }
    let res = verif_harness::guarded(|| {
        let (mut runner, reports) = AnalysisRunner::new(curve).with_files(&[PathBuf::from(&path)]);
        let mut defs = Vec::new();
        let mut bad = Vec::new();
        let mut pairs = 0usize;
        let mut keys: Vec<(Expression, usize, String)> = Vec::new();
        let mut tn = runner.template_names(true);
        tn.sort();
        for name in tn {
            match verif_harness::guarded(|| runner.template(&name).ok().map(|c| dump_cfg(c, &starts, &mut keys))) {
                Some(Some(d)) => defs.push(d),
                Some(None) => defs.push(json!({"name": name, "error": "no cfg"})),
                None => defs.push(json!({"name": name, "error": "panic"})),
            }
        }
        let mut fnames = runner.function_names(true);
        fnames.sort();
        for name in fnames {
            match verif_harness::guarded(|| runner.function(&name).ok().map(|c| dump_cfg(c, &starts, &mut keys))) {
                Some(Some(d)) => defs.push(d),
                Some(None) => defs.push(json!({"name": name, "error": "no cfg"})),
                None => defs.push(json!({"name": name, "error": "panic"})),
            }
        }
        // identical keys add nothing after the first few: keep at most 3 occurrences of one identity, then cap
        let total_keys = keys.len();
        let mut seen: std::collections::HashMap<String, usize> = std::collections::HashMap::new();
        keys.retain(|(e, _, _)| {
            let n = seen.entry(ident(e)).or_insert(0);
            *n += 1;
            *n <= 3
        });
        let distinct = seen.len();
        let cap = 1400;
        let dropped = keys.len().saturating_sub(cap);
        keys.truncate(cap);
        eq_check(&keys, &mut bad, &mut pairs);
        json!({"curve": t[0], "defs": defs, "parse_reports": reports.len(), "eq_pairs": pairs, "eq_bad": bad,
               "eq_keys": total_keys, "eq_distinct_keys": distinct, "eq_keys_dropped_by_cap": dropped})
    });
    match res {
        Some(v) => v.to_string(),
        None => json!({"error": "panic"}).to_string(),
    }
}

fn main() {
    verif_harness::silence_panics();
    let args: Vec<String> = std::env::args().collect();
    match args.get(1).map(|s| &s[..]) {
        Some("primes") => {
            for c in [Curve::Bn254, Curve::Bls12_381, Curve::Goldilocks] {
                let line = verif_harness::guarded(|| {
                    let k = UsefulConstants::new(&c);
                    // the curve stored in the constants must be the one asked for
                    format!("{} {} {} {}", variant(&c), variant(k.curve()), k.prime(), k.prime_size())
                })
                .unwrap_or_else(|| format!("{} panic", variant(&c)));
                println!("{}", line);
            }
        }
        Some("parse") => verif_harness::each_line(parse_line),
        Some("upper") => verif_harness::each_line(|line| match unhex(line) {
            None => format!("{} = bad-line", line),
            Some(s) => {
                let u = s.to_uppercase();
                format!("{} = {}", line, if u.is_empty() { "-".to_string() } else { u.bytes().map(|b| format!("{:02x}", b)).collect::<String>() })
            }
        }),
        Some("upper-table") => {
            for cp in 128u32..=0x10FFFF {
                if let Some(c) = char::from_u32(cp) {
                    let u: String = c.to_uppercase().collect();
                    if u.is_ascii() {
                        println!("{} {}", cp, u);
                    }
                }
            }
        }
        Some("ir") => verif_harness::each_line(ir_line),
        _ => {
            eprintln!("usage: curves primes | curves parse | curves upper | curves upper-table | curves ir");
            std::process::exit(2);
        }
    }
}
