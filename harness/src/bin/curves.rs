// Engine `curves` (property C11): executes the curve-related functions of
// /repo's current tree.
//
//   curves primes        one line per curve: `<Variant> <prime, decimal> <prime_size>`
//                        obtained by executing UsefulConstants::new(&curve)
//   curves parse         stdin: one spelling per line, hex-encoded UTF-8 bytes
//                        (empty spelling = `-`); prints `<hex> = <Variant>|reject|panic`
//                        obtained by executing <Curve as FromStr>::from_str
use program_structure::constants::{Curve, UsefulConstants};
use std::str::FromStr;

fn variant(c: &Curve) -> &'static str {
    match c {
        Curve::Bn254 => "Bn254",
        Curve::Bls12_381 => "Bls12_381",
        Curve::Goldilocks => "Goldilocks",
    }
}

fn unhex(s: &str) -> Option<String> {
    if s == "-" {
        return Some(String::new());
    }
    if s.len() % 2 != 0 {
        return None;
    }
    let mut bytes = Vec::new();
    for i in (0..s.len()).step_by(2) {
        bytes.push(u8::from_str_radix(s.get(i..i + 2)?, 16).ok()?);
    }
    String::from_utf8(bytes).ok()
}

fn parse_line(line: &str) -> String {
    let res = match unhex(line) {
        None => "bad-line".to_string(),
        Some(s) => match verif_harness::guarded(|| Curve::from_str(&s)) {
            None => "panic".to_string(),
            Some(Ok(c)) => variant(&c).to_string(),
            Some(Err(_)) => "reject".to_string(),
        },
    };
    format!("{} = {}", line, res)
}

fn main() {
    verif_harness::silence_panics();
    let args: Vec<String> = std::env::args().collect();
    match args.get(1).map(|s| &s[..]) {
        Some("primes") => {
            for c in [Curve::Bn254, Curve::Bls12_381, Curve::Goldilocks] {
                let line = verif_harness::guarded(|| {
                    let k = UsefulConstants::new(&c);
                    // the curve stored in the constants must be the one asked for
                    format!("{} {} {} {}", variant(&c), variant(k.curve()), k.prime(), k.prime_size())
                })
                .unwrap_or_else(|| format!("{} panic", variant(&c)));
                println!("{}", line);
            }
        }
        Some("parse") => verif_harness::each_line(parse_line),
        _ => {
            eprintln!("usage: curves primes | curves parse");
            std::process::exit(2);
        }
    }
}
