// Engine `uniq` (C10): runs the real parser, the real renaming pass
// `ensure_unique_variables` (reached through the verification hook), the real
// CFG lifting and the real SSA construction on one Circom definition per line
// and prints, in the canonical token format shared with coq/extract/uniq.ml
// and lib/props/C10.py:
//
//   proj P..            the named projection of the parsed AST (before renaming)
//   ren  d=x.0 u=x ..   every variable occurrence after renaming, in visit order
//                       (d declaration, t substitution target, u other use)
//   rep  CODE:s-e:s-e:NAMES the reports pushed by the pass (primary, secondary range, the
//                       backquoted words of the message)
//        | perr CODE:s-e:-:NAME  the error returned by the parameter pre-pass
//   ir   d=x/0 u=x/- .. (name, suffix) of every IR variable occurrence after lifting
//   tab  x/0@s-e:L ..   the `Declarations` table of the CFG (sorted): key, location, type
//                       (L local, S signal, C component, A anonymous component)
//   dcl  d@s-e:L u- ..  per IR occurrence (same order as `ir`): what `Cfg::get_declaration`
//                       answers for it (location and type of the declaration, `-`: none)
//   ssa  [params] w=x/-/1 r=x/0/2 p=.. a=.. every occurrence after `into_ssa`, with versions
//   tab2 x/0/1@s-e:L .. the `Declarations` table AFTER `into_ssa` (update_declarations: locals
//                       re-keyed with their versions), sorted
//   dcl2 r@s-e:S r- ..  what `Cfg::get_declaration` answers after `into_ssa` for every w=/r=
//                       occurrence of `ssa` (same order; d p a b tokens left out)
//
// Projection (prefix tokens, explicit counts):
//   def  := P nparams name* start end stmt
//   stmt := B n stmt*n | D kind name start end n use*n | S name n use*n
//         | M n use*n | L n use*n | R n use*n | C n use*n | A n use*n
//         | I n stmt*n | W n use*n stmt | F n use*n stmt (stmt | -)
// Input: one case per line, the source text hex-encoded.
use program_structure::ast::{
    Access, Definition, Expression, FillMeta, LogArgument, Statement, VariableType,
};
use program_structure::cfg::verif::ensure_unique_variables;
use program_structure::cfg::parameters::Parameters;
use program_structure::cfg::{Cfg, IntoCfg};
use program_structure::constants::Curve;
use program_structure::ir;
use program_structure::report::{Report, ReportCollection};
use verif_harness::{each_line, guarded, silence_panics};

fn unhex(s: &str) -> Option<String> {
    if s.len() % 2 != 0 {
        return None;
    }
    let mut bytes = Vec::with_capacity(s.len() / 2);
    for i in (0..s.len()).step_by(2) {
        bytes.push(u8::from_str_radix(s.get(i..i + 2)?, 16).ok()?);
    }
    String::from_utf8(bytes).ok()
}

// ---- AST walks (visit order of unique_vars.rs) ----

fn uses(e: &Expression, out: &mut Vec<String>) {
    use Expression::*;
    match e {
        Variable { name, access, .. } => {
            out.push(name.clone());
            for a in access {
                if let Access::ArrayAccess(i) = a {
                    uses(i, out);
                }
            }
        }
        InfixOp { lhe, rhe, .. } => {
            uses(lhe, out);
            uses(rhe, out);
        }
        PrefixOp { rhe, .. } | ParallelOp { rhe, .. } => uses(rhe, out),
        InlineSwitchOp { cond, if_true, if_false, .. } => {
            uses(cond, out);
            uses(if_true, out);
            uses(if_false, out);
        }
        Number(..) => {}
        Call { args, .. } => args.iter().for_each(|a| uses(a, out)),
        Tuple { values, .. } | ArrayInLine { values, .. } => values.iter().for_each(|a| uses(a, out)),
        AnonymousComponent { params, signals, names, .. } => {
            params.iter().for_each(|a| uses(a, out));
            signals.iter().for_each(|a| uses(a, out));
            if let Some(names) = names {
                for (_, n) in names {
                    out.push(n.clone());
                }
            }
        }
    }
}

fn uses_of(es: &[&Expression]) -> Vec<String> {
    let mut v = Vec::new();
    for e in es {
        uses(e, &mut v);
    }
    v
}

fn access_uses(access: &[Access], out: &mut Vec<String>) {
    for a in access {
        if let Access::ArrayAccess(i) = a {
            uses(i, out);
        }
    }
}

fn counted(tag: &str, v: &[String]) -> String {
    let mut s = format!("{} {}", tag, v.len());
    for u in v {
        s.push(' ');
        s.push_str(u);
    }
    s
}

fn kind(t: &VariableType) -> &'static str {
    match t {
        VariableType::Var => "v",
        VariableType::Signal(..) => "s",
        VariableType::Component => "c",
        VariableType::AnonymousComponent => "a",
    }
}

fn proj(s: &Statement, out: &mut Vec<String>) {
    use Statement::*;
    match s {
        Block { stmts, .. } => {
            out.push(format!("B {}", stmts.len()));
            stmts.iter().for_each(|s| proj(s, out));
        }
        InitializationBlock { initializations, .. } => {
            out.push(format!("I {}", initializations.len()));
            initializations.iter().for_each(|s| proj(s, out));
        }
        Declaration { meta, xtype, name, dimensions, .. } => {
            let d: Vec<&Expression> = dimensions.iter().collect();
            let loc = meta.file_location();
            out.push(format!("D {} {} {} {} {}", kind(xtype), name, loc.start, loc.end, counted("", &uses_of(&d)).trim_start()));
        }
        Substitution { var, access, rhe, .. } => {
            let mut v = Vec::new();
            access_uses(access, &mut v);
            uses(rhe, &mut v);
            out.push(format!("S {} {}", var, counted("", &v).trim_start()));
        }
        MultiSubstitution { lhe, rhe, .. } => out.push(counted("M", &uses_of(&[lhe, rhe]))),
        LogCall { args, .. } => {
            let mut v = Vec::new();
            for a in args {
                if let LogArgument::LogExp(e) = a {
                    uses(e, &mut v);
                }
            }
            out.push(counted("L", &v));
        }
        Return { value, .. } => out.push(counted("R", &uses_of(&[value]))),
        ConstraintEquality { lhe, rhe, .. } => out.push(counted("C", &uses_of(&[lhe, rhe]))),
        Assert { arg, .. } => out.push(counted("A", &uses_of(&[arg]))),
        While { cond, stmt, .. } => {
            out.push(counted("W", &uses_of(&[cond])));
            proj(stmt, out);
        }
        IfThenElse { cond, if_case, else_case, .. } => {
            out.push(counted("F", &uses_of(&[cond])));
            proj(if_case, out);
            match else_case {
                Some(e) => proj(e, out),
                None => out.push("-".to_string()),
            }
        }
    }
}

/// Every variable occurrence of the (renamed) AST in visit order.
fn occurrences(s: &Statement, out: &mut Vec<String>) {
    use Statement::*;
    let push_uses = |v: Vec<String>, out: &mut Vec<String>| v.into_iter().for_each(|u| out.push(format!("u={u}")));
    match s {
        Block { stmts, .. } => stmts.iter().for_each(|s| occurrences(s, out)),
        InitializationBlock { initializations, .. } => initializations.iter().for_each(|s| occurrences(s, out)),
        Declaration { name, dimensions, .. } => {
            let d: Vec<&Expression> = dimensions.iter().collect();
            push_uses(uses_of(&d), out);
            out.push(format!("d={name}"));
        }
        Substitution { var, access, rhe, .. } => {
            out.push(format!("t={var}"));
            let mut v = Vec::new();
            access_uses(access, &mut v);
            uses(rhe, &mut v);
            push_uses(v, out);
        }
        MultiSubstitution { lhe, rhe, .. } => push_uses(uses_of(&[lhe, rhe]), out),
        LogCall { args, .. } => {
            let mut v = Vec::new();
            for a in args {
                if let LogArgument::LogExp(e) = a {
                    uses(e, &mut v);
                }
            }
            push_uses(v, out);
        }
        Return { value, .. } => push_uses(uses_of(&[value]), out),
        ConstraintEquality { lhe, rhe, .. } => push_uses(uses_of(&[lhe, rhe]), out),
        Assert { arg, .. } => push_uses(uses_of(&[arg]), out),
        While { cond, stmt, .. } => {
            push_uses(uses_of(&[cond]), out);
            occurrences(stmt, out);
        }
        IfThenElse { cond, if_case, else_case, .. } => {
            push_uses(uses_of(&[cond]), out);
            occurrences(if_case, out);
            if let Some(e) = else_case {
                occurrences(e, out);
            }
        }
    }
}

// ---- reports ----

/// The names quoted (between backquotes) in a text, in order.
fn quoted(text: &str, out: &mut Vec<String>) {
    let parts: Vec<&str> = text.split('`').collect();
    let mut i = 1;
    while i + 1 < parts.len() {
        out.push(parts[i].to_string());
        i += 2;
    }
}

/// CODE:primary ranges:secondary ranges:NAMES -- NAMES are the backquoted words
/// of the MESSAGE (`,`-joined, duplicates removed, `?` if nothing is quoted).
/// The notes are not read: rewording a hint must not look like a scoping
/// failure. lib/props/C10.py accepts a report iff the expected name is one of
/// NAMES (and canonicalises the field to that name before diffing).
fn show_report(r: &Report) -> String {
    let lab = |l: &Vec<program_structure::report::ReportLabel>| {
        l.iter().map(|l| format!("{}-{}", l.range.start, l.range.end)).collect::<Vec<_>>().join("+")
    };
    let (p, s) = (lab(r.primary()), lab(r.secondary()));
    let mut all = Vec::new();
    quoted(r.message(), &mut all);
    let mut names: Vec<String> = Vec::new();
    for n in all {
        let n = n.replace(' ', "%20").replace(',', "%2C").replace(':', "%3A").replace('|', "%7C");
        if !names.contains(&n) {
            names.push(n);
        }
    }
    let name = if names.is_empty() { "?".to_string() } else { names.join(",") };
    format!(
        "{}:{}:{}:{}",
        r.id(),
        if p.is_empty() { "-".to_string() } else { p },
        if s.is_empty() { "-".to_string() } else { s },
        name
    )
}

// ---- IR walks ----

fn vn(v: &ir::VariableName, versions: bool) -> String {
    let s = v.suffix().as_ref().map(|s| s.to_string()).unwrap_or("-".to_string());
    if versions {
        format!("{}/{}/{}", v.name(), s, v.version().map(|x| x.to_string()).unwrap_or("-".to_string()))
    } else {
        format!("{}/{}", v.name(), s)
    }
}

fn type_letter(t: &ir::VariableType) -> &'static str {
    match t {
        ir::VariableType::Local => "L",
        ir::VariableType::Signal(..) => "S",
        ir::VariableType::Component => "C",
        ir::VariableType::AnonymousComponent => "A",
    }
}

/// How an occurrence is printed: `tag=name/suffix[/version]`, or (Lookup) the tag
/// followed by what `Cfg::get_declaration` answers for the name.
enum Show<'a> {
    Name { versions: bool },
    Lookup(&'a Cfg, bool),
}

impl Show<'_> {
    fn ver(&self) -> bool {
        matches!(self, Show::Name { versions: true } | Show::Lookup(_, true))
    }
    fn occ(&self, tag: &str, v: &ir::VariableName) -> String {
        match self {
            Show::Name { versions } => format!("{tag}={}", vn(v, *versions)),
            Show::Lookup(cfg, _) => match cfg.get_declaration(v) {
                None => format!("{tag}-"),
                Some(d) => {
                    let l = d.file_location();
                    format!("{tag}@{}-{}:{}", l.start, l.end, type_letter(d.variable_type()))
                }
            },
        }
    }
}

fn ir_access(access: &[ir::AccessType], sh: &Show, out: &mut Vec<String>) {
    for a in access {
        if let ir::AccessType::ArrayAccess(i) = a {
            ir_uses(i, sh, out);
        }
    }
}

fn ir_uses(e: &ir::Expression, sh: &Show, out: &mut Vec<String>) {
    use ir::Expression::*;
    let tag = if sh.ver() { "r" } else { "u" };
    match e {
        Variable { name, .. } => out.push(sh.occ(tag, name)),
        Access { var, access, .. } => {
            out.push(sh.occ(tag, var));
            ir_access(access, sh, out);
        }
        Update { var, access, rhe, .. } => {
            // only reached for an Update that is not the right-hand side of a substitution
            out.push(sh.occ(tag, var));
            ir_access(access, sh, out);
            ir_uses(rhe, sh, out);
        }
        InfixOp { lhe, rhe, .. } => {
            ir_uses(lhe, sh, out);
            ir_uses(rhe, sh, out);
        }
        PrefixOp { rhe, .. } => ir_uses(rhe, sh, out),
        SwitchOp { cond, if_true, if_false, .. } => {
            ir_uses(cond, sh, out);
            ir_uses(if_true, sh, out);
            ir_uses(if_false, sh, out);
        }
        Number(..) => {}
        Call { args, .. } => args.iter().for_each(|a| ir_uses(a, sh, out)),
        InlineArray { values, .. } => values.iter().for_each(|a| ir_uses(a, sh, out)),
        Phi { args, .. } => args.iter().for_each(|a| out.push(sh.occ(tag, a))),
    }
}

/// Every IR variable occurrence, blocks in index order, in the visit order of
/// the AST walk above (dimension uses before the declared name; substitution
/// target, then access indices, then right-hand side). In SSA mode (`ver`) the
/// array being updated names the previous version (`b=`; version 0 of an array
/// that is filled element by element is never written), targets are
/// `w=`, phi targets `p=` followed by their arguments `a=` (a phi argument may
/// name a version that is never written: the variable is not live there).
fn ir_occurrences(cfg: &Cfg, sh: &Show) -> Vec<String> {
    use ir::Statement::*;
    let ver = sh.ver();
    let mut out = Vec::new();
    for b in cfg.iter() {
        for s in b.iter() {
            match s {
                Declaration { names, dimensions, .. } => {
                    dimensions.iter().for_each(|d| ir_uses(d, sh, &mut out));
                    for n in names.iter() {
                        out.push(sh.occ("d", n));
                    }
                }
                IfThenElse { cond, .. } => ir_uses(cond, sh, &mut out),
                Return { value, .. } => ir_uses(value, sh, &mut out),
                Substitution { var, rhe, .. } => match rhe {
                    ir::Expression::Update { var: uvar, access, rhe, .. } => {
                        if ver {
                            out.push(sh.occ("w", var));
                            out.push(sh.occ("b", uvar));
                        } else {
                            out.push(sh.occ("t", var));
                            if vn(var, false) != vn(uvar, false) {
                                out.push(sh.occ("MISMATCH", uvar));
                            }
                        }
                        ir_access(access, sh, &mut out);
                        ir_uses(rhe, sh, &mut out);
                    }
                    ir::Expression::Phi { args, .. } => {
                        out.push(sh.occ("p", var));
                        args.iter().for_each(|a| out.push(sh.occ("a", a)));
                    }
                    _ => {
                        out.push(sh.occ(if ver { "w" } else { "t" }, var));
                        ir_uses(rhe, sh, &mut out);
                    }
                },
                ConstraintEquality { lhe, rhe, .. } => {
                    ir_uses(lhe, sh, &mut out);
                    ir_uses(rhe, sh, &mut out);
                }
                LogCall { args, .. } => {
                    for a in args {
                        if let ir::LogArgument::Expr(e) = a {
                            ir_uses(e, sh, &mut out);
                        }
                    }
                }
                Assert { arg, .. } => ir_uses(arg, sh, &mut out),
            }
        }
    }
    out
}

/// The `Declarations` table of the CFG: one `key@location:type` per entry, sorted.
fn table(cfg: &Cfg, versions: bool) -> Vec<String> {
    let mut rows: Vec<String> = cfg
        .declarations()
        .iter()
        .map(|(k, d)| {
            let l = d.file_location();
            let same = if vn(k, true) == vn(d.variable_name(), true) { "" } else { "!key" };
            format!("{}@{}-{}:{}{}", vn(k, versions), l.start, l.end, type_letter(d.variable_type()), same)
        })
        .collect();
    rows.sort();
    rows
}

// ---- one case ----

fn case(src: &str) -> String {
    let mut def = match guarded(|| parser::parse_definition(src)) {
        None => return "parse panic".to_string(),
        Some(None) => return "noparse".to_string(),
        Some(Some(def)) => def,
    };
    // give every node the file id 0, as TemplateData/FunctionData::new do
    let mut elem = 0usize;
    match &mut def {
        Definition::Function { meta, body, .. } | Definition::Template { meta, body, .. } => {
            meta.set_file_id(0);
            body.fill(0, &mut elem);
        }
    }
    let (args, arg_location, body) = match &def {
        Definition::Function { args, arg_location, body, .. } | Definition::Template { args, arg_location, body, .. } => {
            (args.clone(), arg_location.clone(), body.clone())
        }
    };
    let mut sections = Vec::new();
    // projection
    let mut p = vec![format!("P {}", args.len())];
    p.extend(args.iter().cloned());
    p.push(format!("{} {}", arg_location.start, arg_location.end));
    proj(&body, &mut p);
    sections.push(format!("proj {}", p.join(" ")));
    // the renaming pass alone
    let params: Parameters = (&def).into();
    let mut renamed = body.clone();
    let pass = guarded(|| {
        let mut reports = ReportCollection::new();
        let r = ensure_unique_variables(&mut renamed, &params, &mut reports);
        (r.map_err(|e| show_report(&e.into_report())), reports)
    });
    match pass {
        None => sections.push("ren panic".to_string()),
        Some((Err(e), _)) => sections.push(format!("perr {e}")),
        Some((Ok(()), reports)) => {
            let mut occ = Vec::new();
            occurrences(&renamed, &mut occ);
            sections.push(format!("ren {}", occ.join(" ")));
            sections.push(format!("rep {}", reports.iter().map(show_report).collect::<Vec<_>>().join(" ")));
        }
    }
    // the whole lifting, then SSA
    let lifted = guarded(move || {
        let mut reports = ReportCollection::new();
        let r = def.into_cfg(&Curve::default(), &mut reports);
        (r.map_err(|e| show_report(&e.into_report())), reports)
    });
    match lifted {
        None => sections.push("ir panic".to_string()),
        Some((Err(e), _)) => sections.push(format!("ir error {e}")),
        Some((Ok(cfg), reports)) => {
            sections.push(format!("ir {}", ir_occurrences(&cfg, &Show::Name { versions: false }).join(" ")));
            sections.push(format!("tab {}", table(&cfg, false).join(" ")));
            sections.push(format!("dcl {}", ir_occurrences(&cfg, &Show::Lookup(&cfg, false)).join(" ")));
            sections.push(format!("rep2 {}", reports.iter().map(show_report).collect::<Vec<_>>().join(" ")));
            let params: Vec<String> = cfg.parameters().iter().map(|p| vn(p, false)).collect();
            let after = guarded(move || {
                cfg.into_ssa()
                    .map(|c| {
                        let occ = ir_occurrences(&c, &Show::Name { versions: true });
                        // the lookups of the same walk, writes and reads only
                        let all = ir_occurrences(&c, &Show::Lookup(&c, true));
                        let dcl2: Vec<String> = occ
                            .iter()
                            .zip(all.iter())
                            .filter(|(o, _)| o.starts_with("w=") || o.starts_with("r="))
                            .map(|(_, l)| l.clone())
                            .collect();
                        (occ, table(&c, true), dcl2)
                    })
                    .map_err(|e| show_report(&e.into_report()))
            });
            match after {
                None => sections.push("ssa panic".to_string()),
                Some(Err(e)) => sections.push(format!("ssa error {e}")),
                Some(Ok((occ, tab2, dcl2))) => {
                    sections.push(format!("ssa [{}] {}", params.join(","), occ.join(" ")));
                    sections.push(format!("tab2 {}", tab2.join(" ")));
                    sections.push(format!("dcl2 {}", dcl2.join(" ")));
                }
            }
        }
    }
    sections.join(" | ")
}

fn main() {
    silence_panics();
    each_line(|line| match unhex(line) {
        Some(src) => case(&src),
        None => "bad-line".to_string(),
    });
}
