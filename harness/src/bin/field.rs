// Engine `field`.
//   (default)  `<op> <a> <b> <p>` (hex, an operand may carry a `-` sign): one public function of
//              circom_algebra::modular_arithmetic.  EVERY case runs in a worker thread under a watchdog; a case
//              that does not answer is printed as `timeout` and the process ends (the check restarts it on the
//              remaining lines, so that a stuck worker cannot be blamed on a later case).  Every output line is
//              flushed: when the process dies (stack overflow of an unbounded recursion, allocation failure)
//              the check knows from the lines it received which case killed it.
//   work       same input; prints `<result> maxalloc <bytes>`: the largest single allocation requested while the
//              function ran (counting global allocator) - the observable for "no astronomically large
//              intermediate value".
//   sweep P..  every operation on every operand pair of the small fields P (flushed per operand row).
//   curves     stdin: candidate names, hex-encoded; prints `<hex> = <Display name> <prime hex> <prime_size>` for
//              each name Curve::from_str accepts (the prime by EXECUTING UsefulConstants::new), `reject` otherwise;
//              first line: the default curve.
//   dispatch   `<curve> <hex of Circom expression text>`: the expression is wrapped into
//              `function f() { return <expr>; }`, parsed, lowered (`into_cfg`), converted to SSA - which runs
//              the REAL value propagation (Cfg::propagate_values -> Expression::propagate_values ->
//              ExpressionInfixOpcode/ExpressionPrefixOpcode::propagate_values of expression_impl.rs) - and the
//              returned expression is printed with the constant attached to every node:
//              E := (num HEX V) | (infix OP E E V) | (prefix OP E V) | (other V),  V := - | (b 0|1) | (f HEX)
//              where OP is the opcode the parser produced for the surface token.
use circom_algebra::modular_arithmetic as ma;
use num_bigint_dig::BigInt;
use num_traits::Num;
use parser::parse_definition;
use program_structure::ast::{Definition, FillMeta};
use program_structure::cfg::IntoCfg;
use program_structure::constants::{Curve, UsefulConstants};
use program_structure::ir::value_meta::ValueMeta;
use program_structure::ir::{Expression, Statement};
use program_structure::report::ReportCollection;
use std::str::FromStr;
use verif_harness::irdump;
use std::io::Write;
use std::panic::{catch_unwind, AssertUnwindSafe};
use std::alloc::{GlobalAlloc, Layout, System};
use std::io::BufRead;
use std::sync::atomic::{AtomicUsize, Ordering};
use std::sync::mpsc;
use std::time::Duration;

/// Counting allocator: the largest single request since the last reset.
struct Counting;
static MAX_ALLOC: AtomicUsize = AtomicUsize::new(0);
unsafe impl GlobalAlloc for Counting {
    unsafe fn alloc(&self, l: Layout) -> *mut u8 {
        MAX_ALLOC.fetch_max(l.size(), Ordering::Relaxed);
        System.alloc(l)
    }
    unsafe fn dealloc(&self, p: *mut u8, l: Layout) {
        System.dealloc(p, l)
    }
    unsafe fn realloc(&self, p: *mut u8, l: Layout, new_size: usize) -> *mut u8 {
        MAX_ALLOC.fetch_max(new_size, Ordering::Relaxed);
        System.realloc(p, l, new_size)
    }
}
#[global_allocator]
static GLOBAL: Counting = Counting;

pub const OPS: [&str; 24] = [
    "add", "mul", "sub", "div", "idiv", "mod", "pow", "neg", "compl", "shl", "shr", "bor", "band",
    "bxor", "asbool", "not", "or", "and", "eq", "lt", "neq", "le", "gt", "ge",
];

fn hex(s: &str) -> BigInt {
    match s.strip_prefix('-') {
        Some(m) => -BigInt::from_str_radix(m, 16).unwrap(),
        None => BigInt::from_str_radix(s, 16).unwrap(),
    }
}

/// What a function answered, before any text is made of it (so that the allocation counter sees the function only).
pub enum Out {
    V(BigInt),
    E(&'static str),
}

fn res(r: Result<BigInt, ma::ArithmeticError>) -> Out {
    match r {
        Ok(v) => Out::V(v),
        Err(ma::ArithmeticError::DivisionByZero) => Out::E("err div0"),
        Err(ma::ArithmeticError::BitOverFlowInShift) => Out::E("err shift"),
    }
}

pub fn compute(op: &str, a: &BigInt, b: &BigInt, p: &BigInt) -> Out {
    use Out::V;
    match op {
        "add" => V(ma::add(a, b, p)),
        "mul" => V(ma::mul(a, b, p)),
        "sub" => V(ma::sub(a, b, p)),
        "div" => res(ma::div(a, b, p)),
        "idiv" => res(ma::idiv(a, b, p)),
        "mod" => res(ma::mod_op(a, b, p)),
        "pow" => V(ma::pow(a, b, p)),
        "neg" => V(ma::prefix_sub(a, p)),
        "compl" => V(ma::complement_256(a, p)),
        "shl" => res(ma::shift_l(a, b, p)),
        "shr" => res(ma::shift_r(a, b, p)),
        "bor" => V(ma::bit_or(a, b, p)),
        "band" => V(ma::bit_and(a, b, p)),
        "bxor" => V(ma::bit_xor(a, b, p)),
        "asbool" => Out::E(if ma::as_bool(a, p) { "ok 1" } else { "ok 0" }),
        "not" => V(ma::not(a, p)),
        "or" => V(ma::bool_or(a, b, p)),
        "and" => V(ma::bool_and(a, b, p)),
        "eq" => V(ma::eq(a, b, p)),
        "lt" => V(ma::lesser(a, b, p)),
        "neq" => V(ma::not_eq(a, b, p)),
        "le" => V(ma::lesser_eq(a, b, p)),
        "gt" => V(ma::greater(a, b, p)),
        "ge" => V(ma::greater_eq(a, b, p)),
        _ => Out::E("unknown-op"),
    }
}

/// The answer as text, and the largest single allocation requested WHILE THE FUNCTION RAN (the counter is read
/// before the answer is turned into text).
pub fn guarded_op_work(op: &str, a: &BigInt, b: &BigInt, p: &BigInt) -> (String, usize) {
    MAX_ALLOC.store(0, Ordering::Relaxed);
    let r = catch_unwind(AssertUnwindSafe(|| compute(op, a, b, p)));
    let m = MAX_ALLOC.load(Ordering::Relaxed);
    let s = match r {
        Ok(Out::V(v)) => format!("ok {}", v.to_str_radix(16)),
        Ok(Out::E(e)) => e.to_string(),
        Err(_) => "panic".to_string(),
    };
    (s, m)
}

pub fn guarded_op(op: &str, a: &BigInt, b: &BigInt, p: &BigInt) -> String {
    guarded_op_work(op, a, b, p).0
}

/// Watchdog limit in seconds: `default`, or VERIF_FIELD_WATCHDOG_SECS (the check re-runs a case that timed out
/// alone and with a long limit, so that a stall of the loaded machine is not taken for an unbounded computation).
fn watchdog_secs(default: u64) -> u64 {
    std::env::var("VERIF_FIELD_WATCHDOG_SECS").ok().and_then(|s| s.parse().ok()).unwrap_or(default)
}

pub fn run_line(line: &str, work: bool) -> String {
    let t: Vec<&str> = line.split_whitespace().collect();
    if t.len() != 4 {
        return "bad-line".to_string();
    }
    let (a, b, p) = (hex(t[1]), hex(t[2]), hex(t[3]));
    let (r, m) = guarded_op_work(t[0], &a, &b, &p);
    if work {
        format!("{} {} {} {} = {} maxalloc {}", t[0], t[1], t[2], t[3], r, m)
    } else {
        format!("{} {} {} {} = {}", t[0], t[1], t[2], t[3], r)
    }
}

/// Feeds every stdin line to `f` in a worker thread; a line not answered within `secs` is printed as
/// `<line> = timeout` and the process exits (status 0: the caller sees fewer lines than it sent and restarts
/// on the rest).  Every line is flushed.
fn each_line_watched(secs: u64, f: fn(&str) -> String) {
    let (tx_in, rx_in) = mpsc::channel::<String>();
    let (tx_out, rx_out) = mpsc::channel::<String>();
    // the stack size of a main thread (8 MiB): what the tool itself would have
    std::thread::Builder::new()
        .stack_size(8 << 20)
        .spawn(move || {
            for line in rx_in {
                let _ = tx_out.send(f(&line));
            }
        })
        .unwrap();
    let stdin = std::io::stdin();
    let stdout = std::io::stdout();
    let mut out = stdout.lock();
    for line in stdin.lock().lines() {
        let line = line.unwrap();
        let line = line.trim().to_string();
        if line.is_empty() {
            continue;
        }
        tx_in.send(line.clone()).unwrap();
        match rx_out.recv_timeout(Duration::from_secs(secs)) {
            Ok(s) => {
                writeln!(out, "{}", s).unwrap();
                out.flush().unwrap();
            }
            Err(_) => {
                writeln!(out, "{} = timeout", line).unwrap();
                out.flush().unwrap();
                std::process::exit(0);
            }
        }
    }
}

/// All operations on all operand pairs of the field of size p (small p).
pub fn sweep<W: Write>(p: u64, out: &mut W) {
    let pb = BigInt::from(p);
    for op in OPS.iter() {
        for a in 0..p {
            for b in 0..p {
                let r = guarded_op(op, &BigInt::from(a), &BigInt::from(b), &pb);
                writeln!(out, "{} {:x} {:x} {:x} = {}", op, a, b, p, r).unwrap();
            }
            out.flush().unwrap();
        }
    }
}

/// The returned expression with the constant the implementation attached to every node.
fn dump(e: &Expression) -> String {
    let v = irdump::val(e.value());
    match e {
        Expression::Number(_, n) => format!("(num {} {})", irdump::big(n), v),
        Expression::InfixOp { lhe, infix_op, rhe, .. } => {
            format!("(infix {} {} {} {})", irdump::infix(infix_op), dump(lhe), dump(rhe), v)
        }
        Expression::PrefixOp { prefix_op, rhe, .. } => {
            format!("(prefix {} {} {})", irdump::prefix(prefix_op), dump(rhe), v)
        }
        _ => format!("(other {})", v),
    }
}

fn dispatch_inner(curve: &Curve, expr_src: &str) -> String {
    let src = format!("function f() {{ return {}; }}", expr_src);
    let mut def = match verif_harness::guarded(|| parse_definition(&src)) {
        None => return "panic parse".to_string(),
        Some(None) => return "parseerr".to_string(),
        Some(Some(d)) => d,
    };
    match &mut def {
        Definition::Template { meta, body, .. } | Definition::Function { meta, body, .. } => {
            meta.set_file_id(0);
            let mut id = 0;
            body.fill(0, &mut id);
        }
    }
    let mut reports = ReportCollection::new();
    let cfg = match verif_harness::guarded(|| def.into_cfg(curve, &mut reports)) {
        None => return "panic cfg".to_string(),
        Some(Err(_)) => return "cfgerr".to_string(),
        Some(Ok(c)) => c,
    };
    // value propagation runs inside into_ssa
    let cfg = match verif_harness::guarded(|| cfg.into_ssa()) {
        None => return "panic ssa".to_string(),
        Some(Err(_)) => return "ssaerr".to_string(),
        Some(Ok(c)) => c,
    };
    let mut out = Vec::new();
    for bb in cfg.iter() {
        for stmt in bb.iter() {
            if let Statement::Return { value, .. } = stmt {
                out.push(dump(value));
            }
        }
    }
    if out.len() == 1 {
        out.pop().unwrap()
    } else {
        format!("returns {}", out.len())
    }
}

/// `<curve> <hex expression text>` (runs under the per-case watchdog of each_line_watched).
pub fn dispatch_line(line: &str) -> String {
    let t: Vec<&str> = line.split_whitespace().collect();
    if t.len() != 2 {
        return "bad-line".to_string();
    }
    let curve = match Curve::from_str(t[0]) {
        Ok(c) => c,
        Err(_) => return format!("{} {} = bad-curve", t[0], t[1]),
    };
    let src = irdump::unhex(t[1]);
    let r = dispatch_inner(&curve, &src);
    format!("{} {} = {}", t[0], t[1], r)
}

fn curve_facts(c: &Curve) -> String {
    match verif_harness::guarded(|| {
        let k = UsefulConstants::new(c);
        format!("{} {} {}", c, k.prime().to_str_radix(16), k.prime_size())
    }) {
        Some(s) => s,
        None => "panic".to_string(),
    }
}

/// `<hex of a candidate name>`: what Curve::from_str makes of it, and the prime of that curve by execution.
fn curve_line(line: &str) -> String {
    let name = irdump::unhex(line);
    match verif_harness::guarded(|| Curve::from_str(&name)) {
        None => format!("{} = panic", line),
        Some(Err(_)) => format!("{} = reject", line),
        Some(Ok(c)) => format!("{} = {}", line, curve_facts(&c)),
    }
}

fn run_plain(line: &str) -> String {
    run_line(line, false)
}
fn run_work(line: &str) -> String {
    run_line(line, true)
}

fn main() {
    verif_harness::silence_panics();
    let args: Vec<String> = std::env::args().collect();
    if args.len() >= 2 && args[1] == "sweep" {
        let stdout = std::io::stdout();
        let mut out = std::io::BufWriter::new(stdout.lock());
        for p in &args[2..] {
            sweep(p.parse().unwrap(), &mut out);
        }
        out.flush().unwrap();
    } else if args.len() >= 2 && args[1] == "dispatch" {
        each_line_watched(watchdog_secs(5), dispatch_line);
    } else if args.len() >= 2 && args[1] == "curves" {
        println!("default = {}", curve_facts(&Curve::default()));
        verif_harness::each_line(curve_line);
    } else if args.len() >= 2 && args[1] == "work" {
        each_line_watched(watchdog_secs(2), run_work);
    } else {
        each_line_watched(watchdog_secs(2), run_plain);
    }
}
