use circom_algebra::modular_arithmetic as ma;
use num_bigint_dig::BigInt;
use num_traits::Num;
use std::io::Write;
use std::panic::{catch_unwind, AssertUnwindSafe};
use std::sync::mpsc;
use std::time::Duration;

pub const OPS: [&str; 24] = [
    "add", "mul", "sub", "div", "idiv", "mod", "pow", "neg", "compl", "shl", "shr", "bor", "band",
    "bxor", "asbool", "not", "or", "and", "eq", "lt", "neq", "le", "gt", "ge",
];

fn hex(s: &str) -> BigInt {
    BigInt::from_str_radix(s, 16).unwrap()
}

fn show(v: &BigInt) -> String {
    format!("ok {}", v.to_str_radix(16))
}

fn show_res(r: Result<BigInt, ma::ArithmeticError>) -> String {
    match r {
        Ok(v) => show(&v),
        Err(ma::ArithmeticError::DivisionByZero) => "err div0".to_string(),
        Err(ma::ArithmeticError::BitOverFlowInShift) => "err shift".to_string(),
    }
}

pub fn apply(op: &str, a: &BigInt, b: &BigInt, p: &BigInt) -> String {
    match op {
        "add" => show(&ma::add(a, b, p)),
        "mul" => show(&ma::mul(a, b, p)),
        "sub" => show(&ma::sub(a, b, p)),
        "div" => show_res(ma::div(a, b, p)),
        "idiv" => show_res(ma::idiv(a, b, p)),
        "mod" => show_res(ma::mod_op(a, b, p)),
        "pow" => show(&ma::pow(a, b, p)),
        "neg" => show(&ma::prefix_sub(a, p)),
        "compl" => show(&ma::complement_256(a, p)),
        "shl" => show_res(ma::shift_l(a, b, p)),
        "shr" => show_res(ma::shift_r(a, b, p)),
        "bor" => show(&ma::bit_or(a, b, p)),
        "band" => show(&ma::bit_and(a, b, p)),
        "bxor" => show(&ma::bit_xor(a, b, p)),
        "asbool" => show(&BigInt::from(ma::as_bool(a, p) as u8)),
        "not" => show(&ma::not(a, p)),
        "or" => show(&ma::bool_or(a, b, p)),
        "and" => show(&ma::bool_and(a, b, p)),
        "eq" => show(&ma::eq(a, b, p)),
        "lt" => show(&ma::lesser(a, b, p)),
        "neq" => show(&ma::not_eq(a, b, p)),
        "le" => show(&ma::lesser_eq(a, b, p)),
        "gt" => show(&ma::greater(a, b, p)),
        "ge" => show(&ma::greater_eq(a, b, p)),
        _ => "unknown-op".to_string(),
    }
}

pub fn guarded_op(op: &str, a: &BigInt, b: &BigInt, p: &BigInt) -> String {
    match catch_unwind(AssertUnwindSafe(|| apply(op, a, b, p))) {
        Ok(s) => s,
        Err(_) => "panic".to_string(),
    }
}

/// Run with a 2 s watchdog (only used for shifts with large counts: the
/// thread is leaked on time-out and dies with the process).
fn watched(op: &str, a: &BigInt, b: &BigInt, p: &BigInt) -> String {
    let (tx, rx) = mpsc::channel();
    let (op, a, b, p) = (op.to_string(), a.clone(), b.clone(), p.clone());
    std::thread::spawn(move || {
        let r = guarded_op(&op, &a, &b, &p);
        let _ = tx.send(r);
    });
    match rx.recv_timeout(Duration::from_secs(2)) {
        Ok(s) => s,
        Err(_) => "timeout".to_string(),
    }
}

pub fn run_line(line: &str) -> String {
    let t: Vec<&str> = line.split_whitespace().collect();
    if t.len() != 4 {
        return "bad-line".to_string();
    }
    let (a, b, p) = (hex(t[1]), hex(t[2]), hex(t[3]));
    // shifts by large counts and powers with large exponents run under the watchdog
    let big_count = (t[0] == "shl" || t[0] == "shr" || t[0] == "pow") && b.bits() > 20;
    let r = if big_count { watched(t[0], &a, &b, &p) } else { guarded_op(t[0], &a, &b, &p) };
    format!("{} {} {} {} = {}", t[0], t[1], t[2], t[3], r)
}

/// All operations on all operand pairs of the field of size p (small p).
pub fn sweep<W: Write>(p: u64, out: &mut W) {
    let pb = BigInt::from(p);
    for op in OPS.iter() {
        for a in 0..p {
            for b in 0..p {
                let r = guarded_op(op, &BigInt::from(a), &BigInt::from(b), &pb);
                writeln!(out, "{} {:x} {:x} {:x} = {}", op, a, b, p, r).unwrap();
            }
        }
    }
}

fn main() {
    verif_harness::silence_panics();
    let args: Vec<String> = std::env::args().collect();
    if args.len() >= 2 && args[1] == "sweep" {
        let stdout = std::io::stdout();
        let mut out = std::io::BufWriter::new(stdout.lock());
        for p in &args[2..] {
            sweep(p.parse().unwrap(), &mut out);
        }
        out.flush().unwrap();
    } else {
        verif_harness::each_line(run_line);
    }
}
