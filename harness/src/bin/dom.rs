// Engine `dom` (C15): runs the real generic `DominatorTree::new` of
// program_structure on a harness-defined node type.
//
//   dom                 stdin lines  `n a>b a>b ...`      -> `<line> = <result>`
//   dom sweep n lo hi   all edge sets `code` in lo..hi over n nodes (bit
//                       a*(n-1)+(b-1) of `code` is the edge a->b, b >= 1, so no
//                       edge enters node 0), restricted to those in which every
//                       node is reachable from 0       -> `n code = <result>`
//
// <result> is `dom=..|.. idom=.. ch=..|.. df=..|..` (sets sorted), `panic`, or
// `timeout` (2 s watchdog per graph: a walk over a cyclic idom relation would
// not terminate).
use program_structure::static_single_assignment::dominator_tree::DominatorTree;
use program_structure::static_single_assignment::traits::DirectedGraphNode;
use std::collections::HashSet;
use std::io::Write;
use std::sync::mpsc;
use std::time::Duration;
use verif_harness::{each_line, guarded, silence_panics};

#[derive(Clone)]
struct Node {
    index: usize,
    preds: HashSet<usize>,
    succs: HashSet<usize>,
}

impl DirectedGraphNode for Node {
    fn index(&self) -> usize {
        self.index
    }
    fn predecessors(&self) -> &HashSet<usize> {
        &self.preds
    }
    fn successors(&self) -> &HashSet<usize> {
        &self.succs
    }
}

fn graph(n: usize, edges: &[(usize, usize)]) -> Vec<Node> {
    let mut g: Vec<Node> =
        (0..n).map(|i| Node { index: i, preds: HashSet::new(), succs: HashSet::new() }).collect();
    for &(a, b) in edges {
        g[a].succs.insert(b);
        g[b].preds.insert(a);
    }
    g
}

fn set(s: HashSet<usize>) -> String {
    let mut v: Vec<usize> = s.into_iter().collect();
    v.sort();
    v.iter().map(|x| x.to_string()).collect::<Vec<_>>().join(",")
}

fn run(g: &[Node]) -> String {
    let n = g.len();
    match guarded(|| {
        let t = DominatorTree::new(g);
        let dom: Vec<String> = (0..n).map(|i| set(t.get_dominators(i))).collect();
        let idom: Vec<String> = (0..n)
            .map(|i| match t.get_immediate_dominator(i) {
                Some(j) => j.to_string(),
                None => "-".to_string(),
            })
            .collect();
        let ch: Vec<String> = (0..n).map(|i| set(t.get_dominator_successors(i))).collect();
        let df: Vec<String> = (0..n).map(|i| set(t.get_dominance_frontier(i))).collect();
        format!("dom={} idom={} ch={} df={}", dom.join("|"), idom.join(","), ch.join("|"), df.join("|"))
    }) {
        Some(s) => s,
        None => "panic".to_string(),
    }
}

struct Watch {
    timeouts: usize,
}

impl Watch {
    fn run(&mut self, g: Vec<Node>) -> String {
        if self.timeouts >= 8 {
            return "timeout".to_string(); // do not pile up spinning threads
        }
        let (tx, rx) = mpsc::channel();
        std::thread::spawn(move || {
            let _ = tx.send(run(&g));
        });
        match rx.recv_timeout(Duration::from_secs(2)) {
            Ok(s) => s,
            Err(_) => {
                self.timeouts += 1;
                "timeout".to_string()
            }
        }
    }
}

fn parse(line: &str) -> Option<(usize, Vec<(usize, usize)>)> {
    let mut it = line.split_whitespace();
    let n: usize = it.next()?.parse().ok()?;
    let mut es = Vec::new();
    for t in it {
        let (a, b) = t.split_once('>')?;
        let (a, b): (usize, usize) = (a.parse().ok()?, b.parse().ok()?);
        if a >= n || b >= n {
            return None;
        }
        es.push((a, b));
    }
    Some((n, es))
}

fn all_reachable(n: usize, es: &[(usize, usize)]) -> bool {
    let mut seen = vec![false; n];
    let mut stack = vec![0usize];
    seen[0] = true;
    while let Some(a) = stack.pop() {
        for &(x, y) in es {
            if x == a && !seen[y] {
                seen[y] = true;
                stack.push(y);
            }
        }
    }
    seen.iter().all(|&b| b)
}

fn main() {
    silence_panics();
    let args: Vec<String> = std::env::args().collect();
    let mut w = Watch { timeouts: 0 };
    if args.len() == 5 && args[1] == "sweep" {
        let n: usize = args[2].parse().unwrap();
        let lo: u64 = args[3].parse().unwrap();
        let hi: u64 = args[4].parse().unwrap();
        let stdout = std::io::stdout();
        let mut out = std::io::BufWriter::new(stdout.lock());
        for code in lo..hi {
            let mut es = Vec::new();
            for a in 0..n {
                for b in 1..n {
                    if (code >> (a * (n - 1) + (b - 1))) & 1 == 1 {
                        es.push((a, b));
                    }
                }
            }
            if n == 0 || !all_reachable(n, &es) {
                continue;
            }
            writeln!(out, "{} {} = {}", n, code, w.run(graph(n, &es))).unwrap();
        }
        out.flush().unwrap();
        std::process::exit(0); // leaked watchdog threads die here
    }
    each_line(|line| match parse(line) {
        Some((n, es)) => format!("{} = {}", line, w.run(graph(n, &es))),
        None => format!("{} = bad-line", line),
    });
    std::process::exit(0);
}
