// Engine `dom` (C15): runs the real generic `DominatorTree::new` of
// program_structure on a harness-defined node type.
//
//   dom                 stdin lines  `n a>b a>b ...`      -> `<line> = <result>`
//   dom sweep n lo hi   all edge sets `code` in lo..hi over n nodes (bit
//                       a*(n-1)+(b-1) of `code` is the edge a->b, b >= 1, so no
//                       edge enters node 0), restricted to those in which every
//                       node is reachable from 0       -> `n code = <result>`
//   dom cfg             [third audit] stdin lines = one Circom definition each,
//                       lifted by the real `into_cfg`; the graph is read off the
//                       basic blocks through the `DirectedGraphNode` trait
//                       (the PRODUCTION node type) and the four tables through
//                       the `Cfg::get_*` wrappers
//                                                       -> `n a>b ... = <result>`
//                       or `<reason>` when no graph was built (no parse, lift
//                       error, panic)
//
// <result> is `dom=..|.. idom=.. ch=..|.. df=..|..` (sets sorted), `panic`, or
// `timeout` (watchdog per graph: a walk over a cyclic idom relation would not
// terminate; 2 s up to 40 nodes, 60 s up to 400, 240 s beyond - the quadratic iteration over
// hash sets of a debug build needs more than a second on a 300-node chain).
use parser::parse_definition;
use program_structure::cfg::{BasicBlock, Cfg, IntoCfg};
use program_structure::constants::Curve;
use program_structure::report::ReportCollection;
use program_structure::static_single_assignment::dominator_tree::DominatorTree;
use program_structure::static_single_assignment::traits::{DirectedGraphNode, IndexSet};
use std::io::Write;
use std::sync::mpsc;
use std::time::Duration;
use verif_harness::{each_line, guarded, silence_panics};

#[derive(Clone)]
// [fourth audit] the node type is written against the ALIAS `IndexSet` of traits.rs and
// the results are read through `.iter()`: another set type behind the alias (BTreeSet, a
// HashSet with another hasher) or getters that return references still build.
struct Node {
    index: usize,
    preds: IndexSet,
    succs: IndexSet,
}

impl DirectedGraphNode for Node {
    fn index(&self) -> usize {
        self.index
    }
    fn predecessors(&self) -> &IndexSet {
        &self.preds
    }
    fn successors(&self) -> &IndexSet {
        &self.succs
    }
}

fn graph(n: usize, edges: &[(usize, usize)]) -> Vec<Node> {
    let mut g: Vec<Node> =
        (0..n).map(|i| Node { index: i, preds: IndexSet::default(), succs: IndexSet::default() }).collect();
    for &(a, b) in edges {
        g[a].succs.insert(b);
        g[b].preds.insert(a);
    }
    g
}

fn set<'a>(s: impl Iterator<Item = &'a usize>) -> String {
    let mut v: Vec<usize> = s.copied().collect();
    v.sort();
    v.iter().map(|x| x.to_string()).collect::<Vec<_>>().join(",")
}

fn run(g: &[Node]) -> String {
    let n = g.len();
    match guarded(|| {
        let t = DominatorTree::new(g);
        let dom: Vec<String> = (0..n).map(|i| set(t.get_dominators(i).iter())).collect();
        let idom: Vec<String> = (0..n)
            .map(|i| match t.get_immediate_dominator(i) {
                Some(j) => j.to_string(),
                None => "-".to_string(),
            })
            .collect();
        let ch: Vec<String> = (0..n).map(|i| set(t.get_dominator_successors(i).iter())).collect();
        let df: Vec<String> = (0..n).map(|i| set(t.get_dominance_frontier(i).iter())).collect();
        format!("dom={} idom={} ch={} df={}", dom.join("|"), idom.join(","), ch.join("|"), df.join("|"))
    }) {
        Some(s) => s,
        None => "panic".to_string(),
    }
}

fn sorted(mut v: Vec<usize>) -> String {
    v.sort();
    v.iter().map(|x| x.to_string()).collect::<Vec<_>>().join(",")
}

/// The control-flow graph of one definition as the generic code sees it, and the
/// tables as the rest of the tool reads them.
fn cfg_line(src: &str) -> String {
    let def = match guarded(|| parse_definition(src)) {
        None => return "parse-panic".to_string(),
        Some(None) => return "no-parse".to_string(),
        Some(Some(def)) => def,
    };
    let cfg: Cfg = match guarded(move || {
        let mut reports = ReportCollection::new();
        def.into_cfg(&Curve::default(), &mut reports)
    }) {
        None => return "lift-panic".to_string(),
        Some(Err(_)) => return "lift-error".to_string(),
        Some(Ok(cfg)) => cfg,
    };
    let blocks: Vec<&BasicBlock> = cfg.iter().collect();
    let n = blocks.len();
    let mut by_succ: Vec<(usize, usize)> = Vec::new();
    let mut by_pred: Vec<(usize, usize)> = Vec::new();
    let mut positions_ok = true;
    for (pos, b) in blocks.iter().enumerate() {
        positions_ok = positions_ok && <BasicBlock as DirectedGraphNode>::index(b) == pos;
        for &s in <BasicBlock as DirectedGraphNode>::successors(b).iter() {
            by_succ.push((pos, s));
        }
        for &p in <BasicBlock as DirectedGraphNode>::predecessors(b).iter() {
            by_pred.push((p, pos));
        }
    }
    by_succ.sort();
    by_pred.sort();
    let head = format!(
        "{} {}",
        n,
        by_succ.iter().map(|(a, b)| format!("{a}>{b}")).collect::<Vec<_>>().join(" ")
    );
    let head = head.trim_end().to_string();
    if !positions_ok {
        return format!("{head} = index-is-not-the-position");
    }
    if by_succ != by_pred {
        return format!("{head} = predecessors-do-not-mirror-successors");
    }
    if by_succ.iter().any(|&(a, b)| a >= n || b >= n) {
        return format!("{n} = edge-out-of-range");
    }
    let result = guarded(|| {
        let dom: Vec<String> =
            blocks.iter().map(|b| sorted(cfg.get_dominators(b).iter().map(|x| x.index()).collect())).collect();
        let idom: Vec<String> = blocks
            .iter()
            .map(|b| match cfg.get_immediate_dominator(b) {
                Some(j) => j.index().to_string(),
                None => "-".to_string(),
            })
            .collect();
        let ch: Vec<String> = blocks
            .iter()
            .map(|b| sorted(cfg.get_dominator_successors(b).iter().map(|x| x.index()).collect()))
            .collect();
        let df: Vec<String> = blocks
            .iter()
            .map(|b| sorted(cfg.get_dominance_frontier(b).iter().map(|x| x.index()).collect()))
            .collect();
        format!("dom={} idom={} ch={} df={}", dom.join("|"), idom.join(","), ch.join("|"), df.join("|"))
    });
    format!("{head} = {}", result.unwrap_or_else(|| "panic".to_string()))
}

struct Watch {
    timeouts: usize,
}

impl Watch {
    fn run(&mut self, g: Vec<Node>) -> String {
        if self.timeouts >= 8 {
            return "timeout".to_string(); // do not pile up spinning threads
        }
        let limit = if g.len() <= 40 { 2 } else if g.len() <= 400 { 60 } else { 240 };
        let (tx, rx) = mpsc::channel();
        std::thread::spawn(move || {
            let _ = tx.send(run(&g));
        });
        match rx.recv_timeout(Duration::from_secs(limit)) {
            Ok(s) => s,
            Err(_) => {
                self.timeouts += 1;
                "timeout".to_string()
            }
        }
    }
}

fn parse(line: &str) -> Option<(usize, Vec<(usize, usize)>)> {
    let mut it = line.split_whitespace();
    let n: usize = it.next()?.parse().ok()?;
    let mut es = Vec::new();
    for t in it {
        let (a, b) = t.split_once('>')?;
        let (a, b): (usize, usize) = (a.parse().ok()?, b.parse().ok()?);
        if a >= n || b >= n {
            return None;
        }
        es.push((a, b));
    }
    Some((n, es))
}

fn all_reachable(n: usize, es: &[(usize, usize)]) -> bool {
    let mut seen = vec![false; n];
    let mut stack = vec![0usize];
    seen[0] = true;
    while let Some(a) = stack.pop() {
        for &(x, y) in es {
            if x == a && !seen[y] {
                seen[y] = true;
                stack.push(y);
            }
        }
    }
    seen.iter().all(|&b| b)
}

fn main() {
    silence_panics();
    let args: Vec<String> = std::env::args().collect();
    let mut w = Watch { timeouts: 0 };
    if args.len() == 5 && args[1] == "sweep" {
        let n: usize = args[2].parse().unwrap();
        let lo: u64 = args[3].parse().unwrap();
        let hi: u64 = args[4].parse().unwrap();
        let stdout = std::io::stdout();
        let mut out = std::io::BufWriter::new(stdout.lock());
        for code in lo..hi {
            let mut es = Vec::new();
            for a in 0..n {
                for b in 1..n {
                    if (code >> (a * (n - 1) + (b - 1))) & 1 == 1 {
                        es.push((a, b));
                    }
                }
            }
            if n == 0 || !all_reachable(n, &es) {
                continue;
            }
            writeln!(out, "{} {} = {}", n, code, w.run(graph(n, &es))).unwrap();
        }
        out.flush().unwrap();
        std::process::exit(0); // leaked watchdog threads die here
    }
    if args.len() == 2 && args[1] == "cfg" {
        each_line(|line| cfg_line(line));
        std::process::exit(0);
    }
    each_line(|line| match parse(line) {
        Some((n, es)) => format!("{} = {}", line, w.run(graph(n, &es))),
        None => format!("{} = bad-line", line),
    });
    std::process::exit(0);
}
