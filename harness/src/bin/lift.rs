// Engine `lift` (C12, C13): runs the real parser and the real CFG lifting on a
// Circom definition and prints the block list in the canonical form shared
// with coq/extract/lift.ml; in `walk` mode it walks the real CFG under every
// decision list up to a bound.
//
// Input: one case per line, the source text hex-encoded.
// The programs are rendered by lib/lifteng.py so that every leaf statement and
// every condition contains exactly one number literal, its id
// (`x = x + 7;`, `return x + 8;`, `var d9 = 10`, `x == 11`).
// C13 additionally renders compound assignments on targets `c<id>` / `q<id>[..]`
// (`c7 -= (7 - c7)`, `q8[x]++`): such a statement is identified by the digits of
// its target, and mode `forms` prints each of them as lifted, in a canonical
// prefix form `id=(= (V q8 (V x)) (Add (V q8 (V x)) (N 1)))` (target, opcode,
// operands in order) for comparison with Spec.SurfaceSpec.expected_statement.
use num_traits::ToPrimitive;
use parser::parse_definition;
use program_structure::cfg::{BasicBlock, Cfg, IntoCfg};
use program_structure::constants::Curve;
use program_structure::ir::{AccessType, AssignOp, Expression, ExpressionInfixOpcode, Statement};
use program_structure::report::ReportCollection;
use verif_harness::{each_line, guarded, silence_panics};

fn unhex(s: &str) -> Option<String> {
    if s.len() % 2 != 0 {
        return None;
    }
    let mut bytes = Vec::with_capacity(s.len() / 2);
    for i in (0..s.len()).step_by(2) {
        bytes.push(u8::from_str_radix(s.get(i..i + 2)?, 16).ok()?);
    }
    String::from_utf8(bytes).ok()
}

fn numbers(e: &Expression, out: &mut Vec<u64>) {
    use Expression::*;
    match e {
        InfixOp { lhe, rhe, .. } => {
            numbers(lhe, out);
            numbers(rhe, out);
        }
        PrefixOp { rhe, .. } => numbers(rhe, out),
        SwitchOp { cond, if_true, if_false, .. } => {
            numbers(cond, out);
            numbers(if_true, out);
            numbers(if_false, out);
        }
        Variable { .. } | Phi { .. } => {}
        Number(_, v) => out.push(v.to_u64().unwrap_or(u64::MAX)),
        Call { args, .. } => args.iter().for_each(|a| numbers(a, out)),
        InlineArray { values, .. } => values.iter().for_each(|a| numbers(a, out)),
        Access { access, .. } => access.iter().for_each(|a| {
            if let AccessType::ArrayAccess(e) = a {
                numbers(e, out)
            }
        }),
        Update { access, rhe, .. } => {
            access.iter().for_each(|a| {
                if let AccessType::ArrayAccess(e) = a {
                    numbers(e, out)
                }
            });
            numbers(rhe, out)
        }
    }
}

thread_local! {
    /// the source text of the case being run (for `span_number`)
    static SOURCE: std::cell::RefCell<String> = std::cell::RefCell::new(String::new());
}

/// The only number literal in the SOURCE TEXT covered by the given range, if there is
/// exactly one (third audit: the fall-back of `the_number`, so that an IR rewrite that
/// drops or duplicates a literal in the lifted expression - `x += 3` kept as a compound
/// node, a folded constant - does not turn the id into `?` and the case into a false alarm;
/// the id of a leaf is a property of the source statement, not of the lifted expression).
fn span_number(range: &std::ops::Range<usize>) -> Option<String> {
    SOURCE.with(|s| {
        let s = s.borrow();
        let text = s.get(range.start..range.end)?;
        let mut found: Vec<String> = Vec::new();
        let mut cur = String::new();
        let mut prev_ident = false;
        for ch in text.chars().chain(std::iter::once(' ')) {
            if ch.is_ascii_digit() && (!cur.is_empty() || !prev_ident) {
                cur.push(ch);
            } else {
                if !cur.is_empty() {
                    found.push(std::mem::take(&mut cur));
                }
                prev_ident = ch.is_ascii_alphanumeric() || ch == '_';
            }
        }
        if found.len() == 1 {
            found.pop()
        } else {
            None
        }
    })
}

fn the_number(e: &Expression) -> String {
    let mut v = Vec::new();
    numbers(e, &mut v);
    if v.len() == 1 {
        v[0].to_string()
    } else {
        span_number(&e.meta().file_location()).unwrap_or_else(|| "?".to_string())
    }
}

#[derive(Clone, Debug)]
enum Item {
    Leaf(String),
    Branch(String, usize, Option<usize>),
    Phi,
}

fn item_of(stmt: &Statement) -> Item {
    match stmt {
        Statement::Declaration { names, .. } => {
            let name = names.first().name();
            let digits: String = name.chars().filter(|c| c.is_ascii_digit()).collect();
            Item::Leaf(if digits.is_empty() { "?".to_string() } else { digits })
        }
        Statement::IfThenElse { cond, true_index, false_index, .. } => {
            Item::Branch(the_number(cond), *true_index, *false_index)
        }
        Statement::Return { value, .. } => Item::Leaf(the_number(value)),
        Statement::Substitution { var, rhe, .. } => {
            if matches!(rhe, Expression::Phi { .. }) {
                Item::Phi
            } else if let Some(id) = target_id(var.name()) {
                // C13 rendering: the statement is named by its target `c<id>` / `q<id>`
                Item::Leaf(id)
            } else {
                Item::Leaf(the_number(rhe))
            }
        }
        Statement::ConstraintEquality { rhe, .. } => Item::Leaf(the_number(rhe)),
        Statement::LogCall { .. } => Item::Leaf("?".to_string()),
        Statement::Assert { arg, .. } => Item::Leaf(the_number(arg)),
    }
}

/// `c<digits>` / `q<digits>` (digits not "0"): the id of a leaf of the C13
/// rendering (lib/lifteng.py, Render.rich_leaf); no other rendering uses such names.
fn target_id(name: &str) -> Option<String> {
    let mut chars = name.chars();
    match chars.next() {
        Some('c') | Some('q') => {}
        _ => return None,
    }
    let digits: String = chars.collect();
    if digits.is_empty() || digits == "0" || !digits.chars().all(|c| c.is_ascii_digit()) {
        return None;
    }
    Some(digits)
}

// ---- canonical form of a lifted assignment (C13, mode `forms`) ----

fn op_name(op: &ExpressionInfixOpcode) -> &'static str {
    use ExpressionInfixOpcode::*;
    match op {
        Mul => "Mul",
        Div => "Div",
        Add => "Add",
        Sub => "Sub",
        Pow => "Pow",
        IntDiv => "IntDiv",
        Mod => "Mod",
        ShiftL => "ShiftL",
        ShiftR => "ShiftR",
        LesserEq => "LesserEq",
        GreaterEq => "GreaterEq",
        Lesser => "Lesser",
        Greater => "Greater",
        Eq => "Eq",
        NotEq => "NotEq",
        BoolOr => "BoolOr",
        BoolAnd => "BoolAnd",
        BitOr => "BitOr",
        BitAnd => "BitAnd",
        BitXor => "BitXor",
    }
}

fn show_access(name: &str, access: &[AccessType]) -> String {
    let mut out = format!("(V {name}");
    for a in access {
        out.push(' ');
        match a {
            AccessType::ArrayAccess(e) => out.push_str(&show_expr(e)),
            AccessType::ComponentAccess(f) => out.push_str(&format!("(. {f})")),
        }
    }
    out.push(')');
    out
}

/// prefix form: (N 7), (V x), (V q7 (V x) (N 2)) for q7[x][2], (Sub l r)
fn show_expr(e: &Expression) -> String {
    use Expression::*;
    match e {
        Number(_, v) => format!("(N {v})"),
        Variable { name, .. } => show_access(name.name(), &[]),
        Access { var, access, .. } => show_access(var.name(), access),
        InfixOp { lhe, infix_op, rhe, .. } => {
            format!("({} {} {})", op_name(infix_op), show_expr(lhe), show_expr(rhe))
        }
        PrefixOp { .. } => "(?prefix)".to_string(),
        SwitchOp { .. } => "(?switch)".to_string(),
        Call { .. } => "(?call)".to_string(),
        InlineArray { .. } => "(?array)".to_string(),
        Update { .. } => "(?update)".to_string(),
        Phi { .. } => "(?phi)".to_string(),
    }
}

/// `(= target rhs)`: target is `(V name index..)`; an element assignment is
/// the IR statement `name = update(name, index.., rhs)`
fn show_assignment(var: &str, op: &AssignOp, rhe: &Expression) -> String {
    let op = match op {
        AssignOp::AssignLocalOrComponent => "=",
        AssignOp::AssignSignal => "<--",
        AssignOp::AssignConstraintSignal => "<==",
    };
    match rhe {
        Expression::Update { var: v2, access, rhe: inner, .. } => {
            if v2.name() == var {
                format!("({} {} {})", op, show_access(var, access), show_expr(inner))
            } else {
                format!("({} ?{}/{} {})", op, var, show_access(v2.name(), access), show_expr(inner))
            }
        }
        _ => format!("({} {} {})", op, show_access(var, &[]), show_expr(rhe)),
    }
}

fn forms_line(src: &str) -> String {
    match lift(src) {
        Lifted::NoParse => "noparse".to_string(),
        Lifted::Error => "cfg error".to_string(),
        Lifted::Panic => "cfg panic".to_string(),
        Lifted::Ok(cfg) => {
            let mut out = Vec::new();
            for b in cfg.iter() {
                for stmt in b.iter() {
                    if let Statement::Substitution { var, op, rhe, .. } = stmt {
                        if let Some(id) = target_id(var.name()) {
                            out.push(format!("{}={}", id, show_assignment(var.name(), op, rhe)));
                        }
                    }
                }
            }
            format!("forms {}", out.join("|"))
        }
    }
}

struct Blk {
    index: usize,
    depth: usize,
    items: Vec<Item>,
    preds: Vec<usize>,
    succs: Vec<usize>,
}

fn blocks_of(cfg: &Cfg) -> Vec<Blk> {
    cfg.iter()
        .map(|b: &BasicBlock| {
            let mut preds: Vec<usize> = b.predecessors().iter().cloned().collect();
            let mut succs: Vec<usize> = b.successors().iter().cloned().collect();
            preds.sort_unstable();
            succs.sort_unstable();
            Blk {
                index: b.index(),
                depth: b.loop_depth(),
                // third audit: the phi statements stay in the list (they used to be filtered out here, so
                // that "phis first, branch last" after into_ssa was never looked at)
                items: b.iter().map(item_of).collect(),
                preds,
                succs,
            }
        })
        .collect()
}

/// Third audit: the accessors of the property text that nothing used to read - `Cfg::len`,
/// `Cfg::entry_block`, `Cfg::get_basic_block`, `BasicBlock::in_loop`, `BasicBlock::len` /
/// `is_empty` - against what the block iterator shows.  `ok` or the list of mismatches.
fn api_check(cfg: &Cfg) -> String {
    let mut bad: Vec<String> = Vec::new();
    let n = cfg.iter().count();
    if cfg.len() != n {
        bad.push(format!("len()={}/iter={}", cfg.len(), n));
    }
    if cfg.is_empty() != (n == 0) {
        bad.push(format!("is_empty()={}", cfg.is_empty()));
    }
    match guarded(|| cfg.entry_block().index()) {
        Some(0) => {}
        Some(i) => bad.push(format!("entry_block().index()={i}")),
        None => bad.push("entry_block()-panics".to_string()),
    }
    if let (Some(first), Some(e)) = (cfg.iter().next(), guarded(|| cfg.entry_block().statements().len())) {
        if first.statements().len() != e {
            bad.push("entry_block()-is-not-the-first-block".to_string());
        }
    }
    for (pos, b) in cfg.iter().enumerate() {
        match cfg.get_basic_block(pos) {
            Some(x) if x.index() == b.index() && x.statements().len() == b.statements().len() => {}
            Some(x) => bad.push(format!("get_basic_block({pos}).index()={}", x.index())),
            None => bad.push(format!("get_basic_block({pos})=None")),
        }
        if b.in_loop() != (b.loop_depth() > 0) {
            bad.push(format!("B{pos}.in_loop()={}/depth={}", b.in_loop(), b.loop_depth()));
        }
        if b.len() != b.iter().count() || b.is_empty() != (b.iter().count() == 0) {
            bad.push(format!("B{pos}.len()={}/iter={}", b.len(), b.iter().count()));
        }
    }
    if cfg.get_basic_block(n).is_some() {
        bad.push(format!("get_basic_block({n})=Some"));
    }
    if bad.is_empty() {
        "ok".to_string()
    } else {
        bad.join(",")
    }
}

fn list(v: &[usize]) -> String {
    v.iter().map(|x| x.to_string()).collect::<Vec<_>>().join(",")
}

fn show_blocks(bs: &[Blk]) -> String {
    bs.iter()
        .map(|b| {
            let items = b
                .items
                .iter()
                .map(|i| match i {
                    Item::Leaf(id) => format!("L{id}"),
                    Item::Branch(c, t, f) => match f {
                        Some(f) => format!("C{c}>{t}/{f}"),
                        None => format!("C{c}>{t}/-"),
                    },
                    Item::Phi => "P".to_string(),
                })
                .collect::<Vec<_>>()
                .join(" ");
            format!("B{} d{} [{}] p[{}] s[{}]", b.index, b.depth, items, list(&b.preds), list(&b.succs))
        })
        .collect::<Vec<_>>()
        .join("; ")
}

enum Lifted {
    NoParse,
    Error,
    Panic,
    Ok(Cfg),
}

fn lift(src: &str) -> Lifted {
    let def = match guarded(|| parse_definition(src)) {
        None => return Lifted::Panic,
        Some(None) => return Lifted::NoParse,
        Some(Some(def)) => def,
    };
    match guarded(move || {
        let mut reports = ReportCollection::new();
        def.into_cfg(&Curve::default(), &mut reports)
    }) {
        None => Lifted::Panic,
        Some(Err(_)) => Lifted::Error,
        Some(Ok(cfg)) => Lifted::Ok(cfg),
    }
}

fn cfg_line(src: &str, with_ssa: bool) -> String {
    match lift(src) {
        Lifted::NoParse => "noparse".to_string(),
        Lifted::Error => "cfg error".to_string(),
        Lifted::Panic => "cfg panic".to_string(),
        Lifted::Ok(cfg) => {
            let before = show_blocks(&blocks_of(&cfg));
            let mut api = api_check(&cfg);
            if !with_ssa {
                // into_ssa needs memory exponential in the if/else nesting
                // depth; the driver skips it for deeply nested programs
                return format!("cfg {before} # ssa skipped # api {api}");
            }
            let after = match guarded(move || cfg.into_ssa()) {
                None => "panic".to_string(),
                Some(Err(_)) => "error".to_string(),
                Some(Ok(ssa)) => {
                    let a2 = api_check(&ssa);
                    if a2 != "ok" {
                        api = if api == "ok" { format!("ssa:{a2}") } else { format!("{api},ssa:{a2}") };
                    }
                    show_blocks(&blocks_of(&ssa))
                }
            };
            format!("cfg {before} # ssa {after} # api {api}")
        }
    }
}

// ---- the walk of the property text, on the real blocks ----

/// (observations, status) with status E = walk stopped, X = a decision was
/// needed and none was left, D = step cap reached.
fn walk(bs: &[Blk], ds: &[bool], cap: usize) -> (Vec<String>, char) {
    let mut out = Vec::new();
    let (mut b, mut k, mut d) = (0usize, 0usize, 0usize);
    for _ in 0..cap {
        let blk = match bs.get(b) {
            Some(blk) => blk,
            None => return (out, 'E'),
        };
        match blk.items.get(k) {
            Some(Item::Leaf(id)) => {
                out.push(format!("L{id}"));
                k += 1;
            }
            Some(Item::Branch(c, t, f)) => {
                out.push(format!("C{c}"));
                if d >= ds.len() {
                    return (out, 'X');
                }
                let decision = ds[d];
                d += 1;
                if decision {
                    b = *t;
                    k = 0;
                } else {
                    let target = match f {
                        Some(f) => Some(*f),
                        None => {
                            let others: Vec<usize> = blk.succs.iter().cloned().filter(|s| s != t).collect();
                            if others.len() == 1 {
                                Some(others[0])
                            } else {
                                None
                            }
                        }
                    };
                    match target {
                        Some(x) => {
                            b = x;
                            k = 0;
                        }
                        None => return (out, 'E'),
                    }
                }
            }
            Some(Item::Phi) => k += 1,
            None => {
                // end of the block: a block ending in a branch has been left
                // already; otherwise follow the only successor
                if k != blk.items.len() || matches!(blk.items.last(), Some(Item::Branch(..))) {
                    return (out, 'E');
                }
                if blk.succs.len() == 1 {
                    b = blk.succs[0];
                    k = 0;
                } else {
                    return (out, 'E');
                }
            }
        }
    }
    (out, 'D')
}

fn explore(bs: &[Blk], n: usize, ds: &mut Vec<bool>, cap: usize, acc: &mut Vec<String>) {
    let (tr, st) = walk(bs, ds, cap);
    if st == 'X' && n > 0 {
        ds.push(true);
        explore(bs, n - 1, ds, cap, acc);
        ds.pop();
        ds.push(false);
        explore(bs, n - 1, ds, cap, acc);
        ds.pop();
    } else {
        let bits: String = ds.iter().map(|b| if *b { '1' } else { '0' }).collect();
        acc.push(format!("{}:{}:{}", bits, tr.join(" "), st));
    }
}

fn walk_line(src: &str, n: usize, ssa: bool) -> String {
    match lift(src) {
        Lifted::NoParse => "noparse".to_string(),
        Lifted::Error => "cfg error".to_string(),
        Lifted::Panic => "cfg panic".to_string(),
        Lifted::Ok(cfg) => {
            let bs = if ssa {
                match guarded(move || cfg.into_ssa()) {
                    None => return "ssa panic".to_string(),
                    Some(Err(_)) => return "ssa error".to_string(),
                    Some(Ok(ssa)) => blocks_of(&ssa),
                }
            } else {
                blocks_of(&cfg)
            };
            let mut acc = Vec::new();
            explore(&bs, n, &mut Vec::new(), 100_000, &mut acc);
            format!("W {}", acc.join("|"))
        }
    }
}

fn main() {
    silence_panics();
    let args: Vec<String> = std::env::args().collect();
    let mode = args.get(1).map(String::as_str).unwrap_or("cfg").to_string();
    let n: usize = args.get(2).and_then(|s| s.parse().ok()).unwrap_or(6);
    each_line(|line| {
        let src = match unhex(line) {
            Some(src) => src,
            None => return "bad-line".to_string(),
        };
        SOURCE.with(|s| *s.borrow_mut() = src.clone());
        match mode.as_str() {
            "cfg" => cfg_line(&src, true),
            "cfg-nossa" => cfg_line(&src, false),
            "walk" => walk_line(&src, n, false),
            "walk-ssa" => walk_line(&src, n, true),
            "forms" => forms_line(&src),
            _ => "bad-mode".to_string(),
        }
    });
}
