// Engine `locations` (C04): every report the pipeline produces for a project,
// collected in process exactly the way cli/src/main.rs drives it
// (AnalysisRunner::with_libraries/with_files, analyze_functions,
// analyze_templates) but with a writer that keeps every report unfiltered,
// together with the file library the labels point into.
//
//   locations      stdin: one JSON object per line {"files":[..],"libs":[..],"curve":"..","all":bool}
//                  stdout: one JSON object per line:
//     {"files":[{"id","path","user","src"(hex of the library's copy)}],
//      "reports":[{"stage","id","level","message","primary":[L],"secondary":[L],"render"}],
//      "panic":bool}
//     L = {"file","start","end","msg","known","sl","sc","el","ec"}: the label as
//     stored in the report; sl/sc/el/ec are what codespan's `location` (the
//     function sarif_conversion.rs and the terminal renderer call) answers for
//     the two ends, null when it fails. "render" is the diagnostic rendered by
//     codespan's term::emit without colours (null + "render_error" on failure).
use codespan_reporting::files::Files;
use codespan_reporting::term;
use codespan_reporting::term::termcolor::NoColor;
use program_analysis::analysis_runner::AnalysisRunner;
use program_structure::constants::Curve;
use program_structure::file_definition::FileLibrary;
use program_structure::report::{Report, ReportLabel};
use program_structure::writers::{LogWriter, ReportWriter};
use serde_json::{json, Value};
use std::fmt::Display;
use std::path::PathBuf;
use std::str::FromStr;
use verif_harness::{each_line, guarded, silence_panics};

fn hex(bytes: &[u8]) -> String {
    let mut s = String::with_capacity(bytes.len() * 2);
    for b in bytes {
        s.push_str(&format!("{:02x}", b));
    }
    s
}

fn label_json(label: &ReportLabel, files: &FileLibrary) -> Value {
    let storage = files.to_storage();
    let known = storage.get(label.file_id).is_ok();
    let start = storage.location(label.file_id, label.range.start).ok();
    let end = storage.location(label.file_id, label.range.end).ok();
    json!({
        "file": label.file_id,
        "start": label.range.start,
        "end": label.range.end,
        "msg": label.message,
        "known": known,
        "sl": start.as_ref().map(|l| l.line_number),
        "sc": start.as_ref().map(|l| l.column_number),
        "el": end.as_ref().map(|l| l.line_number),
        "ec": end.as_ref().map(|l| l.column_number),
    })
}

fn render(report: &Report, files: &FileLibrary) -> Result<String, String> {
    let diagnostic = report.to_diagnostic(true);
    let config = term::Config::default();
    let mut buffer = NoColor::new(Vec::new());
    match guarded(|| term::emit(&mut buffer, &config, files.to_storage(), &diagnostic)) {
        None => Err("panic".to_string()),
        Some(Err(e)) => Err(format!("{}", e)),
        Some(Ok(())) => Ok(String::from_utf8_lossy(buffer.get_ref()).to_string()),
    }
}

/// What the terminal has to show for a report, built WITHOUT `Report::to_diagnostic`: severity, message,
/// every primary and every secondary label with its text, the report's notes, the documentation URL, and
/// in verbose mode the report id in the header and the `--allow ID` hint (fourth audit: the body of a
/// displayed diagnostic was read by no check).  Rendered with the configuration writers.rs uses.
fn expected_render(report: &Report, files: &FileLibrary, verbose: bool) -> Option<String> {
    use codespan_reporting::diagnostic::{Diagnostic, Label, LabelStyle, Severity};
    let severity = match report.category().to_string().as_str() {
        "error" => Severity::Error,
        "warning" => Severity::Warning,
        _ => Severity::Note,
    };
    let mut labels = Vec::new();
    for (style, list) in
        [(LabelStyle::Primary, report.primary()), (LabelStyle::Secondary, report.secondary())]
    {
        for l in list.iter() {
            labels.push(Label::new(style, l.file_id, l.range.clone()).with_message(l.message.clone()));
        }
    }
    let mut notes: Vec<String> = report.notes().iter().map(|n| n.to_string()).collect();
    if let Some(url) = report.code().url() {
        notes.push(format!("For more details, see {url}."));
    }
    let mut diagnostic =
        Diagnostic::new(severity).with_message(report.message().to_string()).with_labels(labels);
    if verbose {
        notes.push(format!("To ignore this type of result, use `--allow {}`.", report.id()));
        diagnostic = diagnostic.with_code(report.id());
    }
    let diagnostic = diagnostic.with_notes(notes);
    let mut config = term::Config::default();
    config.styles.header_help.set_intense(false);
    config.styles.header_error.set_intense(false);
    config.styles.header_warning.set_intense(false);
    let mut buffer = NoColor::new(Vec::new());
    match guarded(|| term::emit(&mut buffer, &config, files.to_storage(), &diagnostic)) {
        Some(Ok(())) => Some(String::from_utf8_lossy(buffer.get_ref()).to_string()),
        _ => None,
    }
}

fn report_json(stage: &str, report: &Report, files: &FileLibrary) -> Value {
    let (text, error) = match render(report, files) {
        Ok(t) => (Some(t), None),
        Err(e) => (None, Some(e)),
    };
    json!({
        "stage": stage,
        "id": report.id(),
        "level": report.category().to_string(),
        "message": report.message(),
        "primary": report.primary().iter().map(|l| label_json(l, files)).collect::<Vec<_>>(),
        "secondary": report.secondary().iter().map(|l| label_json(l, files)).collect::<Vec<_>>(),
        "pfiles": report.primary_file_ids(),
        "render": text,
        "render_error": error,
        "expect_verbose": expected_render(report, files, true),
        "expect_plain": expected_render(report, files, false),
    })
}

/// The writer handed to the runner: keeps everything, filters nothing.
struct Collector {
    stage: String,
    out: Vec<Value>,
}

impl LogWriter for Collector {
    fn write_messages<D: Display>(&mut self, messages: &[D]) {
        for m in messages {
            // "analyzing template 'T'" / "analyzing function 'f'"
            self.stage = format!("{}", m);
        }
    }
}

impl ReportWriter for Collector {
    fn write_reports(&mut self, reports: &[Report], files: &FileLibrary) -> usize {
        for r in reports {
            let v = report_json(&self.stage, r, files);
            self.out.push(v);
        }
        reports.len()
    }

    fn reports_written(&self) -> usize {
        self.out.len()
    }
}

fn files_json(files: &FileLibrary) -> Vec<Value> {
    let mut list = Vec::new();
    let mut id = 0;
    while let Ok(file) = files.to_storage().get(id) {
        list.push(json!({
            "id": id,
            "path": file.name(),
            "user": files.is_user_input(id),
            "src": hex(file.source().as_bytes()),
        }));
        id += 1;
    }
    list
}

/// The driver reads one line per case and splits lines the Python way (also at
/// U+2028, U+0085, ...): keep the output ASCII, non-ASCII characters only occur
/// inside JSON strings and are written as \uXXXX escapes.
fn ascii(json: String) -> String {
    let mut out = String::with_capacity(json.len());
    for c in json.chars() {
        if c.is_ascii() {
            out.push(c);
        } else {
            let mut buf = [0u16; 2];
            for unit in c.encode_utf16(&mut buf) {
                out.push_str(&format!("\\u{:04x}", unit));
            }
        }
    }
    out
}

fn one(line: &str) -> String {
    ascii(one_json(line))
}

fn one_json(line: &str) -> String {
    let input: Value = match serde_json::from_str(line) {
        Ok(v) => v,
        Err(e) => return json!({"bad_input": e.to_string()}).to_string(),
    };
    let paths = |key: &str| -> Vec<PathBuf> {
        input[key]
            .as_array()
            .map(|a| a.iter().filter_map(|x| x.as_str()).map(PathBuf::from).collect())
            .unwrap_or_default()
    };
    let files_in = paths("files");
    let libs_in = paths("libs");
    let user_only = !input["all"].as_bool().unwrap_or(true);
    let curve = Curve::from_str(input["curve"].as_str().unwrap_or("BN254")).unwrap_or_default();
    let mut collector = Collector { stage: "parse".to_string(), out: Vec::new() };
    let mut file_list: Vec<Value> = Vec::new();
    let mut stage_reached = "start";
    let done = guarded(|| {
        let (mut runner, reports) =
            AnalysisRunner::new(curve).with_libraries(&libs_in).with_files(&files_in);
        stage_reached = "parsed";
        file_list = files_json(runner.file_library());
        collector.write_reports(&reports, runner.file_library());
        runner.analyze_functions(&mut collector, user_only);
        stage_reached = "functions";
        runner.analyze_templates(&mut collector, user_only);
        stage_reached = "templates";
    });
    json!({
        "files": file_list,
        "reports": collector.out,
        "panic": done.is_none(),
        "stage": if done.is_none() { collector.stage.clone() } else { stage_reached.to_string() },
    })
    .to_string()
}

// ---------------------------------------------------------------------------
// mode `codespan`: the answers of the real location code on a bare text, to be
// compared with the EXTRACTED Model.Labels.location / sarif_region.
//
//   locations codespan   stdin: one line per case
//       loc <maxoff> <scalar> <scalar> ...        (Unicode scalar values, decimal)
//       region <start> <end> <scalar> ...
//   stdout:
//       loc: for every byte offset 0..=maxoff what `FileLibrary::to_storage().location`
//            answers, `L:C` or `x` (an Err), blank separated;
//       region: `sl sc el ec | hl hc`: the region `ReportLabel::to_sarif`
//            (sarif_conversion.rs) writes for a primary label start..end of a
//            report, and the line:column of the header codespan's terminal
//            renderer prints for it (`x` where the conversion / rendering fails).
fn text_of(tokens: &[&str]) -> Option<String> {
    let mut s = String::new();
    for t in tokens {
        s.push(char::from_u32(t.parse::<u32>().ok()?)?);
    }
    Some(s)
}

fn codespan_one(line: &str) -> String {
    use program_structure::report_code::ReportCode;
    use program_structure::sarif_conversion::ToSarif;
    let toks: Vec<&str> = line.split_whitespace().collect();
    let bad = || format!("{} = bad-input", line.trim());
    match toks.first().copied() {
        Some("loc") if toks.len() >= 2 => {
            let (Ok(max), Some(text)) = (toks[1].parse::<usize>(), text_of(&toks[2..])) else { return bad() };
            let mut files = FileLibrary::new();
            let id = files.add_file("t.circom".to_string(), text, true);
            let mut out = Vec::new();
            for off in 0..=max {
                out.push(match guarded(|| files.to_storage().location(id, off)) {
                    Some(Ok(l)) => format!("{}:{}", l.line_number, l.column_number),
                    Some(Err(_)) => "x".to_string(),
                    None => "panic".to_string(),
                });
            }
            format!("{} = {}", line.trim(), out.join(" "))
        }
        Some("region") if toks.len() >= 3 => {
            let (Ok(s), Ok(e), Some(text)) =
                (toks[1].parse::<usize>(), toks[2].parse::<usize>(), text_of(&toks[3..]))
            else {
                return bad();
            };
            let mut files = FileLibrary::new();
            let id = files.add_file("t.circom".to_string(), text, true);
            let mut report = Report::warning("m".to_string(), ReportCode::FieldElementArithmetic);
            report.add_primary(s..e, id, "l".to_string());
            let region = match guarded(|| report.to_sarif(&files)) {
                Some(Ok(r)) => {
                    let v = serde_json::to_value(&r).unwrap_or(Value::Null);
                    let g = &v["locations"][0]["physicalLocation"]["region"];
                    format!("{} {} {} {}", g["startLine"], g["startColumn"], g["endLine"], g["endColumn"])
                }
                Some(Err(_)) => "x".to_string(),
                None => "panic".to_string(),
            };
            let header = match render(&report, &files) {
                Ok(t) => t
                    .lines()
                    .find_map(|l| l.trim_start().strip_prefix("\u{250c}\u{2500} t.circom:").map(|r| r.trim().replace(':', " ")))
                    .unwrap_or_else(|| "x".to_string()),
                Err(_) => "x".to_string(),
            };
            format!("{} = {} | {}", line.trim(), region, header)
        }
        _ => bad(),
    }
}

// ---------------------------------------------------------------------------
// mode `provenance`: where the metas of the IR come from.
//
//   locations provenance   stdin: the same JSON lines as the default mode
//   stdout per line: {"defs":[{"kind","name","file","ast":[N],"pre":[N],"ssa":[N],"error"}],"panic":bool}
//     N = [start, end, file|null, "s:<Statement variant>" | "e:<Expression variant>" | "params"]
//     ast: every node of the definition body as parse_files hands it on (after
//          desugaring) plus the parameter list; pre: every node of the CFG that
//          into_cfg builds; ssa: every node after into_ssa.  Duplicates removed.
mod provenance {
    use program_structure::ast;
    use program_structure::ir;
    use serde_json::{json, Value};
    use std::collections::BTreeSet;

    pub type Node = (usize, usize, Option<usize>, String);

    fn am(m: &ast::Meta, kind: &str, out: &mut BTreeSet<Node>) {
        out.insert((m.location.start, m.location.end, m.file_id, kind.to_string()));
    }

    pub fn ast_expr(e: &ast::Expression, out: &mut BTreeSet<Node>) {
        use ast::Expression::*;
        match e {
            InfixOp { meta, lhe, rhe, .. } => {
                am(meta, "e:InfixOp", out);
                ast_expr(lhe, out);
                ast_expr(rhe, out);
            }
            PrefixOp { meta, rhe, .. } => {
                am(meta, "e:PrefixOp", out);
                ast_expr(rhe, out);
            }
            InlineSwitchOp { meta, cond, if_true, if_false } => {
                am(meta, "e:InlineSwitchOp", out);
                ast_expr(cond, out);
                ast_expr(if_true, out);
                ast_expr(if_false, out);
            }
            ParallelOp { meta, rhe } => {
                am(meta, "e:ParallelOp", out);
                ast_expr(rhe, out);
            }
            Variable { meta, access, .. } => {
                am(meta, "e:Variable", out);
                ast_access(access, out);
            }
            Number(meta, _) => am(meta, "e:Number", out),
            Call { meta, args, .. } => {
                am(meta, "e:Call", out);
                args.iter().for_each(|a| ast_expr(a, out));
            }
            AnonymousComponent { meta, params, signals, .. } => {
                am(meta, "e:AnonymousComponent", out);
                params.iter().for_each(|a| ast_expr(a, out));
                signals.iter().for_each(|a| ast_expr(a, out));
            }
            ArrayInLine { meta, values } => {
                am(meta, "e:ArrayInLine", out);
                values.iter().for_each(|a| ast_expr(a, out));
            }
            Tuple { meta, values } => {
                am(meta, "e:Tuple", out);
                values.iter().for_each(|a| ast_expr(a, out));
            }
        }
    }

    fn ast_access(access: &[ast::Access], out: &mut BTreeSet<Node>) {
        for a in access {
            if let ast::Access::ArrayAccess(e) = a {
                ast_expr(e, out);
            }
        }
    }

    pub fn ast_stmt(s: &ast::Statement, out: &mut BTreeSet<Node>) {
        use ast::Statement::*;
        match s {
            IfThenElse { meta, cond, if_case, else_case } => {
                am(meta, "s:IfThenElse", out);
                ast_expr(cond, out);
                ast_stmt(if_case, out);
                if let Some(e) = else_case {
                    ast_stmt(e, out);
                }
            }
            While { meta, cond, stmt } => {
                am(meta, "s:While", out);
                ast_expr(cond, out);
                ast_stmt(stmt, out);
            }
            Return { meta, value } => {
                am(meta, "s:Return", out);
                ast_expr(value, out);
            }
            InitializationBlock { meta, initializations, .. } => {
                am(meta, "s:InitializationBlock", out);
                initializations.iter().for_each(|x| ast_stmt(x, out));
            }
            Declaration { meta, dimensions, .. } => {
                am(meta, "s:Declaration", out);
                dimensions.iter().for_each(|x| ast_expr(x, out));
            }
            Substitution { meta, access, rhe, .. } => {
                am(meta, "s:Substitution", out);
                ast_access(access, out);
                ast_expr(rhe, out);
            }
            MultiSubstitution { meta, lhe, rhe, .. } => {
                am(meta, "s:MultiSubstitution", out);
                ast_expr(lhe, out);
                ast_expr(rhe, out);
            }
            ConstraintEquality { meta, lhe, rhe } => {
                am(meta, "s:ConstraintEquality", out);
                ast_expr(lhe, out);
                ast_expr(rhe, out);
            }
            LogCall { meta, args } => {
                am(meta, "s:LogCall", out);
                for a in args {
                    if let ast::LogArgument::LogExp(e) = a {
                        ast_expr(e, out);
                    }
                }
            }
            Block { meta, stmts } => {
                am(meta, "s:Block", out);
                stmts.iter().for_each(|x| ast_stmt(x, out));
            }
            Assert { meta, arg } => {
                am(meta, "s:Assert", out);
                ast_expr(arg, out);
            }
        }
    }

    fn im(m: &ir::Meta, kind: &str, out: &mut BTreeSet<Node>) {
        out.insert((m.location.start, m.location.end, m.file_id, kind.to_string()));
    }

    fn ir_access(access: &[ir::AccessType], out: &mut BTreeSet<Node>) {
        for a in access {
            if let ir::AccessType::ArrayAccess(e) = a {
                ir_expr(e, out);
            }
        }
    }

    pub fn ir_expr(e: &ir::Expression, out: &mut BTreeSet<Node>) {
        use ir::Expression::*;
        match e {
            InfixOp { meta, lhe, rhe, .. } => {
                im(meta, "e:InfixOp", out);
                ir_expr(lhe, out);
                ir_expr(rhe, out);
            }
            PrefixOp { meta, rhe, .. } => {
                im(meta, "e:PrefixOp", out);
                ir_expr(rhe, out);
            }
            SwitchOp { meta, cond, if_true, if_false } => {
                im(meta, "e:SwitchOp", out);
                ir_expr(cond, out);
                ir_expr(if_true, out);
                ir_expr(if_false, out);
            }
            Variable { meta, .. } => im(meta, "e:Variable", out),
            Number(meta, _) => im(meta, "e:Number", out),
            Call { meta, args, .. } => {
                im(meta, "e:Call", out);
                args.iter().for_each(|a| ir_expr(a, out));
            }
            InlineArray { meta, values } => {
                im(meta, "e:InlineArray", out);
                values.iter().for_each(|a| ir_expr(a, out));
            }
            Access { meta, access, .. } => {
                im(meta, "e:Access", out);
                ir_access(access, out);
            }
            Update { meta, access, rhe, .. } => {
                im(meta, "e:Update", out);
                ir_access(access, out);
                ir_expr(rhe, out);
            }
            Phi { meta, .. } => im(meta, "e:Phi", out),
        }
    }

    pub fn ir_stmt(s: &ir::Statement, out: &mut BTreeSet<Node>) {
        use ir::Statement::*;
        match s {
            Declaration { meta, dimensions, .. } => {
                im(meta, "s:Declaration", out);
                dimensions.iter().for_each(|x| ir_expr(x, out));
            }
            IfThenElse { meta, cond, .. } => {
                im(meta, "s:IfThenElse", out);
                ir_expr(cond, out);
            }
            Return { meta, value } => {
                im(meta, "s:Return", out);
                ir_expr(value, out);
            }
            Substitution { meta, rhe, .. } => {
                im(meta, "s:Substitution", out);
                ir_expr(rhe, out);
            }
            ConstraintEquality { meta, lhe, rhe } => {
                im(meta, "s:ConstraintEquality", out);
                ir_expr(lhe, out);
                ir_expr(rhe, out);
            }
            LogCall { meta, args } => {
                im(meta, "s:LogCall", out);
                for a in args {
                    if let ir::LogArgument::Expr(e) = a {
                        ir_expr(e, out);
                    }
                }
            }
            Assert { meta, arg } => {
                im(meta, "s:Assert", out);
                ir_expr(arg, out);
            }
        }
    }

    pub fn cfg_nodes(cfg: &program_structure::cfg::Cfg) -> BTreeSet<Node> {
        let mut out = BTreeSet::new();
        for b in cfg.iter() {
            for s in b.iter() {
                ir_stmt(s, &mut out);
            }
        }
        out
    }

    pub fn nodes_json(nodes: &BTreeSet<Node>) -> Value {
        Value::Array(nodes.iter().map(|(s, e, f, k)| json!([s, e, f, k])).collect())
    }
}

fn provenance_def<Ast: program_structure::cfg::IntoCfg>(
    kind: &str,
    name: &str,
    file: usize,
    mut ast_nodes: std::collections::BTreeSet<provenance::Node>,
    params: std::ops::Range<usize>,
    ast: Ast,
    curve: &Curve,
) -> Value {
    use program_structure::report::ReportCollection;
    ast_nodes.insert((params.start, params.end, Some(file), "params".to_string()));
    let mut reports = ReportCollection::new();
    let mut pre = Value::Null;
    let mut ssa = Value::Null;
    let mut error = Value::Null;
    let done = guarded(|| match ast.into_cfg(curve, &mut reports) {
        Err(_) => error = json!("cfg"),
        Ok(cfg) => {
            pre = provenance::nodes_json(&provenance::cfg_nodes(&cfg));
            match cfg.into_ssa() {
                Err(_) => error = json!("ssa"),
                Ok(cfg) => ssa = provenance::nodes_json(&provenance::cfg_nodes(&cfg)),
            }
        }
    });
    if done.is_none() {
        error = json!("panic");
    }
    json!({"kind": kind, "name": name, "file": file, "ast": provenance::nodes_json(&ast_nodes),
           "pre": pre, "ssa": ssa, "error": error})
}

fn provenance_one(line: &str) -> String {
    use parser::ParseResult;
    use program_structure::constants::Curve;
    let input: Value = match serde_json::from_str(line) {
        Ok(v) => v,
        Err(e) => return json!({"bad_input": e.to_string()}).to_string(),
    };
    let paths = |key: &str| -> Vec<PathBuf> {
        input[key]
            .as_array()
            .map(|a| a.iter().filter_map(|x| x.as_str()).map(PathBuf::from).collect())
            .unwrap_or_default()
    };
    let files_in = paths("files");
    let libs_in = paths("libs");
    let curve = Curve::from_str(input["curve"].as_str().unwrap_or("BN254")).unwrap_or_default();
    let Some(result) =
        guarded(|| parser::parse_files(&files_in, &libs_in, &program_analysis::config::COMPILER_VERSION))
    else {
        return json!({"panic": true, "defs": []}).to_string();
    };
    let (templates, functions) = match result {
        ParseResult::Program(p, _) => (p.templates, p.functions),
        ParseResult::Library(l, _) => (l.templates, l.functions),
    };
    let mut defs = Vec::new();
    let mut names: Vec<&String> = functions.keys().collect();
    names.sort();
    for name in names {
        let f = &functions[name];
        let mut nodes = std::collections::BTreeSet::new();
        provenance::ast_stmt(f.get_body(), &mut nodes);
        defs.push(provenance_def("function", name, f.get_file_id(), nodes, f.get_param_location(), f, &curve));
    }
    let mut names: Vec<&String> = templates.keys().collect();
    names.sort();
    for name in names {
        let t = &templates[name];
        let mut nodes = std::collections::BTreeSet::new();
        provenance::ast_stmt(t.get_body(), &mut nodes);
        defs.push(provenance_def("template", name, t.get_file_id(), nodes, t.get_param_location(), t, &curve));
    }
    ascii(json!({"panic": false, "defs": defs}).to_string())
}

fn main() {
    silence_panics();
    if std::env::args().nth(1).as_deref() == Some("codespan") {
        each_line(codespan_one);
    } else if std::env::args().nth(1).as_deref() == Some("provenance") {
        each_line(provenance_one);
    } else {
        each_line(one);
    }
}
