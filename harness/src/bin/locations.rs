// Engine `locations` (C04): every report the pipeline produces for a project,
// collected in process exactly the way cli/src/main.rs drives it
// (AnalysisRunner::with_libraries/with_files, analyze_functions,
// analyze_templates) but with a writer that keeps every report unfiltered,
// together with the file library the labels point into.
//
//   locations      stdin: one JSON object per line {"files":[..],"libs":[..],"curve":"..","all":bool}
//                  stdout: one JSON object per line:
//     {"files":[{"id","path","user","src"(hex of the library's copy)}],
//      "reports":[{"stage","id","level","message","primary":[L],"secondary":[L],"render"}],
//      "panic":bool}
//     L = {"file","start","end","msg","known","sl","sc","el","ec"}: the label as
//     stored in the report; sl/sc/el/ec are what codespan's `location` (the
//     function sarif_conversion.rs and the terminal renderer call) answers for
//     the two ends, null when it fails. "render" is the diagnostic rendered by
//     codespan's term::emit without colours (null + "render_error" on failure).
use codespan_reporting::files::Files;
use codespan_reporting::term;
use codespan_reporting::term::termcolor::NoColor;
use program_analysis::analysis_runner::AnalysisRunner;
use program_structure::constants::Curve;
use program_structure::file_definition::FileLibrary;
use program_structure::report::{Report, ReportLabel};
use program_structure::writers::{LogWriter, ReportWriter};
use serde_json::{json, Value};
use std::fmt::Display;
use std::path::PathBuf;
use std::str::FromStr;
use verif_harness::{each_line, guarded, silence_panics};

fn hex(bytes: &[u8]) -> String {
    let mut s = String::with_capacity(bytes.len() * 2);
    for b in bytes {
        s.push_str(&format!("{:02x}", b));
    }
    s
}

fn label_json(label: &ReportLabel, files: &FileLibrary) -> Value {
    let storage = files.to_storage();
    let known = storage.get(label.file_id).is_ok();
    let start = storage.location(label.file_id, label.range.start).ok();
    let end = storage.location(label.file_id, label.range.end).ok();
    json!({
        "file": label.file_id,
        "start": label.range.start,
        "end": label.range.end,
        "msg": label.message,
        "known": known,
        "sl": start.as_ref().map(|l| l.line_number),
        "sc": start.as_ref().map(|l| l.column_number),
        "el": end.as_ref().map(|l| l.line_number),
        "ec": end.as_ref().map(|l| l.column_number),
    })
}

fn render(report: &Report, files: &FileLibrary) -> Result<String, String> {
    let diagnostic = report.to_diagnostic(true);
    let config = term::Config::default();
    let mut buffer = NoColor::new(Vec::new());
    match guarded(|| term::emit(&mut buffer, &config, files.to_storage(), &diagnostic)) {
        None => Err("panic".to_string()),
        Some(Err(e)) => Err(format!("{}", e)),
        Some(Ok(())) => Ok(String::from_utf8_lossy(buffer.get_ref()).to_string()),
    }
}

fn report_json(stage: &str, report: &Report, files: &FileLibrary) -> Value {
    let (text, error) = match render(report, files) {
        Ok(t) => (Some(t), None),
        Err(e) => (None, Some(e)),
    };
    json!({
        "stage": stage,
        "id": report.id(),
        "level": report.category().to_string(),
        "message": report.message(),
        "primary": report.primary().iter().map(|l| label_json(l, files)).collect::<Vec<_>>(),
        "secondary": report.secondary().iter().map(|l| label_json(l, files)).collect::<Vec<_>>(),
        "pfiles": report.primary_file_ids(),
        "render": text,
        "render_error": error,
    })
}

/// The writer handed to the runner: keeps everything, filters nothing.
struct Collector {
    stage: String,
    out: Vec<Value>,
}

impl LogWriter for Collector {
    fn write_messages<D: Display>(&mut self, messages: &[D]) {
        for m in messages {
            // "analyzing template 'T'" / "analyzing function 'f'"
            self.stage = format!("{}", m);
        }
    }
}

impl ReportWriter for Collector {
    fn write_reports(&mut self, reports: &[Report], files: &FileLibrary) -> usize {
        for r in reports {
            let v = report_json(&self.stage, r, files);
            self.out.push(v);
        }
        reports.len()
    }

    fn reports_written(&self) -> usize {
        self.out.len()
    }
}

fn files_json(files: &FileLibrary) -> Vec<Value> {
    let mut list = Vec::new();
    let mut id = 0;
    while let Ok(file) = files.to_storage().get(id) {
        list.push(json!({
            "id": id,
            "path": file.name(),
            "user": files.is_user_input(id),
            "src": hex(file.source().as_bytes()),
        }));
        id += 1;
    }
    list
}

/// The driver reads one line per case and splits lines the Python way (also at
/// U+2028, U+0085, ...): keep the output ASCII, non-ASCII characters only occur
/// inside JSON strings and are written as \uXXXX escapes.
fn ascii(json: String) -> String {
    let mut out = String::with_capacity(json.len());
    for c in json.chars() {
        if c.is_ascii() {
            out.push(c);
        } else {
            let mut buf = [0u16; 2];
            for unit in c.encode_utf16(&mut buf) {
                out.push_str(&format!("\\u{:04x}", unit));
            }
        }
    }
    out
}

fn one(line: &str) -> String {
    ascii(one_json(line))
}

fn one_json(line: &str) -> String {
    let input: Value = match serde_json::from_str(line) {
        Ok(v) => v,
        Err(e) => return json!({"bad_input": e.to_string()}).to_string(),
    };
    let paths = |key: &str| -> Vec<PathBuf> {
        input[key]
            .as_array()
            .map(|a| a.iter().filter_map(|x| x.as_str()).map(PathBuf::from).collect())
            .unwrap_or_default()
    };
    let files_in = paths("files");
    let libs_in = paths("libs");
    let user_only = !input["all"].as_bool().unwrap_or(true);
    let curve = Curve::from_str(input["curve"].as_str().unwrap_or("BN254")).unwrap_or_default();
    let mut collector = Collector { stage: "parse".to_string(), out: Vec::new() };
    let mut file_list: Vec<Value> = Vec::new();
    let mut stage_reached = "start";
    let done = guarded(|| {
        let (mut runner, reports) =
            AnalysisRunner::new(curve).with_libraries(&libs_in).with_files(&files_in);
        stage_reached = "parsed";
        file_list = files_json(runner.file_library());
        collector.write_reports(&reports, runner.file_library());
        runner.analyze_functions(&mut collector, user_only);
        stage_reached = "functions";
        runner.analyze_templates(&mut collector, user_only);
        stage_reached = "templates";
    });
    json!({
        "files": file_list,
        "reports": collector.out,
        "panic": done.is_none(),
        "stage": if done.is_none() { collector.stage.clone() } else { stage_reached.to_string() },
    })
    .to_string()
}

fn main() {
    silence_panics();
    each_line(one);
}
