// Engine `liftfull` (owner: property C13; also serves C04, C08, C01): the
// content-carrying lifting mirror Model.LiftFull against the real `into_cfg`.
//
// Input line: a Circom source with `\n` and `\\` escaped (as for engine `desugar`).
// Mode `desugared` (default): the REAL parser, the REAL `remove_syntactic_sugar`,
// then for every template / function handed on (templates by name, then functions
// by name) two tab-separated fields
//   DEF (def KIND NAME (params P*) FILE|- START END <body: astdump>)      the input of lifting
//   RES (ok X <irdump::xcfg> C <irdump::cfg> R (reports ..)) | (err KIND) | (panic)
// where RES is what `into_cfg` of the REAL implementation returns for that
// definition (before SSA).  Mode `raw`: the same without `remove_syntactic_sugar`
// (tuples, anonymous components and multi-substitutions reach lifting, which
// panics on them: the mirror's panic sites are compared too).
// A line that does not parse gives `PARSE error|panic`, a panic of the desugarer
// `SUGAR panic`.
// Third audit.  (1) `(err KIND <report>)`: on an error the REPORT the error turns into
// (`CFGError::into_report`: code, message with the NAME, primary label = location and file) is
// printed, not only the kind, so that name and location of the CFG error reports are compared.
// (2) In the modes `desugared` and `raw` every definition carries a third pair of fields
//   WF (wf <nest> # <blocks after into_cfg> # <blocks after into_ssa | skipped | error | panic> # <api>)
// for property C12 (lib/props/C12.py files failures of its clauses on these definitions WITH the
// source as failing input): <blocks> in the form of harness/src/bin/lift.rs (`B0 d0 [L3_9 C12_40>1/2 P] p[] s[1]`,
// an item named by start_end of its statement meta, P a phi statement), <nest> the statements and
// conditions of the DESUGARED body in source order with their syntactic loop nesting (`3_9:0 12_40:0 ..`,
// computed here from the syntax tree by a plain recursion: the oracle side), <api> the accessors
// `len / entry_block / get_basic_block / in_loop` against the block iterator (`ok` or mismatches).
// Mode `chain` (property C01): as `desugared`, but RES is the OUTCOME CLASS of the
// rest of the real per-definition pipeline, `into_cfg` followed by `into_ssa` (which
// includes type / value / degree propagation and the caching of variable uses):
//   RES (chain ok) | (chain err-lift KIND) | (chain panic-lift) | (chain err-ssa) | (chain panic-ssa)
// compared with what the extracted chain Model.PipelineMirrors.analyse_body answers
// for the same DEF (coq/extract/chain.ml).
// Third audit (C01): `chain [CURVE [VALUE_PASSES DEGREE_PASSES]]` - the curve handed to `into_cfg`
// (BN254 | BLS12_381 | GOLDILOCKS, default BN254) and the pass budgets of value / degree propagation
// (`-` = the real time box only); in mode `chain` the lines are processed on a thread with a 4 GB
// stack, so that sources nested up to the depth at which the COMMAND-LINE tool is known to exhaust its
// 8 MB stack (known finding C01-stack-depth) can be fed in-process.
use parser::verif::{parse_source, remove_syntactic_sugar};
use program_structure::ast::Definition;
use program_structure::cfg::errors::CFGError;
use program_structure::cfg::{Cfg, IntoCfg};
use program_structure::constants::Curve;
use program_structure::file_definition::{FileLibrary, FileLocation};
use program_structure::function_data::FunctionData;
use program_structure::report::{Report, ReportCollection};
use program_structure::template_data::TemplateData;
use std::collections::HashMap;
use verif_harness::{astdump, each_line, guarded, irdump, silence_panics};

fn unescape(line: &str) -> String {
    let mut o = String::new();
    let mut it = line.chars();
    while let Some(c) = it.next() {
        if c == '\\' {
            match it.next() {
                Some('n') => o.push('\n'),
                Some('\\') => o.push('\\'),
                Some(d) => {
                    o.push('\\');
                    o.push(d)
                }
                None => o.push('\\'),
            }
        } else {
            o.push(c);
        }
    }
    o
}

fn def_line(kind: &str, name: &str, params: &[String], file: usize, loc: &FileLocation, body: &program_structure::ast::Statement) -> String {
    let mut o = format!("(def {} {} (params", kind, name);
    for p in params {
        o.push(' ');
        o.push_str(p);
    }
    o.push_str(&format!(") {} {} {} ", file, loc.start, loc.end));
    astdump::stmt(&mut o, body);
    o.push(')');
    o
}

fn report_line(r: &Report) -> String {
    let mut o = format!("(rep {} {}", r.id(), irdump::hexs(r.message()));
    for l in r.primary() {
        o.push_str(&format!(" (p {} {} {})", l.range.start, l.range.end, l.file_id));
    }
    for l in r.secondary() {
        o.push_str(&format!(" (s {} {} {})", l.range.start, l.range.end, l.file_id));
    }
    o.push(')');
    o
}

fn error_kind(e: &CFGError) -> &'static str {
    match e {
        CFGError::UndefinedVariableError { .. } => "undefined-variable",
        CFGError::InvalidVariableNameError { .. } => "invalid-name",
        CFGError::ShadowingVariableWarning { .. } => "shadowing",
        CFGError::ParameterNameCollisionError { .. } => "param-collision",
    }
}

fn result_line(r: Option<(Result<Cfg, CFGError>, ReportCollection)>) -> String {
    match r {
        None => "(panic)".to_string(),
        Some((Err(e), _)) => {
            let k = error_kind(&e);
            // the report the CLI displays for this error: code, message (with the name), labels (location, file)
            match guarded(move || report_line(&e.into_report())) {
                Some(rep) => format!("(err {} {})", k, rep),
                None => format!("(err {} (into_report-panics))", k),
            }
        }
        Some((Ok(cfg), reports)) => {
            let reps: Vec<String> = reports.iter().map(report_line).collect();
            format!("(ok X {} C {} R (reports{}{}))", irdump::xcfg(&cfg), irdump::cfg(&cfg),
                    if reps.is_empty() { "" } else { " " }, reps.join(" "))
        }
    }
}

fn short_result(r: Option<(Result<Cfg, CFGError>, ReportCollection)>) -> String {
    match r {
        None => "(panic)".to_string(),
        Some((Err(e), _)) => format!("(err {})", error_kind(&e)),
        Some((Ok(_), _)) => "(ok)".to_string(),
    }
}

fn chain_line(r: Option<(Result<Cfg, CFGError>, ReportCollection)>) -> String {
    match r {
        None => "(chain panic-lift)".to_string(),
        Some((Err(e), _)) => format!("(chain err-lift {})", error_kind(&e)),
        Some((Ok(cfg), _)) => match guarded(move || cfg.into_ssa().is_ok()) {
            None => "(chain panic-ssa)".to_string(),
            Some(false) => "(chain err-ssa)".to_string(),
            Some(true) => "(chain ok)".to_string(),
        },
    }
}

// ---- C12 on the definitions of this engine (third audit) ----

fn span_id(m: &program_structure::ir::Meta) -> String {
    let l = m.file_location();
    format!("{}_{}", l.start, l.end)
}

fn shape(cfg: &Cfg) -> String {
    use program_structure::ir::{Expression, Statement};
    cfg.iter()
        .map(|b| {
            let items: Vec<String> = b
                .iter()
                .map(|s| match s {
                    Statement::IfThenElse { true_index, false_index, .. } => match false_index {
                        Some(f) => format!("C{}>{}/{}", span_id(s.meta()), true_index, f),
                        None => format!("C{}>{}/-", span_id(s.meta()), true_index),
                    },
                    Statement::Substitution { rhe: Expression::Phi { .. }, .. } => "P".to_string(),
                    _ => format!("L{}", span_id(s.meta())),
                })
                .collect();
            let mut preds: Vec<usize> = b.predecessors().iter().cloned().collect();
            let mut succs: Vec<usize> = b.successors().iter().cloned().collect();
            preds.sort_unstable();
            succs.sort_unstable();
            let l = |v: &[usize]| v.iter().map(|x| x.to_string()).collect::<Vec<_>>().join(",");
            format!("B{} d{} [{}] p[{}] s[{}]", b.index(), b.loop_depth(), items.join(" "), l(&preds), l(&succs))
        })
        .collect::<Vec<_>>()
        .join("; ")
}

/// statements and conditions of the body in source order with their syntactic loop nesting (a loop
/// condition counts outside its loop); blocks and initialisation blocks have no item of their own
fn nest(s: &program_structure::ast::Statement, d: usize, out: &mut Vec<String>) {
    use program_structure::ast::Statement::*;
    let id = |m: &program_structure::ast::Meta| format!("{}_{}", m.location.start, m.location.end);
    match s {
        While { meta, stmt, .. } => {
            out.push(format!("{}:{}", id(meta), d));
            nest(stmt, d + 1, out);
        }
        IfThenElse { meta, if_case, else_case, .. } => {
            out.push(format!("{}:{}", id(meta), d));
            nest(if_case, d, out);
            if let Some(e) = else_case {
                nest(e, d, out);
            }
        }
        Block { stmts, .. } => stmts.iter().for_each(|x| nest(x, d, out)),
        InitializationBlock { initializations, .. } => initializations.iter().for_each(|x| nest(x, d, out)),
        other => out.push(format!("{}:{}", id(other.get_meta()), d)),
    }
}

/// the accessors nothing else reads, against the block iterator (as in harness/src/bin/lift.rs)
fn api_check(cfg: &Cfg) -> String {
    let mut bad: Vec<String> = Vec::new();
    let n = cfg.iter().count();
    if cfg.len() != n {
        bad.push(format!("len()={}/iter={}", cfg.len(), n));
    }
    if cfg.is_empty() != (n == 0) {
        bad.push(format!("is_empty()={}", cfg.is_empty()));
    }
    match guarded(|| cfg.entry_block().index()) {
        Some(0) => {}
        Some(i) => bad.push(format!("entry_block().index()={i}")),
        None => bad.push("entry_block()-panics".to_string()),
    }
    if let (Some(first), Some(e)) = (cfg.iter().next(), guarded(|| cfg.entry_block().statements().len())) {
        if first.statements().len() != e {
            bad.push("entry_block()-is-not-the-first-block".to_string());
        }
    }
    for (pos, b) in cfg.iter().enumerate() {
        match cfg.get_basic_block(pos) {
            Some(x) if x.index() == b.index() && x.statements().len() == b.statements().len() => {}
            Some(x) => bad.push(format!("get_basic_block({pos}).index()={}", x.index())),
            None => bad.push(format!("get_basic_block({pos})=None")),
        }
        if b.in_loop() != (b.loop_depth() > 0) {
            bad.push(format!("B{pos}.in_loop()={}/depth={}", b.in_loop(), b.loop_depth()));
        }
        if b.len() != b.iter().count() || b.is_empty() != (b.iter().count() == 0) {
            bad.push(format!("B{pos}.len()={}/iter={}", b.len(), b.iter().count()));
        }
    }
    if cfg.get_basic_block(n).is_some() {
        bad.push(format!("get_basic_block({n})=Some"));
    }
    if bad.is_empty() {
        "ok".to_string()
    } else {
        bad.join(",")
    }
}

/// the WF field of one definition: the real `into_cfg` again (it is a function of the definition), then `into_ssa`
/// mode `c12` (fourth audit): the WF field is followed by `PRE <irdump::cfg before into_ssa>` and `POST <irdump::cfg
/// after into_ssa | - >`, the two REAL graphs with their statements, for the extracted decision procedures of
/// Model.IrCfgCheck (phi_free, cfg_wf, ssa_shape_of); RES is shortened to the decision `(ok)` / `(err KIND ..)` / `(panic)`.
/// mode `c12`: the REAL definition_complexity.rs pass (run through `get_analysis_passes()`, the module is private) on the
/// SSA graph against the formula of the property's anchor, `2 + edges - nodes > 20` with edges = sum of the successor set
/// sizes and nodes = number of blocks (no underflow by C12_complexity_no_underflow): `ok` or the mismatch.
struct NoContext;
impl program_analysis::analysis_context::AnalysisContext for NoContext {
    fn is_function(&self, _: &str) -> bool {
        false
    }
    fn is_template(&self, _: &str) -> bool {
        false
    }
    fn function(&mut self, name: &str) -> Result<&Cfg, program_analysis::analysis_context::AnalysisError> {
        Err(program_analysis::analysis_context::AnalysisError::UnknownFunction { name: name.to_string() })
    }
    fn template(&mut self, name: &str) -> Result<&Cfg, program_analysis::analysis_context::AnalysisError> {
        Err(program_analysis::analysis_context::AnalysisError::UnknownTemplate { name: name.to_string() })
    }
    fn underlying_str(
        &self,
        file_id: &program_structure::file_definition::FileID,
        file_location: &FileLocation,
    ) -> Result<String, program_analysis::analysis_context::AnalysisError> {
        Err(program_analysis::analysis_context::AnalysisError::InvalidLocation {
            file_id: *file_id,
            file_location: file_location.clone(),
        })
    }
}

fn complexity_check(cfg: &Cfg) -> String {
    let nodes = cfg.iter().count();
    let edges: usize = cfg.iter().map(|b| b.successors().len()).sum();
    let expected = edges + 2 > nodes + 20;
    let mut got = false;
    let mut panicked = false;
    for pass in program_analysis::get_analysis_passes() {
        match guarded(|| pass(&mut NoContext, cfg)) {
            Some(reports) => got |= reports.iter().any(|r| r.id() == "CS0011"),
            None => panicked = true,
        }
    }
    if got == expected && !panicked {
        "ok".to_string()
    } else {
        format!("complexity-warning={got}/expected={expected}(edges={edges},nodes={nodes}){}", if panicked { ",a-pass-panics" } else { "" })
    }
}

static C12_DUMPS: std::sync::atomic::AtomicBool = std::sync::atomic::AtomicBool::new(false);

fn c12_mode() -> bool {
    C12_DUMPS.load(std::sync::atomic::Ordering::Relaxed)
}

fn wf_field(body: &program_structure::ast::Statement, lift: impl FnOnce() -> Option<Cfg>) -> String {
    let mut n = Vec::new();
    nest(body, 0, &mut n);
    match guarded(lift) {
        None => format!("(wf {} # panic # - # -)", n.join(" ")),
        Some(None) => format!("(wf {} # error # - # -)", n.join(" ")),
        Some(Some(cfg)) => {
            let before = shape(&cfg);
            let pre_dump = if c12_mode() { irdump::cfg(&cfg) } else { String::new() };
            let mut post_dump = "-".to_string();
            let mut api = api_check(&cfg);
            // fail-safe: into_ssa is skipped on bodies with more than 400 statements and conditions (printed as
            // `skipped` and counted by lib/props/liftfull_engine.py; none in a quick run)
            let after = if n.len() > 400 {
                "skipped".to_string()
            } else {
                match guarded(move || cfg.into_ssa()) {
                    None => "panic".to_string(),
                    Some(Err(_)) => "error".to_string(),
                    Some(Ok(ssa)) => {
                        let a2 = api_check(&ssa);
                        if a2 != "ok" {
                            api = if api == "ok" { format!("ssa:{a2}") } else { format!("{api},ssa:{a2}") };
                        }
                        if c12_mode() {
                            post_dump = irdump::cfg(&ssa);
                            let cx = complexity_check(&ssa);
                            if cx != "ok" {
                                api = if api == "ok" { cx } else { format!("{api},{cx}") };
                            }
                        }
                        shape(&ssa)
                    }
                }
            };
            if c12_mode() {
                return format!("(wf {} # {} # {} # {})\tPRE\t{}\tPOST\t{}", n.join(" "), before, after, api, pre_dump, post_dump);
            }
            format!("(wf {} # {} # {} # {})", n.join(" "), before, after, api)
        }
    }
}

fn run(line: &str, raw: bool, chain: bool) -> String {
    run_with(line, raw, chain, &Curve::default())
}

fn run_with(line: &str, raw: bool, chain: bool, curve: &Curve) -> String {
    let src = unescape(line);
    let mut file_library = FileLibrary::new();
    let file_id = file_library.add_file("memory.circom".to_string(), src.clone(), true);
    let ast = match guarded(|| parse_source(&src, file_id)) {
        None => return "PARSE\tpanic".to_string(),
        Some(Err(_)) => return "PARSE\terror".to_string(),
        Some(Ok(ast)) => ast,
    };
    // the definition maps as TemplateLibrary::new / ProgramArchive build them
    let mut templates: HashMap<String, TemplateData> = HashMap::new();
    let mut functions: HashMap<String, FunctionData> = HashMap::new();
    let mut elem_id = 0;
    for definition in ast.definitions {
        match definition {
            Definition::Function { name, args, arg_location, body, .. } => {
                functions.insert(
                    name.clone(),
                    FunctionData::new(name, file_id, body, args.len(), args, arg_location, &mut elem_id),
                );
            }
            Definition::Template { name, args, arg_location, body, parallel, is_custom_gate, .. } => {
                templates.insert(
                    name.clone(),
                    TemplateData::new(name, file_id, body, args.len(), args, arg_location, &mut elem_id, parallel, is_custom_gate),
                );
            }
        }
    }
    let (templates, functions) = if raw {
        (templates, functions)
    } else {
        let mut reports = ReportCollection::new();
        match guarded(|| remove_syntactic_sugar(&templates, &functions, &file_library, &mut reports)) {
            None => return "SUGAR\tpanic".to_string(),
            Some(r) => r,
        }
    };
    let mut tnames: Vec<&String> = templates.keys().collect();
    tnames.sort();
    let mut fnames: Vec<&String> = functions.keys().collect();
    fnames.sort();
    let mut out: Vec<String> = Vec::new();
    for n in tnames {
        let t = &templates[n];
        let kind = if t.is_custom_gate() { "custom" } else { "template" };
        out.push("DEF".to_string());
        out.push(def_line(kind, n, t.get_name_of_params(), t.get_file_id(), &t.get_param_location(), t.get_body()));
        let r = guarded(|| {
            let mut rs = ReportCollection::new();
            let c = t.into_cfg(curve, &mut rs);
            (c, rs)
        });
        out.push("RES".to_string());
        out.push(if chain { chain_line(r) } else if c12_mode() { short_result(r) } else { result_line(r) });
        if !chain {
            out.push("WF".to_string());
            out.push(wf_field(t.get_body(), || {
                let mut rs = ReportCollection::new();
                t.into_cfg(curve, &mut rs).ok()
            }));
        }
    }
    for n in fnames {
        let f = &functions[n];
        out.push("DEF".to_string());
        out.push(def_line("function", n, f.get_name_of_params(), f.get_file_id(), &f.get_param_location(), f.get_body()));
        let r = guarded(|| {
            let mut rs = ReportCollection::new();
            let c = f.into_cfg(curve, &mut rs);
            (c, rs)
        });
        out.push("RES".to_string());
        out.push(if chain { chain_line(r) } else if c12_mode() { short_result(r) } else { result_line(r) });
        if !chain {
            out.push("WF".to_string());
            out.push(wf_field(f.get_body(), || {
                let mut rs = ReportCollection::new();
                f.into_cfg(curve, &mut rs).ok()
            }));
        }
    }
    if out.is_empty() {
        return "EMPTY".to_string();
    }
    out.join("\t")
}

fn main() {
    silence_panics();
    let raw = std::env::args().nth(1).map(|a| a == "raw").unwrap_or(false);
    let chain = std::env::args().nth(1).map(|a| a == "chain").unwrap_or(false);
    if chain {
        use program_structure::control_flow_graph::verif::{set_degree_pass_budget, set_value_pass_budget};
        use std::str::FromStr;
        let curve = match std::env::args().nth(2) {
            Some(c) => Curve::from_str(&c).expect("chain: unknown curve"),
            None => Curve::default(),
        };
        if let Some(Ok(n)) = std::env::args().nth(3).map(|a| a.parse::<usize>()) {
            set_value_pass_budget(n);
        }
        if let Some(Ok(n)) = std::env::args().nth(4).map(|a| a.parse::<usize>()) {
            set_degree_pass_budget(n);
        }
        let t = std::thread::Builder::new()
            .stack_size(4usize << 30)
            .spawn(move || each_line(|l| run_with(l, false, true, &curve)))
            .expect("chain: cannot start the worker thread");
        t.join().expect("chain: worker thread died");
        return;
    }
    if std::env::args().nth(1).map(|a| a == "c12").unwrap_or(false) {
        C12_DUMPS.store(true, std::sync::atomic::Ordering::Relaxed);
    }
    each_line(|l| run(l, raw, chain));
}
