// Engine `liftfull` (owner: property C13; also serves C04, C08, C01): the
// content-carrying lifting mirror Model.LiftFull against the real `into_cfg`.
//
// Input line: a Circom source with `\n` and `\\` escaped (as for engine `desugar`).
// Mode `desugared` (default): the REAL parser, the REAL `remove_syntactic_sugar`,
// then for every template / function handed on (templates by name, then functions
// by name) two tab-separated fields
//   DEF (def KIND NAME (params P*) FILE|- START END <body: astdump>)      the input of lifting
//   RES (ok X <irdump::xcfg> C <irdump::cfg> R (reports ..)) | (err KIND) | (panic)
// where RES is what `into_cfg` of the REAL implementation returns for that
// definition (before SSA).  Mode `raw`: the same without `remove_syntactic_sugar`
// (tuples, anonymous components and multi-substitutions reach lifting, which
// panics on them: the mirror's panic sites are compared too).
// A line that does not parse gives `PARSE error|panic`, a panic of the desugarer
// `SUGAR panic`.
// Mode `chain` (property C01): as `desugared`, but RES is the OUTCOME CLASS of the
// rest of the real per-definition pipeline, `into_cfg` followed by `into_ssa` (which
// includes type / value / degree propagation and the caching of variable uses):
//   RES (chain ok) | (chain err-lift KIND) | (chain panic-lift) | (chain err-ssa) | (chain panic-ssa)
// compared with what the extracted chain Model.PipelineMirrors.analyse_body answers
// for the same DEF (coq/extract/chain.ml).
use parser::verif::{parse_source, remove_syntactic_sugar};
use program_structure::ast::Definition;
use program_structure::cfg::errors::CFGError;
use program_structure::cfg::{Cfg, IntoCfg};
use program_structure::constants::Curve;
use program_structure::file_definition::{FileLibrary, FileLocation};
use program_structure::function_data::FunctionData;
use program_structure::report::{Report, ReportCollection};
use program_structure::template_data::TemplateData;
use std::collections::HashMap;
use verif_harness::{astdump, each_line, guarded, irdump, silence_panics};

fn unescape(line: &str) -> String {
    let mut o = String::new();
    let mut it = line.chars();
    while let Some(c) = it.next() {
        if c == '\\' {
            match it.next() {
                Some('n') => o.push('\n'),
                Some('\\') => o.push('\\'),
                Some(d) => {
                    o.push('\\');
                    o.push(d)
                }
                None => o.push('\\'),
            }
        } else {
            o.push(c);
        }
    }
    o
}

fn def_line(kind: &str, name: &str, params: &[String], file: usize, loc: &FileLocation, body: &program_structure::ast::Statement) -> String {
    let mut o = format!("(def {} {} (params", kind, name);
    for p in params {
        o.push(' ');
        o.push_str(p);
    }
    o.push_str(&format!(") {} {} {} ", file, loc.start, loc.end));
    astdump::stmt(&mut o, body);
    o.push(')');
    o
}

fn report_line(r: &Report) -> String {
    let mut o = format!("(rep {} {}", r.id(), irdump::hexs(r.message()));
    for l in r.primary() {
        o.push_str(&format!(" (p {} {} {})", l.range.start, l.range.end, l.file_id));
    }
    for l in r.secondary() {
        o.push_str(&format!(" (s {} {} {})", l.range.start, l.range.end, l.file_id));
    }
    o.push(')');
    o
}

fn result_line(r: Option<(Result<Cfg, CFGError>, ReportCollection)>) -> String {
    match r {
        None => "(panic)".to_string(),
        Some((Err(e), _)) => {
            let k = match e {
                CFGError::UndefinedVariableError { .. } => "undefined-variable",
                CFGError::InvalidVariableNameError { .. } => "invalid-name",
                CFGError::ShadowingVariableWarning { .. } => "shadowing",
                CFGError::ParameterNameCollisionError { .. } => "param-collision",
            };
            format!("(err {})", k)
        }
        Some((Ok(cfg), reports)) => {
            let reps: Vec<String> = reports.iter().map(report_line).collect();
            format!("(ok X {} C {} R (reports{}{}))", irdump::xcfg(&cfg), irdump::cfg(&cfg),
                    if reps.is_empty() { "" } else { " " }, reps.join(" "))
        }
    }
}

fn chain_line(r: Option<(Result<Cfg, CFGError>, ReportCollection)>) -> String {
    match r {
        None => "(chain panic-lift)".to_string(),
        Some((Err(_), _)) => {
            let e = result_line(r);
            format!("(chain err-lift {})", e.trim_start_matches("(err ").trim_end_matches(')'))
        }
        Some((Ok(cfg), _)) => match guarded(move || cfg.into_ssa().is_ok()) {
            None => "(chain panic-ssa)".to_string(),
            Some(false) => "(chain err-ssa)".to_string(),
            Some(true) => "(chain ok)".to_string(),
        },
    }
}

fn run(line: &str, raw: bool, chain: bool) -> String {
    let src = unescape(line);
    let mut file_library = FileLibrary::new();
    let file_id = file_library.add_file("memory.circom".to_string(), src.clone(), true);
    let ast = match guarded(|| parse_source(&src, file_id)) {
        None => return "PARSE\tpanic".to_string(),
        Some(Err(_)) => return "PARSE\terror".to_string(),
        Some(Ok(ast)) => ast,
    };
    // the definition maps as TemplateLibrary::new / ProgramArchive build them
    let mut templates: HashMap<String, TemplateData> = HashMap::new();
    let mut functions: HashMap<String, FunctionData> = HashMap::new();
    let mut elem_id = 0;
    for definition in ast.definitions {
        match definition {
            Definition::Function { name, args, arg_location, body, .. } => {
                functions.insert(
                    name.clone(),
                    FunctionData::new(name, file_id, body, args.len(), args, arg_location, &mut elem_id),
                );
            }
            Definition::Template { name, args, arg_location, body, parallel, is_custom_gate, .. } => {
                templates.insert(
                    name.clone(),
                    TemplateData::new(name, file_id, body, args.len(), args, arg_location, &mut elem_id, parallel, is_custom_gate),
                );
            }
        }
    }
    let (templates, functions) = if raw {
        (templates, functions)
    } else {
        let mut reports = ReportCollection::new();
        match guarded(|| remove_syntactic_sugar(&templates, &functions, &file_library, &mut reports)) {
            None => return "SUGAR\tpanic".to_string(),
            Some(r) => r,
        }
    };
    let mut tnames: Vec<&String> = templates.keys().collect();
    tnames.sort();
    let mut fnames: Vec<&String> = functions.keys().collect();
    fnames.sort();
    let mut out: Vec<String> = Vec::new();
    for n in tnames {
        let t = &templates[n];
        let kind = if t.is_custom_gate() { "custom" } else { "template" };
        out.push("DEF".to_string());
        out.push(def_line(kind, n, t.get_name_of_params(), t.get_file_id(), &t.get_param_location(), t.get_body()));
        let r = guarded(|| {
            let mut rs = ReportCollection::new();
            let c = t.into_cfg(&Curve::default(), &mut rs);
            (c, rs)
        });
        out.push("RES".to_string());
        out.push(if chain { chain_line(r) } else { result_line(r) });
    }
    for n in fnames {
        let f = &functions[n];
        out.push("DEF".to_string());
        out.push(def_line("function", n, f.get_name_of_params(), f.get_file_id(), &f.get_param_location(), f.get_body()));
        let r = guarded(|| {
            let mut rs = ReportCollection::new();
            let c = f.into_cfg(&Curve::default(), &mut rs);
            (c, rs)
        });
        out.push("RES".to_string());
        out.push(if chain { chain_line(r) } else { result_line(r) });
    }
    if out.is_empty() {
        return "EMPTY".to_string();
    }
    out.join("\t")
}

fn main() {
    silence_panics();
    let raw = std::env::args().nth(1).map(|a| a == "raw").unwrap_or(false);
    let chain = std::env::args().nth(1).map(|a| a == "chain").unwrap_or(false);
    each_line(|l| run(l, raw, chain));
}
