// Verification harness: runs the *implementation* (crates of /repo, path deps)
// on inputs given on stdin, one case per line, and prints one canonical result
// line per case. A panic is an output value ("panic"), not a crash.
use std::io::{self, BufRead, Write};

mod field;

pub fn silence_panics() {
    std::panic::set_hook(Box::new(|_| {}));
}

fn main() {
    let args: Vec<String> = std::env::args().collect();
    if args.len() < 2 {
        eprintln!("usage: verif-harness <engine> [args]");
        std::process::exit(2);
    }
    silence_panics();
    let stdin = io::stdin();
    let stdout = io::stdout();
    let mut out = io::BufWriter::new(stdout.lock());
    match args[1].as_str() {
        "field" => {
            for line in stdin.lock().lines() {
                let line = line.unwrap();
                let line = line.trim();
                if line.is_empty() {
                    continue;
                }
                writeln!(out, "{}", field::run_line(line)).unwrap();
            }
        }
        "field-sweep" => {
            for p in &args[2..] {
                field::sweep(p.parse().unwrap(), &mut out);
            }
        }
        other => {
            eprintln!("unknown engine {other}");
            std::process::exit(2);
        }
    }
    out.flush().unwrap();
}
