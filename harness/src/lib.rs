// Shared helpers of the verification harness binaries (one binary per engine
// under src/bin, so that engines build and fail independently).
use std::io::{self, BufRead, Write};
use std::panic::{catch_unwind, AssertUnwindSafe};

/// Panics are output values of the engines, never crashes of the harness.
pub fn silence_panics() {
    std::panic::set_hook(Box::new(|_| {}));
}

/// Runs `f`, mapping a panic to `None`.
pub fn guarded<T>(f: impl FnOnce() -> T) -> Option<T> {
    catch_unwind(AssertUnwindSafe(f)).ok()
}

/// Feeds every non-empty stdin line to `f` and prints its result line.
pub fn each_line(mut f: impl FnMut(&str) -> String) {
    let stdin = io::stdin();
    let stdout = io::stdout();
    let mut out = io::BufWriter::new(stdout.lock());
    for line in stdin.lock().lines() {
        let line = line.unwrap();
        let line = line.trim();
        if line.is_empty() {
            continue;
        }
        writeln!(out, "{}", f(line)).unwrap();
    }
    out.flush().unwrap();
}
pub mod irdump;
pub mod astdump;
