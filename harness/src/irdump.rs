//! Canonical S-expression dump of a `Cfg` (pre-SSA or SSA, with whatever
//! value / degree / type knowledge the implementation attached).
//!
//! ident   := hex-encoded UTF-8 bytes, `-` for absent
//! var     := (v NAME SUFFIX|- VERSION|-)
//! know    := (k VAL DEG)        VAL := - | (b 0|1) | (f HEX)    DEG := - | (d c|l|q|n c|l|q|n)
//! expr    := (num HEX K) | (var V K) | (infix OP E E K) | (prefix OP E K) | (switch E E E K)
//!          | (call NAME (E*) K) | (array (E*) K) | (access V (A*) K) | (update V (A*) E K) | (phi (V*) K)
//! A       := (idx E) | (comp NAME)
//! stmt    := (decl M (V*) TYPE (E*)) | (if M E T F|-) | (ret M E) | (subst M V OP E SVAL STYPE)
//!          | (ceq M E E) | (log M (LA*)) | (assert M E)
//! M       := (m START END FILE|-)
//! block   := (block INDEX DEPTH (S*) (PRED*) (SUCC*))
use num_bigint_dig::BigInt;
use program_structure::cfg::{BasicBlock, Cfg, DefinitionType};
use program_structure::ir::degree_meta::{Degree, DegreeRange};
use program_structure::ir::value_meta::ValueReduction;
use program_structure::ir::*;
use program_structure::ssa::traits::DirectedGraphNode;

pub fn hexs(s: &str) -> String {
    if s.is_empty() {
        return "e".to_string(); // empty identifier
    }
    s.bytes().map(|b| format!("{:02x}", b)).collect()
}

pub fn unhex(s: &str) -> String {
    let bytes: Vec<u8> =
        (0..s.len() / 2).map(|i| u8::from_str_radix(&s[2 * i..2 * i + 2], 16).unwrap()).collect();
    String::from_utf8_lossy(&bytes).to_string()
}

pub fn big(v: &BigInt) -> String {
    v.to_str_radix(16)
}

pub fn var(v: &VariableName) -> String {
    format!(
        "(v {} {} {})",
        hexs(v.name()),
        v.suffix().as_ref().map(|s| hexs(s)).unwrap_or("-".to_string()),
        v.version().map(|x| x.to_string()).unwrap_or("-".to_string())
    )
}

pub fn deg(d: Degree) -> &'static str {
    match d {
        Degree::Constant => "c",
        Degree::Linear => "l",
        Degree::Quadratic => "q",
        Degree::NonQuadratic => "n",
    }
}

pub fn range(r: Option<&DegreeRange>) -> String {
    match r {
        None => "-".to_string(),
        Some(r) => format!("(d {} {})", deg(r.start()), deg(r.end())),
    }
}

pub fn val(v: Option<&ValueReduction>) -> String {
    match v {
        None => "-".to_string(),
        Some(ValueReduction::Boolean { value }) => format!("(b {})", *value as u8),
        Some(ValueReduction::FieldElement { value }) => format!("(f {})", big(value)),
    }
}

fn know(m: &Meta) -> String {
    format!("(k {} {})", val(m.value_knowledge().get_reduces_to()), range(m.degree_knowledge().degree()))
}

pub fn meta(m: &Meta) -> String {
    format!(
        "(m {} {} {})",
        m.start(),
        m.end(),
        m.file_id().map(|x| x.to_string()).unwrap_or("-".to_string())
    )
}

pub fn infix(op: &ExpressionInfixOpcode) -> &'static str {
    use ExpressionInfixOpcode::*;
    match op {
        Mul => "mul",
        Div => "div",
        Add => "add",
        Sub => "sub",
        Pow => "pow",
        IntDiv => "idiv",
        Mod => "mod",
        ShiftL => "shl",
        ShiftR => "shr",
        LesserEq => "le",
        GreaterEq => "ge",
        Lesser => "lt",
        Greater => "gt",
        Eq => "eq",
        NotEq => "neq",
        BoolOr => "or",
        BoolAnd => "and",
        BitOr => "bor",
        BitAnd => "band",
        BitXor => "bxor",
    }
}

pub fn prefix(op: &ExpressionPrefixOpcode) -> &'static str {
    use ExpressionPrefixOpcode::*;
    match op {
        BoolNot => "not",
        Sub => "neg",
        Complement => "compl",
    }
}

fn access(a: &[AccessType]) -> String {
    let parts: Vec<String> = a
        .iter()
        .map(|x| match x {
            AccessType::ArrayAccess(e) => format!("(idx {})", expr(e)),
            AccessType::ComponentAccess(n) => format!("(comp {})", hexs(n)),
        })
        .collect();
    format!("({})", parts.join(" "))
}

fn exprs(es: &[Expression]) -> String {
    format!("({})", es.iter().map(expr).collect::<Vec<_>>().join(" "))
}

pub fn expr(e: &Expression) -> String {
    use Expression::*;
    let k = know(e.meta());
    match e {
        Number(_, v) => format!("(num {} {})", big(v), k),
        Variable { name, .. } => format!("(var {} {})", var(name), k),
        InfixOp { lhe, infix_op, rhe, .. } => {
            format!("(infix {} {} {} {})", infix(infix_op), expr(lhe), expr(rhe), k)
        }
        PrefixOp { prefix_op, rhe, .. } => format!("(prefix {} {} {})", prefix(prefix_op), expr(rhe), k),
        SwitchOp { cond, if_true, if_false, .. } => {
            format!("(switch {} {} {} {})", expr(cond), expr(if_true), expr(if_false), k)
        }
        Call { name, args, .. } => format!("(call {} {} {})", hexs(name), exprs(args), k),
        InlineArray { values, .. } => format!("(array {} {})", exprs(values), k),
        Access { var: v, access: a, .. } => format!("(access {} {} {})", var(v), access(a), k),
        Update { var: v, access: a, rhe, .. } => {
            format!("(update {} {} {} {})", var(v), access(a), expr(rhe), k)
        }
        Phi { args, .. } => {
            format!("(phi ({}) {})", args.iter().map(var).collect::<Vec<_>>().join(" "), k)
        }
    }
}

pub fn vtype(t: &VariableType) -> String {
    use SignalType::*;
    use VariableType::*;
    match t {
        Local => "local".to_string(),
        Component => "component".to_string(),
        AnonymousComponent => "anoncomponent".to_string(),
        Signal(Input, _) => "sigin".to_string(),
        Signal(Output, _) => "sigout".to_string(),
        Signal(Intermediate, _) => "sigint".to_string(),
    }
}

pub fn stmt(s: &Statement) -> String {
    use Statement::*;
    let m = meta(s.meta());
    match s {
        Declaration { names, var_type, dimensions, .. } => format!(
            "(decl {} ({}) {} {})",
            m,
            names.iter().map(var).collect::<Vec<_>>().join(" "),
            vtype(var_type),
            exprs(dimensions)
        ),
        IfThenElse { cond, true_index, false_index, .. } => format!(
            "(if {} {} {} {})",
            m,
            expr(cond),
            true_index,
            false_index.map(|x| x.to_string()).unwrap_or("-".to_string())
        ),
        Return { value, .. } => format!("(ret {} {})", m, expr(value)),
        Substitution { meta: sm, var: v, op, rhe } => {
            let op = match op {
                AssignOp::AssignSignal => "sig",
                AssignOp::AssignConstraintSignal => "csig",
                AssignOp::AssignLocalOrComponent => "var",
            };
            let st = sm.type_knowledge().variable_type().map(vtype).unwrap_or("-".to_string());
            format!(
                "(subst {} {} {} {} {} {})",
                m,
                var(v),
                op,
                expr(rhe),
                val(sm.value_knowledge().get_reduces_to()),
                st
            )
        }
        ConstraintEquality { lhe, rhe, .. } => format!("(ceq {} {} {})", m, expr(lhe), expr(rhe)),
        LogCall { args, .. } => {
            let parts: Vec<String> = args
                .iter()
                .map(|a| match a {
                    LogArgument::String(_) => "(str)".to_string(),
                    LogArgument::Expr(e) => format!("(e {})", expr(e)),
                })
                .collect();
            format!("(log {} ({}))", m, parts.join(" "))
        }
        Assert { arg, .. } => format!("(assert {} {})", m, expr(arg)),
    }
}

fn sorted(s: &std::collections::HashSet<usize>) -> String {
    let mut v: Vec<usize> = s.iter().cloned().collect();
    v.sort_unstable();
    format!("({})", v.iter().map(|x| x.to_string()).collect::<Vec<_>>().join(" "))
}

pub fn block(b: &BasicBlock) -> String {
    format!(
        "(block {} {} ({}) {} {})",
        b.index(),
        b.loop_depth(),
        b.iter().map(stmt).collect::<Vec<_>>().join(" "),
        sorted(DirectedGraphNode::predecessors(b)),
        sorted(DirectedGraphNode::successors(b))
    )
}

pub fn cfg(c: &Cfg) -> String {
    let kind = match c.definition_type() {
        DefinitionType::Function => "function",
        DefinitionType::Template => "template",
        DefinitionType::CustomTemplate => "custom",
    };
    let mut decls: Vec<String> = c
        .declarations()
        .iter()
        .map(|(n, d)| format!("({} {})", var(n), vtype(d.variable_type())))
        .collect();
    decls.sort();
    format!(
        "(cfg {} (params {}) (decls {}) (blocks {}))",
        kind,
        c.parameters().iter().map(var).collect::<Vec<_>>().join(" "),
        decls.join(" "),
        c.iter().map(block).collect::<Vec<_>>().join(" ")
    )
}

/// Immediate dominators as the implementation's dominator tree has them:
/// `(idom I0 I1 ...)` with `-` for the entry block.
pub fn idoms(c: &Cfg) -> String {
    let parts: Vec<String> = c
        .iter()
        .map(|b| c.get_immediate_dominator(b).map(|d| d.index().to_string()).unwrap_or("-".to_string()))
        .collect();
    format!("(idom {})", parts.join(" "))
}

/// Dominance frontiers and dominator-tree children of every block, sorted:
/// `(dominfo (frontier (F..) (F..) ..) (children (C..) (C..) ..))`.
pub fn dominfo(c: &Cfg) -> String {
    let list = |v: Vec<&BasicBlock>| {
        let mut x: Vec<usize> = v.iter().map(|b| b.index()).collect();
        x.sort_unstable();
        format!("({})", x.iter().map(|i| i.to_string()).collect::<Vec<_>>().join(" "))
    };
    let fr: Vec<String> = c.iter().map(|b| list(c.get_dominance_frontier(b))).collect();
    let ch: Vec<String> = c.iter().map(|b| list(c.get_dominator_successors(b))).collect();
    format!("(dominfo (frontier {}) (children {}))", fr.join(" "), ch.join(" "))
}

// ---------------------------------------------------------------------------
// Rich dump (engine `liftfull`): like `cfg`, but with the meta of EVERY node
// (expressions included) instead of the value/degree knowledge, the log strings,
// the signal tags, the block metas, the parameter location and the complete
// declaration records.
//
// xexpr  := (num M HEX) | (var M V) | (infix M OP E E) | (prefix M OP E) | (switch M E E E)
//         | (call M NAME (E*)) | (array M (E*)) | (access M V (A*)) | (update M V (A*) E) | (phi M (V*))
// xtype  := local | component | anoncomponent | (sigin TAG*) | (sigout TAG*) | (sigint TAG*)      TAG hex
// xstmt  := (decl M (V*) XTYPE (E*)) | (if M E T F|-) | (ret M E) | (subst M V OP E XTYPE|-)
//         | (ceq M E E) | (log M (LA*)) | (assert M E)          LA := (str HEX) | (e E)
// xblock := (block M INDEX DEPTH (S*) (PRED*) (SUCC*))
// xdecl  := (V XTYPE (E*) FILE|- START END)
// xcfg   := (xcfg KIND (params V*) FILE|- START END (decls XDECL*) (blocks XBLOCK*))
// ---------------------------------------------------------------------------

fn xaccess(a: &[AccessType]) -> String {
    let parts: Vec<String> = a
        .iter()
        .map(|x| match x {
            AccessType::ArrayAccess(e) => format!("(idx {})", xexpr(e)),
            AccessType::ComponentAccess(n) => format!("(comp {})", hexs(n)),
        })
        .collect();
    format!("({})", parts.join(" "))
}

fn xexprs(es: &[Expression]) -> String {
    format!("({})", es.iter().map(xexpr).collect::<Vec<_>>().join(" "))
}

pub fn xexpr(e: &Expression) -> String {
    use Expression::*;
    let m = meta(e.meta());
    match e {
        Number(_, v) => format!("(num {} {})", m, big(v)),
        Variable { name, .. } => format!("(var {} {})", m, var(name)),
        InfixOp { lhe, infix_op, rhe, .. } => {
            format!("(infix {} {} {} {})", m, infix(infix_op), xexpr(lhe), xexpr(rhe))
        }
        PrefixOp { prefix_op, rhe, .. } => format!("(prefix {} {} {})", m, prefix(prefix_op), xexpr(rhe)),
        SwitchOp { cond, if_true, if_false, .. } => {
            format!("(switch {} {} {} {})", m, xexpr(cond), xexpr(if_true), xexpr(if_false))
        }
        Call { name, args, .. } => format!("(call {} {} {})", m, hexs(name), xexprs(args)),
        InlineArray { values, .. } => format!("(array {} {})", m, xexprs(values)),
        Access { var: v, access: a, .. } => format!("(access {} {} {})", m, var(v), xaccess(a)),
        Update { var: v, access: a, rhe, .. } => {
            format!("(update {} {} {} {})", m, var(v), xaccess(a), xexpr(rhe))
        }
        Phi { args, .. } => {
            format!("(phi {} ({}))", m, args.iter().map(var).collect::<Vec<_>>().join(" "))
        }
    }
}

pub fn xvtype(t: &VariableType) -> String {
    use SignalType::*;
    use VariableType::*;
    let sig = |k: &str, tags: &Vec<String>| {
        let mut o = format!("({}", k);
        for t in tags {
            o.push(' ');
            o.push_str(&hexs(t));
        }
        o.push(')');
        o
    };
    match t {
        Local => "local".to_string(),
        Component => "component".to_string(),
        AnonymousComponent => "anoncomponent".to_string(),
        Signal(Input, tags) => sig("sigin", tags),
        Signal(Output, tags) => sig("sigout", tags),
        Signal(Intermediate, tags) => sig("sigint", tags),
    }
}

pub fn xstmt(s: &Statement) -> String {
    use Statement::*;
    let m = meta(s.meta());
    match s {
        Declaration { names, var_type, dimensions, .. } => format!(
            "(decl {} ({}) {} {})",
            m,
            names.iter().map(var).collect::<Vec<_>>().join(" "),
            xvtype(var_type),
            xexprs(dimensions)
        ),
        IfThenElse { cond, true_index, false_index, .. } => format!(
            "(if {} {} {} {})",
            m,
            xexpr(cond),
            true_index,
            false_index.map(|x| x.to_string()).unwrap_or("-".to_string())
        ),
        Return { value, .. } => format!("(ret {} {})", m, xexpr(value)),
        Substitution { meta: sm, var: v, op, rhe } => {
            let op = match op {
                AssignOp::AssignSignal => "sig",
                AssignOp::AssignConstraintSignal => "csig",
                AssignOp::AssignLocalOrComponent => "var",
            };
            let st = sm.type_knowledge().variable_type().map(xvtype).unwrap_or("-".to_string());
            format!("(subst {} {} {} {} {})", m, var(v), op, xexpr(rhe), st)
        }
        ConstraintEquality { lhe, rhe, .. } => format!("(ceq {} {} {})", m, xexpr(lhe), xexpr(rhe)),
        LogCall { args, .. } => {
            let parts: Vec<String> = args
                .iter()
                .map(|a| match a {
                    LogArgument::String(s) => format!("(str {})", hexs(s)),
                    LogArgument::Expr(e) => format!("(e {})", xexpr(e)),
                })
                .collect();
            format!("(log {} ({}))", m, parts.join(" "))
        }
        Assert { arg, .. } => format!("(assert {} {})", m, xexpr(arg)),
    }
}

pub fn xblock(b: &BasicBlock) -> String {
    format!(
        "(block {} {} {} ({}) {} {})",
        meta(b.meta()),
        b.index(),
        b.loop_depth(),
        b.iter().map(xstmt).collect::<Vec<_>>().join(" "),
        sorted(DirectedGraphNode::predecessors(b)),
        sorted(DirectedGraphNode::successors(b))
    )
}

pub fn xcfg(c: &Cfg) -> String {
    let kind = match c.definition_type() {
        DefinitionType::Function => "function",
        DefinitionType::Template => "template",
        DefinitionType::CustomTemplate => "custom",
    };
    let mut decls: Vec<String> = c
        .declarations()
        .iter()
        .map(|(n, d)| {
            let loc = d.file_location();
            format!(
                "({} {} {} {} {} {})",
                var(n),
                xvtype(d.variable_type()),
                xexprs(d.dimensions()),
                d.file_id().map(|x| x.to_string()).unwrap_or("-".to_string()),
                loc.start,
                loc.end
            )
        })
        .collect();
    decls.sort();
    let p = c.parameters();
    format!(
        "(xcfg {} (params {}) {} {} {} (decls {}) (blocks {}))",
        kind,
        p.iter().map(var).collect::<Vec<_>>().join(" "),
        p.file_id().map(|x| x.to_string()).unwrap_or("-".to_string()),
        p.file_location().start,
        p.file_location().end,
        decls.join(" "),
        c.iter().map(xblock).collect::<Vec<_>>().join(" ")
    )
}
