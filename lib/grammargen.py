"""Grammar-based generator over the whole Circom 2.0.0-2.1.4 grammar as written
in parser/src/lang.lalrpop (every non-terminal and every alternative of it has
a production here, named after the grammar), used by the C01 totality engine.

Sentences are derived top-down from the grammar levels themselves
(ParseStatement0 / ParseStmt0NB / ParseStatement1 / ParseStatement2 /
ParseStatement3, Expression14 .. Expression0), so every output is accepted by
the LALRPOP automaton by construction (tokens are separated by blanks, so the
lexer cannot merge them). A scope of declared names makes most programs pass
unique-variable renaming, lifting and SSA, so that propagation and the passes
run; with probability `wild` a name / construct is drawn without regard to the
scope (undeclared names, assignments to expressions, tuples and anonymous
components in odd places, returns in templates ...), which is still
grammar-valid.

The use of every production is counted (`Gen.counts`): the measured production
frequencies are reported in the evidence of C01."""
import collections

KEYWORDS = {"signal", "input", "output", "public", "template", "component", "var", "function", "return", "if",
            "else", "for", "while", "do", "log", "assert", "include", "pragma", "circom", "parallel", "custom",
            "main", "custom_templates"}

INFIX = {  # tier -> operators (InfixOpTier<Op, Next>)
    12: ["||"], 11: ["&&"], 10: ["==", "!=", "<", ">", "<=", ">="], 9: ["|"], 8: ["^"], 7: ["&"],
    6: ["<<", ">>"], 5: ["+", "-"], 4: ["*", "/", "\\", "%"], 3: ["**"],
}
PREFIX = ["!", "~", "-"]
OPASSIGN = ["\\=", "**=", "+=", "-=", "*=", "/=", "%=", "<<=", ">>=", "&=", "|=", "^="]

# production weights (relative, per choice point). The *measured* frequencies
# of a run are in Gen.counts.
W_STMT2 = {"for_decl": 5, "for_subst": 2, "while": 4, "return": 3, "subst": 30, "constraint_eq": 8, "log": 5,
           "assert": 4, "expr_stmt": 3, "block": 5}
W_STMT3 = {"declaration": 40, "statement": 60}
W_DECL = {"var_tuple": 3, "signal_tuple": 3, "component_tuple": 1, "var": 40, "component": 10, "signal_constraint": 25,
          "signal_simple": 8}
W_SUBST = {"assign": 50, "rarrow": 4, "rconstraint": 5, "opassign": 12, "plusplus": 5, "subsub": 3}
W_EXPR = {"parallel": 1, "ternary": 5, "infix": 40, "prefix": 8, "anon": 3, "call": 5, "array": 4, "tuple": 2,
          "variable": 40, "underscore": 1, "dec": 25, "hex": 4, "paren": 6}
W_IF = {"if_nb_nb": 2, "if_nb_closed": 4, "if_nb_else_nb": 2, "if_else_closed": 6, "stmt2": 30}


class Gen:
    def __init__(self, rng, max_depth=5, wild=0.12, max_stmts=6, sugar=0.06):
        self.rng = rng
        self.max_depth = max_depth
        self.wild = wild
        self.max_stmts = max_stmts
        # probability that a read index / call argument / dimension / condition is DELIBERATELY a
        # tuple or an anonymous component (the places where the desugarer must reject the sugar it
        # cannot remove; a traversal that skips one of them lets it through to IR lifting, whose
        # catch-all arms panic: seeded change C01-variable-index-not-searched)
        self.sugar = sugar
        self.counts = collections.Counter()
        self.fresh = 0
        self.templates = []   # (name, nparams, inputs, outputs, custom)
        self.functions = []   # (name, nparams)
        self.scope = None
        self.in_function = False

    # ---------------------------------------------------------------- helpers
    def pick(self, table, exclude=()):
        items = [(k, w) for k, w in table.items() if k not in exclude]
        tot = sum(w for _, w in items)
        x = self.rng.random() * tot
        for k, w in items:
            x -= w
            if x <= 0:
                return k
        return items[-1][0]

    def use(self, name):
        self.counts[name] += 1

    def chance(self, p):
        return self.rng.random() < p

    def ident(self, stem="v"):
        self.fresh += 1
        style = self.rng.random()
        if style < 0.85:
            return "%s%d" % (stem, self.fresh)
        if style < 0.9:
            return "_%s%d" % (stem, self.fresh)
        if style < 0.95:
            return "$%s_%d$" % (stem, self.fresh)
        return "%s%d_%d" % (stem, self.fresh, self.rng.randrange(3))   # looks like an SSA/renamed name

    def number(self):
        r = self.rng.random()
        if r < 0.55:
            return str(self.rng.randrange(10))
        if r < 0.8:
            return str(self.rng.randrange(1 << 16))
        if r < 0.9:
            return str(self.rng.choice([254, 255, 256, 253, 64, 63, 65, 1 << 32, (1 << 64) - 1, 1 << 64]))
        if r < 0.95:
            return str(self.rng.choice([
                21888242871839275222246405745257275088548364400416034343698204186575808495617,
                21888242871839275222246405745257275088548364400416034343698204186575808495616,
                52435875175126190479447740508185965837690552500527637822603658699938581184513,
                18446744069414584321, 18446744069414584320, (1 << 256) - 1, 1 << 300]))
        return "0" * self.rng.randrange(1, 4) + str(self.rng.randrange(1 << 70))

    def hexnumber(self):
        n = self.rng.choice([1, 2, 4, 8, 16, 64, 70])
        digits = "".join(self.rng.choice("0123456789abcdefABCDEF") for _ in range(n))
        return "0x" + digits

    def string(self):
        r = self.rng.random()
        if r < 0.5:
            return '"%s"' % self.rng.choice(["x", "value", "a b c", "", "%d", "{}", "\\n", "'", "// no comment", "/* x */"])
        if r < 0.7:
            return '"%s"' % ("é" * self.rng.randrange(100, 140))
        if r < 0.8:
            return '"%s"' % ("a" * self.rng.randrange(225, 240) + "€" * self.rng.randrange(1, 90))
        if r < 0.9:
            return '"%s"' % ("x" * self.rng.randrange(228, 233) + "\U0001F600" * self.rng.randrange(1, 70))
        return '"%s"' % "".join(self.rng.choice("ab é€\U0001F600\t\n") for _ in range(self.rng.randrange(0, 300)))

    # ------------------------------------------------------------------ scope
    def push(self):
        self.scope.append({"var": [], "sig": [], "comp": [], "arr": []})

    def pop(self):
        self.scope.pop()

    def declared(self, kind):
        out = []
        for fr in self.scope:
            out.extend(fr[kind])
        return out

    def some_name(self, kinds=("var", "sig")):
        names = []
        for k in kinds:
            names.extend(self.declared(k))
        if not names or self.chance(self.wild):
            return self.rng.choice(["u", "w", "undeclared", "in", "out", "x", "i", "n"] + names)
        return self.rng.choice(names)

    # ------------------------------------------------------------ expressions
    # an expression is returned as (tier, text); `at(tier, e)` parenthesises it
    # when it is used where the grammar wants a lower tier.
    def at(self, tier, e):
        t, s = e
        if t <= tier:
            return s
        self.use("Expression0:paren(forced)")
        return "( " + s + " )"

    def expr(self, d=0):
        """ParseExpression"""
        if d >= self.max_depth:
            kind = self.pick({k: W_EXPR[k] for k in ("variable", "dec", "hex", "underscore")})
        else:
            kind = self.pick(W_EXPR)
        self.use("Expression:" + kind)
        if kind == "parallel":
            return (14, "parallel " + self.at(13, self.expr(d + 1)))
        if kind == "ternary":
            return (13, "%s ? %s : %s" % (self.at(12, self.expr(d + 1)), self.at(12, self.expr(d + 1)),
                                         self.at(12, self.expr(d + 1))))
        if kind == "infix":
            tier = self.rng.choice(list(INFIX))
            op = self.rng.choice(INFIX[tier])
            self.use("InfixOp:" + op)
            return (tier, "%s %s %s" % (self.at(tier, self.expr(d + 1)), op, self.at(tier - 1, self.expr(d + 1))))
        if kind == "prefix":
            op = self.rng.choice(PREFIX)
            self.use("PrefixOp:" + op)
            return (2, "%s %s" % (op, self.at(1, self.expr(d + 1))))
        if kind == "anon":
            return (1, self.anon(d))
        if kind == "call":
            if self.functions and not self.chance(self.wild):
                name, n = self.rng.choice(self.functions)
            else:
                name, n = self.rng.choice(["f", "g", "nbits", "undefinedFn"]), self.rng.randrange(0, 3)
            return (1, "%s ( %s )" % (name, " , ".join(self.hole(d, "call_arg") for _ in range(n))))
        if kind == "array":
            n = self.rng.randrange(1, 4)
            return (1, "[ %s ]" % " , ".join(self.at(14, self.expr(d + 1)) for _ in range(n)))
        if kind == "tuple":
            n = self.rng.randrange(2, 4)
            return (1, "( %s )" % " , ".join(self.at(14, self.expr(d + 1)) for _ in range(n)))
        if kind == "variable":
            return (0, self.variable(d))
        if kind == "underscore":
            return (0, "_")
        if kind == "dec":
            return (0, self.number())
        if kind == "hex":
            return (0, self.hexnumber())
        return (0, "( " + self.at(14, self.expr(d + 1)) + " )")

    def hole(self, d, where, leafy=False):
        """The expression of a position named `where` (index / call_arg / dimension / condition):
        with probability self.sugar a tuple or an anonymous component, bare or one operator deep;
        otherwise an ordinary expression (a leaf when `leafy`). Returns text at tier 14."""
        if self.chance(self.sugar):
            r = self.rng.random()
            if r < 0.4:
                n = self.rng.randrange(2, 4)
                sug = "( %s )" % " , ".join(self.at(14, self.expr(self.max_depth)) for _ in range(n))
                form = "tuple"
            elif r < 0.9:
                sug = self.anon(self.max_depth)
                form = "anon"
            else:
                sug = "parallel " + self.anon(self.max_depth)
                form = "parallel_anon"
            wrap = self.rng.random()
            if wrap < 0.5 or form == "parallel_anon":
                text = sug
            elif wrap < 0.75:
                text = "%s + %s" % (self.number(), sug)
            else:
                a = self.declared("arr")
                text = ("%s [ %s ]" % (self.rng.choice(a), sug)) if a else ("- " + sug)
            self.use("SugarIn:%s:%s" % (where, form))
            return text
        return self.at(14, self.expr(self.max_depth if leafy else d + 1))

    def variable(self, d, kinds=("var", "sig")):
        """ParseVariable: IDENTIFIER ParseVarAccess*"""
        r = self.rng.random()
        comps = self.declared("comp")
        arrs = self.declared("arr")
        if comps and r < 0.15:
            c = self.rng.choice(comps)
            self.use("ParseVarAccess:component")
            s = c + " . " + self.rng.choice(["out", "in", "a", "b"])
            if self.chance(0.2):
                s += " [ " + self.hole(d, "index") + " ]"
            return s
        if arrs and r < 0.4:
            a = self.rng.choice(arrs)
            self.use("ParseVarAccess:array")
            return a + " [ " + self.hole(d, "index", leafy=(d + 1 < self.max_depth and self.chance(0.7))) + " ]"
        s = self.some_name(kinds)
        if self.chance(self.wild * 0.5):
            self.use("ParseVarAccess:wild")
            for _ in range(self.rng.randrange(1, 3)):
                s += self.rng.choice([" . tag", " [ 0 ]", " [ " + self.at(14, self.expr(d + 1)) + " ]"])
        return s

    def anon(self, d):
        """IDENTIFIER ( Listable? ) ( ListableAnon? )"""
        if self.templates and not self.chance(self.wild):
            name, nparams, ins, outs, custom = self.rng.choice(self.templates)
        else:
            name, nparams, ins = self.rng.choice(["T", "Num2Bits", "LessThan", "Undefined"]), self.rng.randrange(0, 2), ["in"]
        params = " , ".join(self.at(14, self.expr(d + 1)) for _ in range(nparams))
        r = self.rng.random()
        if r < 0.15 or not ins:
            self.use("ListableAnon:none")
            args = ""
        elif r < 0.6:
            self.use("ListableAnon:Listable")
            args = " , ".join(self.at(14, self.expr(d + 1)) for _ in ins)
        else:
            self.use("ListableAnon:ListableWithInputNames")
            args = " , ".join("%s %s %s" % (i, self.rng.choice(["<==", "<--", "="] if self.chance(self.wild) else ["<==", "<=="
                                                                                                                 , "<--"]),
                                             self.at(14, self.expr(d + 1))) for i in ins)
        return "%s ( %s ) ( %s )" % (name, params, args)

    # ------------------------------------------------------------- statements
    def block(self, d, n=None):
        """ParseBlock: { ParseStatement3* }"""
        self.use("ParseBlock")
        self.push()
        k = self.rng.randrange(0, self.max_stmts + 1) if n is None else n
        if d >= self.max_depth:
            k = min(k, 2)
        body = [self.stmt3(d + 1) for _ in range(k)]
        self.pop()
        return "{ " + " ".join(body) + " }"

    def stmt3(self, d):
        """ParseStatement3: ParseDeclaration ; | ParseStatement"""
        kind = self.pick(W_STMT3)
        self.use("ParseStatement3:" + kind)
        if kind == "declaration":
            return self.declaration(d) + " ;"
        return self.stmt0(d)

    def stmt0(self, d):
        """ParseStatement0: ParseStmt0NB | ParseStatement1"""
        if d >= self.max_depth:
            return self.stmt2(d)
        kind = self.pick(W_IF)
        if kind in ("if_nb_nb", "if_nb_closed", "if_nb_else_nb"):
            return self.stmt0nb(d, kind)
        return self.stmt1(d, kind)

    def cond(self, d):
        return "( " + self.hole(max(d, self.max_depth - 2) - 1, "condition") + " )"

    def stmt0nb(self, d, kind=None):
        """ParseStmt0NB: the three `if` forms whose last branch is open"""
        if d >= self.max_depth:
            kind = "if_nb_closed"
        kind = kind or self.pick({k: W_IF[k] for k in ("if_nb_nb", "if_nb_closed", "if_nb_else_nb")})
        self.use("ParseStmt0NB:" + kind)
        if kind == "if_nb_nb":
            return "if %s %s" % (self.cond(d), self.stmt0nb(d + 1))
        if kind == "if_nb_closed":
            return "if %s %s" % (self.cond(d), self.stmt1(d + 1))
        return "if %s %s else %s" % (self.cond(d), self.stmt1(d + 1), self.stmt0nb(d + 1))

    def stmt1(self, d, kind=None):
        """ParseStatement1: if (c) Stmt1 else Stmt1 | ParseStatement2"""
        if d >= self.max_depth:
            kind = "stmt2"
        kind = kind or self.pick({k: W_IF[k] for k in ("if_else_closed", "stmt2")})
        if kind == "if_else_closed":
            self.use("ParseStatement1:if_else")
            return "if %s %s else %s" % (self.cond(d), self.stmt1(d + 1), self.stmt1(d + 1))
        return self.stmt2(d)

    def stmt2(self, d):
        """ParseStatement2"""
        excl = ()
        if d >= self.max_depth:
            excl = ("for_decl", "for_subst", "while", "block")
        if not self.in_function and not self.chance(self.wild):
            excl = excl + ("return",)
        kind = self.pick(W_STMT2, excl)
        self.use("ParseStatement2:" + kind)
        if kind == "for_decl":
            self.push()
            i = self.ident("i")
            self.scope[-1]["var"].append(i)
            s = "for ( var %s = 0 ; %s < %s ; %s ) %s" % (i, i, self.at(9, self.expr(self.max_depth)), self.step(i, d),
                                                         self.stmt2(d + 1))
            self.pop()
            return s
        if kind == "for_subst":
            i = self.some_name(("var",))
            return "for ( %s = 0 ; %s < %s ; %s ) %s" % (i, i, self.number(), self.step(i, d), self.stmt2(d + 1))
        if kind == "while":
            return "while %s %s" % (self.cond(d), self.stmt2(d + 1))
        if kind == "return":
            return "return %s ;" % self.at(14, self.expr(d + 1))
        if kind == "subst":
            return self.substitution(d) + " ;"
        if kind == "constraint_eq":
            return "%s === %s ;" % (self.at(14, self.expr(d + 1)), self.at(14, self.expr(d + 1)))
        if kind == "log":
            n = self.rng.randrange(0, 4)
            args = []
            for _ in range(n):
                if self.chance(0.4):
                    self.use("ParseLogArgument:string")
                    args.append(self.string())
                else:
                    self.use("ParseLogArgument:expression")
                    args.append(self.at(14, self.expr(d + 1)))
            return "log ( %s ) ;" % " , ".join(args)
        if kind == "assert":
            return "assert ( %s ) ;" % self.at(14, self.expr(d + 1))
        if kind == "expr_stmt":
            if self.chance(0.7):
                return self.anon(d) + " ;"
            return self.at(14, self.expr(d + 1)) + " ;"
        return self.block(d)

    def step(self, i, d):
        r = self.rng.random()
        if r < 0.6:
            return i + " ++"
        if r < 0.7:
            return i + " --"
        if r < 0.9:
            return "%s += %s" % (i, self.number())
        return "%s = %s + 1" % (i, i)

    def substitution(self, d):
        """ParseSubstitution"""
        kind = self.pick(W_SUBST)
        self.use("ParseSubstitution:" + kind)
        wild = self.chance(self.wild)
        if kind == "assign":
            op = self.rng.choice(["=", "=", "<--", "<=="])
            self.use("ParseAssignOp:" + op)
            if wild:
                lhs = self.at(14, self.expr(d + 1))      # MultiSubstitution / tuple on the left
            elif op == "=":
                lhs = self.variable(d, ("var",))
            else:
                lhs = self.variable(d, ("sig",))
            return "%s %s %s" % (lhs, op, self.at(14, self.expr(d + 1)))
        if kind == "rarrow":
            rhs = self.at(14, self.expr(d + 1)) if wild else self.variable(d, ("sig",))
            return "%s --> %s" % (self.at(14, self.expr(d + 1)), rhs)
        if kind == "rconstraint":
            rhs = self.at(14, self.expr(d + 1)) if wild else self.variable(d, ("sig",))
            return "%s ==> %s" % (self.at(14, self.expr(d + 1)), rhs)
        v = self.variable(d, ("var",))
        if kind == "opassign":
            op = self.rng.choice(OPASSIGN)
            self.use("OpAssign:" + op)
            return "%s %s %s" % (v, op, self.at(14, self.expr(d + 1)))
        if kind == "plusplus":
            return v + " ++"
        return v + " --"

    def dims(self, d):
        n = self.rng.choice([0, 0, 0, 1, 1, 2])
        return "".join(" [ %s ]" % self.hole(d, "dimension", leafy=True) for _ in range(n)), n

    def signal_header(self):
        """SignalHeader: signal ParseSignalType? ParseTagsList?"""
        if self.in_function and not self.chance(self.wild):
            return None
        st = self.rng.choice(["", "", " input", " output"])
        self.use("ParseSignalType:" + (st.strip() or "intermediate"))
        tags = ""
        if self.chance(0.1):
            self.use("ParseTagsList")
            tags = " { %s }" % " , ".join(self.rng.choice(["binary", "maxbit", "t"]) for _ in range(self.rng.randrange(1, 3)))
        return "signal" + st + tags

    def declare(self, kind, stem):
        n = self.ident(stem)
        if self.chance(self.wild * 0.5):       # shadowing / redeclaration
            prev = self.declared(kind)
            if prev:
                n = self.rng.choice(prev)
        return n

    def declaration(self, d):
        """ParseDeclaration (7 alternatives)"""
        kind = self.pick(W_DECL)
        hdr = None
        if kind.startswith("signal"):
            hdr = self.signal_header()
            if hdr is None:
                kind = "var"
        self.use("ParseDeclaration:" + kind)
        fr = self.scope[-1]
        if kind in ("var_tuple", "signal_tuple", "component_tuple"):
            k = {"var_tuple": "var", "signal_tuple": "sig", "component_tuple": "comp"}[kind]
            names = [self.declare(k, k[0]) for _ in range(self.rng.randrange(1, 4))]
            head = {"var_tuple": "var", "signal_tuple": hdr, "component_tuple": "component"}[kind]
            s = "%s ( %s )" % (head, " , ".join(names))
            if self.chance(0.7):
                op = {"var_tuple": "=", "signal_tuple": self.rng.choice(["<==", "<--"]), "component_tuple": "="}[kind]
                if self.chance(self.wild):
                    op = self.rng.choice(["=", "<==", "<--"])
                self.use("TupleInitialization:" + op)
                if self.chance(0.5):
                    rhs = "( %s )" % " , ".join(self.at(14, self.expr(d + 1)) for _ in range(max(2, len(names))))
                else:
                    rhs = self.anon(d) if self.chance(0.7) else self.at(14, self.expr(d + 1))
                s += " %s %s" % (op, rhs)
            fr[k].extend(names)
            return s
        if kind == "var":
            parts = []
            new = []
            for _ in range(self.rng.choice([1, 1, 1, 2, 3])):
                n = self.declare("var", "v")
                ds, nd = self.dims(d)
                if self.chance(0.75):
                    self.use("SomeSymbol:ComplexSymbol")
                    if nd:
                        init = "[ %s ]" % " , ".join(self.number() for _ in range(self.rng.randrange(1, 4)))
                    else:
                        init = self.at(14, self.expr(d + 1))
                    parts.append("%s%s = %s" % (n, ds, init))
                else:
                    self.use("SomeSymbol:SimpleSymbol")
                    parts.append(n + ds)
                new.append((n, nd))
            for n, nd in new:
                fr["arr" if nd else "var"].append(n)
            return "var " + " , ".join(parts)
        if kind == "component":
            parts = []
            new = []
            for _ in range(self.rng.choice([1, 1, 2])):
                n = self.declare("comp", "c")
                ds, nd = self.dims(d)
                if self.chance(0.7) and not nd:
                    if self.templates and not self.chance(self.wild):
                        t = self.rng.choice(self.templates)
                        init = "%s ( %s )" % (t[0], " , ".join(self.at(14, self.expr(d + 1)) for _ in range(t[1])))
                    else:
                        init = self.at(14, self.expr(d + 1))
                    if self.chance(0.05):
                        init = "parallel " + init
                    parts.append("%s = %s" % (n, init))
                else:
                    parts.append(n + ds)
                new.append(n)
            fr["comp"].extend(new)
            return "component " + " , ".join(parts)
        # signal declarations
        op = "<==" if kind == "signal_constraint" else "<--"
        parts = []
        new = []
        forced = kind == "signal_simple"
        for _ in range(self.rng.choice([1, 1, 1, 2])):
            n = self.declare("sig", "s")
            ds, nd = self.dims(d)
            if forced or (self.chance(0.4) and " input" not in hdr):
                parts.append("%s%s %s %s" % (n, ds, op, self.at(14, self.expr(d + 1))))
            else:
                parts.append(n + ds)
            new.append((n, nd))
        for n, nd in new:
            fr["arr" if nd else "sig"].append(n)
        return hdr + " " + " , ".join(parts)

    # ------------------------------------------------------------ definitions
    def function(self):
        """ParseDefinition: function"""
        self.use("ParseDefinition:function")
        name = self.ident("fn")
        params = [self.ident("p") for _ in range(self.rng.randrange(0, 4))]
        if params and self.chance(self.wild * 0.3):
            params.append(params[0])
        self.scope = [{"var": list(params), "sig": [], "comp": [], "arr": []}]
        self.in_function = True
        k = self.rng.randrange(0, self.max_stmts + 1)
        self.push()
        body = [self.stmt3(1) for _ in range(k)]
        self.pop()
        if not self.chance(self.wild):
            body.append("return %s ;" % self.at(14, self.expr(2)))
        self.functions.append((name, len(params)))
        return "function %s ( %s ) { %s }" % (name, " , ".join(params), " ".join(body))

    def template(self):
        """ParseDefinition: template custom? parallel?"""
        name = self.ident("T")
        custom = self.chance(0.06)
        parallel = self.chance(0.06)
        self.use("ParseDefinition:template" + ("+custom" if custom else "") + ("+parallel" if parallel else ""))
        params = [self.ident("n") for _ in range(self.rng.randrange(0, 3))]
        self.scope = [{"var": list(params), "sig": [], "comp": [], "arr": []}]
        self.in_function = False
        self.push()
        ins = [self.ident("in") for _ in range(self.rng.randrange(0, 3))]
        outs = [self.ident("out") for _ in range(self.rng.randrange(0, 3))]
        body = []
        for i in ins:
            body.append("signal input %s ;" % i)
        for o in outs:
            body.append("signal output %s ;" % o)
        self.scope[-1]["sig"].extend(ins + outs)
        for _ in range(self.rng.randrange(0, self.max_stmts + 2)):
            body.append(self.stmt3(1))
        self.pop()
        self.templates.append((name, len(params), ins, outs, custom))
        return "template %s%s%s ( %s ) { %s }" % ("custom " if custom else "", "parallel " if parallel else "", name,
                                                 " , ".join(params), " ".join(body))

    def main_component(self):
        """ParseMainComponent"""
        self.use("ParseMainComponent")
        self.scope = [{"var": [], "sig": [], "comp": [], "arr": []}]
        if self.templates and not self.chance(self.wild):
            t = self.rng.choice(self.templates)
            init = "%s ( %s )" % (t[0], " , ".join(self.number() for _ in range(t[1])))
            pub = t[2]
        else:
            init, pub = self.at(14, self.expr(3)), ["a"]
        s = "component main"
        if pub and self.chance(0.5):
            self.use("ParsePublicList")
            s += " { public [ %s ] }" % " , ".join(pub)
        return s + " = " + init + " ;"

    def pragma(self):
        r = self.rng.random()
        if r < 0.75:
            v = self.rng.choice(["2.0.0", "2.0.1", "2.0.8", "2.1.0", "2.1.4"])
        elif r < 0.9:
            v = "%d.%d.%d" % (self.rng.randrange(4), self.rng.randrange(3), self.rng.randrange(12))
        else:
            v = "%s.%s.%s" % (self.number(), self.number(), self.number())
        self.use("ParsePragma")
        return "pragma circom %s ;" % v

    def program(self, includes=(), n_defs=None, with_main=None):
        """ParseAst: pragma? custom_templates? include* definition* main?"""
        self.use("ParseAst")
        parts = []
        if self.chance(0.85):
            parts.append(self.pragma())
        if self.chance(0.1):
            self.use("ParseCustomGates")
            parts.append("pragma custom_templates ;")
        for inc in includes:
            self.use("ParseInclude")
            parts.append('include "%s" ;' % inc)
        n = self.rng.randrange(0, 5) if n_defs is None else n_defs
        for _ in range(n):
            parts.append(self.function() if self.chance(0.35) else self.template())
        if with_main if with_main is not None else self.chance(0.3):
            parts.append(self.main_component())
        return "\n".join(parts) + "\n"


def relex(text, rng):
    """Re-renders a blank-separated token stream with varied white space and
    comments (line, block, doc-style) between tokens; string literals and the
    two-word token `pragma circom` are kept intact."""
    out = []
    toks = []
    i = 0
    parts = text.split(" ")
    # strings may contain blanks: re-join pieces between quotes
    buf = None
    for p in parts:
        if buf is not None:
            buf += " " + p
            if p.count('"') % 2 == 1:
                toks.append(buf)
                buf = None
        elif p.count('"') % 2 == 1:
            buf = p
        else:
            toks.append(p)
    if buf is not None:
        toks.append(buf)
    prev = None
    for t in toks:
        if prev is not None:
            if prev == "pragma" and t == "circom":
                out.append(" ")
            else:
                r = rng.random()
                if r < 0.8:
                    out.append(" ")
                elif r < 0.88:
                    out.append("\n")
                elif r < 0.92:
                    out.append("\t ")
                elif r < 0.95:
                    out.append(" /* c */ ")
                elif r < 0.97:
                    out.append(" // c é\n")
                elif r < 0.985:
                    out.append(" /** doc **/ ")
                else:
                    out.append("\r\n")
        out.append(t)
        prev = t.rstrip("\n").split("\n")[-1] if t else t
    return "".join(out)
