"""Engine `front` (property C02): correspondence between the *front* of the
pipeline as the theorems of coq/props/C02.v see it — Model.Includes.run_project
(C19's mirror of FileStack and of the parse_files loop) pushed through
Model.Front (errors.rs `into_report`: primary file ids; FileLibrary::user_inputs)
— and the real `parser::parse_files` as observed by the in-process ground truth
of harness `e2e truth` (FileLibrary entries with their user flag, the report
collection with primary file ids).

Per project written to disk (an e2e.Project):
  * the abstract file system of the model is read off the REAL file system
    (realpath / isdir / scandir), never off the implementation; file contents
    are classified (unreadable / does not parse / include statements with their
    ranges) by harness `front content`, i.e. by `read_to_string` and the
    single-file parser `parser_logic::parse_file` alone — the model's `content`
    parameter;
  * the extracted model prints the FileLibrary (path, user flag), the
    OS / include / parse error reports, and — through Model.Front.report_of —
    the category (as Gen.Category.display prints it), the code id, the code name
    and the primary file ids of every parse-stage report of the project handed
    to the runner, and the user-input ids.  The numbers of the code
    (parameters pf_id / pf_name of Model.Front) are what `ReportCode::ParseFail`
    of the current tree answers to `id()` / `name()` (harness `front code`);
  * the ground truth's FileLibrary, its reports of the Includes stage —
    recognised by their FORM (message `Failed to open file ..`, `Unterminated
    comment.`, the label text of ParsingError), not by level or code — with the
    category, code id, code name and primary file ids of the real `Report`, and
    `user_inputs` are brought to the same form.  A parse-stage report with the
    ParseFail code of any other form is kept too (kind `other`), so it shows
    up as a disagreement; the remaining parse-stage reports (pragma, main
    components, sugar removal, ProgramArchive) are counted, not compared.

`class_table()` reads Spec.NoSilentSpec.class_table through the extracted driver.

Third pass — the stages between the parse_files loop and the runner
(Model.FrontStages: check_compiler_version, the main-component match, the
desugaring stage = Model.Desugar, the error values of generate_cfg =
Model.LiftFull + Model.PipelineMirrors):
  * harness `front stages` parses every file of the REAL FileLibrary alone
    (single-file parser, its own file id) and hands over what the model takes
    as given: per file the `pragma circom` version, whether it has a main
    component, its line starts; the definitions (name, parameters, location
    of the parameter list, file id, body) in the wire format of the desugar
    / liftfull engines;
  * the extracted Model.FrontStages.stage_run prints every report of the
    mirrored stages (category, code id, code name, primary file ids) and, for
    every definition handed to the runner, its `d_err`;
  * the ground truth's parse-stage reports of those stages — recognised by FORM
    (message text of errors.rs / the label text of TupleError and
    AnonymousComponentError) — and the error report of every definition
    (`generate_cfg` in process) are brought to the same form and compared as
    sorted lists (the order inside the collection is hash-dependent).
    Projects in which a name is defined twice are not compared (which copy
    survives is hash-dependent: D22) and counted.
`gen_compiler_version()` regenerates coq/gen/CompilerVersion.v from config.rs.
"""
import json
import os
import re

import common

BAD_CHARS = set(",;@\t\n\r")


def pjoin(a, b):
    """PathBuf::push / Path::join."""
    if b.startswith("/"):
        return b
    if a == "" or a.endswith("/"):
        return a + b
    return a + "/" + b


def encodable(s):
    return s not in ("", "-") and not (set(s) & BAD_CHARS)


def classify(paths):
    """path -> {"c": "U"|"E"|"P", "incs": [[path, start, end], ..]} by harness `front content`."""
    hb = common.build_harness("front")
    paths = list(paths)
    if not paths:
        return {}
    out = common.run_lines(hb, ["content"], [json.dumps(p) for p in paths], shards=common.NPROC, timeout=600)
    if len(out) != len(paths):
        raise common.BuildError("harness front content: %d answers for %d paths" % (len(out), len(paths)), "")
    return {p: json.loads(o) for p, o in zip(paths, out)}


class Abstract:
    """The abstract file system of one project, grown to a fixed point: every
    spelling the model can ask `canon` about (the named paths, the entries of
    named directories, <directory of a file that may be read>/<include>, <-L directory>/<include>)."""

    def __init__(self, project):
        self.argv = project.abs_argv()
        self.libs = project.abs_libs()
        self.canon, self.dirs, self.contents = {}, {}, {}
        self.pending = set()
        for a in self.argv:
            self._walk(a, 0)
        for lib in self.libs:
            self._note(lib)
            if os.path.isdir(lib):
                self.dirs.setdefault(lib, None)
        self.libdirs = [x for x in self.libs if os.path.isdir(x)]

    def _note(self, p):
        if p in self.canon:
            return
        c = os.path.realpath(p) if os.path.exists(p) else None
        self.canon[p] = c
        if c is not None:
            self.canon.setdefault(c, c)
            if c not in self.contents:
                if os.path.isfile(c):
                    self.pending.add(c)
                else:
                    self.contents[c] = {"c": "U"}

    def _walk(self, p, depth):
        self._note(p)
        if os.path.isdir(p) and depth < 40:
            try:
                names = [e.name for e in os.scandir(p)]
            except OSError:
                return
            self.dirs[p] = names
            for n in names:
                self._walk(pjoin(p, n), depth + 1)

    def absorb(self, classified):
        """Takes the classification of the pending files; notes the spellings their includes lead to."""
        for c, v in classified.items():
            self.contents[c] = v
            self.pending.discard(c)
            if v["c"] == "P":
                for inc, s, e in v["incs"]:
                    self._note(pjoin(os.path.dirname(c), inc))
                    for lib in self.libdirs:
                        self._note(pjoin(lib, inc))

    def line(self):
        """The model's input line, or None if a spelling cannot be encoded."""
        def lst(xs):
            return ";".join(xs) if xs else "-"
        spellings = list(self.canon) + self.argv + self.libs
        for v in self.contents.values():
            spellings += [i[0] for i in v.get("incs", [])]
        for names in self.dirs.values():
            spellings += list(names or [])
        if not all(encodable(s) for s in spellings):
            return None
        cont = []
        for c in sorted(self.contents):
            v = self.contents[c]
            if v["c"] == "P":
                cont.append(",".join([c, "P"] + ["%s@%d@%d" % (i, s, e) for i, s, e in v["incs"]]))
            elif v["c"] == "E":
                cont.append(c + ",E")
            else:
                cont.append(c + ",U")
        return "\t".join([
            lst(self.argv), lst(self.libs),
            lst(["%s,%s" % (k, v if v else "-") for k, v in sorted(self.canon.items())]),
            lst([",".join([k] + (v or [])) for k, v in sorted(self.dirs.items())]),
            lst(sorted(c for c in self.contents if os.path.isfile(c))),
            lst(cont)])


def abstracts(projects):
    """Abstract file systems of all projects (content classification batched)."""
    abss = [Abstract(p) for p in projects]
    for _ in range(64):
        todo = sorted({c for a in abss for c in a.pending})
        if not todo:
            break
        cl = classify(todo)
        for a in abss:
            a.absorb({c: cl[c] for c in list(a.pending)})
    return abss


def gen_compiler_version(repo=None):
    """coq/gen/CompilerVersion.v from `program_analysis::config::COMPILER_VERSION` of the tree under test, as the
    compiled constant answers (harness `front code`). Third audit: the text of config.rs is no longer read with a
    regular expression (`pub static`, `ast::Version`, `4usize`, a trailing comma were false alarms); the line of
    config.rs that mentions the constant is quoted in the generated file as a comment only."""
    repo = repo or common.REPO
    a, b, c = stage_codes()["compiler_version"]
    line = ""
    try:
        for l in open(os.path.join(repo, "program_analysis", "src", "config.rs")):
            if "COMPILER_VERSION" in l:
                line = l.strip().replace("*)", "* )")
                break
    except OSError:
        pass
    out = ("(* GENERATED by lib/c02front.py (gen_compiler_version) from the value of\n"
           "   program_analysis::config::COMPILER_VERSION of the current tree (harness `front code`):\n"
           "     %s\n"
           "   (the constant analysis_runner.rs hands to parser::parse_files).\n"
           "   Do not edit: rewritten on every run of ./check C02. *)\n"
           "Definition compiler_version : nat * nat * nat := (%d, %d, %d).\n" % (line, a, b, c))
    common.write_if_changed(os.path.join(common.COQ, "gen", "CompilerVersion.v"), out)
    return (a, b, c)


PF_ID_NUM, PF_NAME_NUM = 1000, 2000      # the numbers the check gives to ParseFail's id() and name() on the model's line


def parse_fail_code():
    """{"id": .., "name": ..}: ReportCode::ParseFail.id() / .name() of the tree under test (harness `front code`)."""
    hb = common.build_harness("front")
    rc, out, err = common.sh([hb, "code"], timeout=60)
    try:
        code = json.loads(out)
        return {"id": str(code["id"]), "name": str(code["name"])}
    except (ValueError, KeyError, TypeError):
        raise common.BuildError("harness front code: unusable answer", (out + err)[-400:])


# the codes of Model.FrontStages.codes, in the order of the model's `codes` field, with the numbers the check gives them
STAGE_CODES = ["version_error", "no_version", "multiple_main", "tuple", "anonymous", "param_collision", "undefined", "same_symbol"]
STAGE_ID_NUM = {k: 1001 + i for i, k in enumerate(STAGE_CODES)}
STAGE_NAME_NUM = {k: 2001 + i for i, k in enumerate(STAGE_CODES)}


def stage_codes():
    """{"codes": {key: {"id","name"}}, "compiler_version": [a,b,c]} of the tree under test (harness `front code`)."""
    hb = common.build_harness("front")
    rc, out, err = common.sh([hb, "code"], timeout=60)
    try:
        code = json.loads(out)
        return {"codes": {k: {"id": str(code["codes"][k]["id"]), "name": str(code["codes"][k]["name"])} for k in STAGE_CODES},
                "compiler_version": [int(x) for x in code["compiler_version"]]}
    except (ValueError, KeyError, TypeError):
        raise common.BuildError("harness front code: unusable answer (stage codes)", (out + err)[-400:])


def stage_inputs(raw_truths):
    """What the parser yields for the files of the real FileLibrary of every project (harness `front stages`)."""
    hb = common.build_harness("front")
    lines, idx = [], []
    for i, t in enumerate(raw_truths):
        if t.get("panic") or t.get("bad_input"):
            continue
        lines.append(json.dumps({"files": [[f["id"], f["path"]] for f in t["files"]]}))
        idx.append(i)
    out = common.run_lines(hb, ["stages"], lines, shards=common.NPROC, timeout=900) if lines else []
    if len(out) != len(lines):
        raise common.BuildError("harness front stages: %d answers for %d projects" % (len(out), len(lines)), "")
    res = [None] * len(raw_truths)
    for i, o in zip(idx, out):
        try:
            res[i] = json.loads(o)
        except ValueError:
            res[i] = None
    return res


def stage_fields(a, t, st):
    """The four extra fields of the `stages` line of the model driver, or None if they cannot be encoded."""
    if st is None or st.get("bad") or st.get("panic"):
        return None
    paths = {f["id"]: f["path"] for f in t["files"]}
    vers, lib = [], []
    for f in sorted(st["files"], key=lambda f: f["id"]):
        lib.append(",".join(str(x) for x in f["starts"]))
        if f["parsed"]:
            p = paths[f["id"]]
            if not encodable(p):
                return None
            vers.append("%s,%s,%d,%d" % (p, ".".join(str(x) for x in f["ver"]) if f["ver"] else "none", int(bool(f["main"])), f["id"]))
    if [f["id"] for f in sorted(st["files"], key=lambda f: f["id"])] != list(range(len(st["files"]))):
        return None
    if any("\t" in d or "\n" in d for d in st["defs"]):
        return None
    codes = ",".join("%d,%d" % (STAGE_ID_NUM[k], STAGE_NAME_NUM[k]) for k in STAGE_CODES)
    return "\t".join([";".join(vers) if vers else "-", codes, ";".join(lib) if lib else "-", "(prog %s)" % " ".join(st["defs"])])


def def_names(st):
    """(kind class, name) of the definitions of a `front stages` answer; templates and functions share one name space."""
    out = []
    for d in st["defs"]:
        w = d.split(" ", 3)
        out.append(w[2])
    return out


DEF_RE = re.compile(r"\b(template|function)(?:\s+(?:custom|parallel))*\s+([A-Za-z_$][A-Za-z0-9_$]*)\s*\(")


def scan_definitions(text):
    """Names of the definitions of a source text by a textual scan (comments removed): `template [custom|parallel] X(`,
    `function f(`."""
    text = re.sub(r"/\*.*?\*/", " ", text, flags=re.S)
    text = re.sub(r"//[^\n]*", " ", text)
    return [m.group(2) for m in DEF_RE.finditer(text)]


def scan_definitions_of_files(st, t):
    """Sorted names of the definitions in the text of every file of the FileLibrary that the single-file parser accepts."""
    paths = {f["id"]: f["path"] for f in t["files"]}
    out = []
    for f in st["files"]:
        if f.get("parsed"):
            try:
                out += scan_definitions(open(paths[f["id"]], encoding="utf-8").read())
            except (OSError, UnicodeDecodeError, KeyError):
                pass
    return sorted(out)


def class_table():
    """Spec.NoSilentSpec.class_table as printed by the extracted driver: {class: (producer, derivation, shape)} (constructor names)."""
    mb = common.build_model("front")
    rc, out, err = common.sh([mb, "classes"], timeout=60)
    tab = {}
    for l in out.splitlines():
        w = l.split()
        if len(w) != 4 or w[0] in tab:
            raise common.BuildError("model_front classes: unusable line %r" % l, (out + err)[-400:])
        tab[w[0]] = (w[1], w[2], w[3])
    if rc != 0 or not tab:
        raise common.BuildError("model_front classes failed", (out + err)[-400:])
    return tab


def run_model(abss, raw_truths=None, stage_in=None):
    """One answer per project (None: not encodable). With raw_truths / stage_in the `stages` command is used (the answer has the
    key "stage" where the stage inputs could be encoded, otherwise the project is run without the stages: no such key)."""
    mb = common.build_model("front")
    lines, idx, plain, pidx = [], [], [], []
    for i, a in enumerate(abss):
        l = a.line()
        if l is not None and not any(v["c"] in ("panic", "bad-line") for v in a.contents.values()):
            base = "%s\t%d\t%d" % (l, PF_ID_NUM, PF_NAME_NUM)
            extra = stage_fields(a, raw_truths[i], stage_in[i]) if raw_truths is not None and stage_in is not None else None
            if extra is not None:
                lines.append(base + "\t" + extra)
                idx.append(i)
            else:
                plain.append(base)
                pidx.append(i)
    out = common.run_lines(mb, ["stages"], lines, shards=common.NPROC, timeout=900) if lines else []
    pout = common.run_lines(mb, ["run"], plain, shards=common.NPROC, timeout=900) if plain else []
    if len(pout) != len(plain):
        raise common.BuildError("model_front run: %d answers for %d projects" % (len(pout), len(plain)), "")
    lines, idx, out = lines + plain, idx + pidx, out + pout
    if len(out) != len(lines):
        raise common.BuildError("model_front run: %d answers for %d projects" % (len(out), len(lines)), "")
    res = [None] * len(abss)
    for i, o in zip(idx, out):
        try:
            res[i] = json.loads(o)
        except ValueError:
            res[i] = {"status": "unparsable model output", "raw": o[:200]}
    return res


TOKEN_LABEL = "This token is invalid or unexpected here."


def normalise_truth(t, code, counts=None):
    """The ground truth (raw JSON of `e2e truth`) in the model's output form. The reports of the Includes stage are
    recognised by their form alone; level, code id and code name are reported as the real `Report` has them."""
    if t.get("panic") or t.get("bad_input"):
        return None
    reps, full = [], []
    for r in t["parse_reports"]:
        m = re.match(r"Failed to open file `(.*)`\.$", r["message"], re.S)
        labels = [l.get("msg") for l in r["primary"]]
        if m and not r["primary"]:
            reps.append(["os", m.group(1)])
        elif m:
            l = r["primary"][0]
            reps.append(["inc", m.group(1), l["file"], l["start"], l["end"]])
        elif r["primary"] and (labels[0] == TOKEN_LABEL or r["message"] == "Unterminated comment." or r["id"] == code["id"]):
            reps.append(["perr", r["primary"][0]["file"]])
        elif r["id"] == code["id"]:
            reps.append(["other", r["message"][:80]])
        else:
            # the reports of the stages of Model.FrontStages are compared by normalise_stage; what no mirror produces
            # (ProgramArchive::new, the anonymous-main check) is counted
            if counts is not None and stage_form(r) is None:
                counts["other_stage_parse_reports_not_compared"] += 1
            continue
        full.append([r["level"], r["id"], r["name"], list(r["pfiles"])])
    return {"status": "ok", "files": [[f["path"], bool(f["user"])] for f in t["files"]], "reports": reps,
            "full": full, "user_ids": sorted(f["id"] for f in t["files"] if f["user"])}


SUGAR_LABELS = ("The problem occurs here.", "Tuple instantiated here.", "Anonymous component instantiated here.")


def stage_form(r):
    """The stage of Model.FrontStages a parse-stage report of the ground truth belongs to, by its FORM (message text of
    errors.rs, label text of TupleError / AnonymousComponentError::into_report), not by level or code; None: another stage."""
    msg = r["message"]
    labels = [l.get("msg") or "" for l in r["primary"]]
    if re.match(r"The file `.*` requires version .* which is not supported by Circomspect", msg, re.S) and not r["primary"]:
        return "version_error"
    if re.match(r"The file `.*` does not include a version pragma\.", msg, re.S) and not r["primary"]:
        return "no_version"
    if msg == "Multiple main components found in the project structure." and not r["primary"]:
        return "multiple_main"
    if len(labels) == 1 and (labels[0] in SUGAR_LABELS or re.match(r"Unknown template `.*` instantiated here\.$", labels[0], re.S)):
        return "sugar"
    # Merger::add_definitions (since fix f1ec9dc two primary labels: the duplicate, then the first definition)
    if labels and re.match(r"The name `.*` is already used\.$", labels[0], re.S):
        return "duplicate"
    return None


def normalise_stage(t, counts=None):
    """The ground truth in the form of the model's "stage" answer: the reports of the mirrored stages and the error report of
    every definition handed to the runner, each as [category, code id, code name, primary file ids]; both sorted."""
    reps = []
    for r in t["parse_reports"]:
        f = stage_form(r)
        if f is None:
            continue
        reps.append([r["level"], r["id"], r["name"], list(r["pfiles"])])
        if counts is not None:
            counts["stage_reports_by_form"][f] = counts["stage_reports_by_form"].get(f, 0) + 1
    defs = []
    for d in t["defs"]:
        if d.get("panic"):
            return None
        e = d.get("err")
        defs.append([d["kind"], d["name"], [e["level"], e["id"], e["name"], list(e["pfiles"])] if e else None])
        if e and counts is not None:
            k = "%s/%s@%s" % (e["id"], e["name"], d.get("err_stage"))
            counts["definition_errors_seen"][k] = counts["definition_errors_seen"].get(k, 0) + 1
    return {"reports": sorted(reps), "defs": sorted(defs, key=lambda x: (x[0], x[1]))}


def compare(projects, raw_truths):
    """-> (disagreements, stats). A disagreement: {"project", "model", "impl"} (with "stage": True when it is in the part
    of Model.FrontStages). stats["hypothesis_broken"]: projects on which the premise `canon idempotent` of the theorems
    does not hold; stats["stage"]["metas_hypothesis_broken"]: projects with a definition one of whose metas lies in
    another file than the definition."""
    code = parse_fail_code()
    sc = stage_codes()
    cv_text = list(gen_compiler_version())
    names = {PF_ID_NUM: code["id"], PF_NAME_NUM: code["name"]}
    for k in STAGE_CODES:
        names[STAGE_ID_NUM[k]] = sc["codes"][k]["id"]
        names[STAGE_NAME_NUM[k]] = sc["codes"][k]["name"]
    abss = abstracts(projects)
    stage_in = stage_inputs(raw_truths)
    models = run_model(abss, raw_truths, stage_in)
    dis = []
    sstats = {"compared": 0, "not_compared_not_encodable": 0, "not_compared_truth_panic": 0,
              "definition_sets_compared_with_a_textual_scan": 0, "definitions_scanned": 0, "projects_with_a_name_defined_twice": 0,
              "defs_file_hypothesis_holds": 0, "defs_file_hypothesis_broken": [], "wf_project_holds": 0, "wf_project_broken": [],
              "definitions_before_the_merger": 0, "definitions_kept_by_the_library": 0,
              "reports_compared_level_code_location": 0, "definitions_compared": 0, "definition_errors_compared": 0,
              "stage_reports_by_form": {}, "definition_errors_seen": {}, "metas_hypothesis_holds": 0,
              "metas_hypothesis_broken": [], "disagreements": 0, "codes": sc["codes"],
              "compiler_version": {"config_rs_text": cv_text, "harness": sc["compiler_version"], "model": None}}
    stats = {"compared": 0, "not_encodable": 0, "truth_unavailable": 0, "canon_idempotent": 0,
             "canon_not_idempotent": 0, "hypothesis_broken": [], "no_directory_revisited": 0, "directory_revisited": [],
             "with_os_error": 0, "with_parse_error": 0, "with_include_error": 0,
             "named_file_read_as_include_first": 0,
             "parse_fail_code": code, "reports_compared_level_and_code": 0, "levels_seen": {}, "codes_seen": {},
             "other_stage_parse_reports_not_compared": 0, "not_compared_tags": []}
    for k, (p, a, m, t) in enumerate(zip(projects, abss, models, raw_truths)):
        if m is None:
            stats["not_encodable"] += 1
            stats["not_compared_tags"].append(p.tag)
            continue
        n = normalise_truth(t, code, stats)
        if n is None:
            stats["truth_unavailable"] += 1
            stats["not_compared_tags"].append(p.tag)
            continue
        stats["compared"] += 1
        if m.get("status") == "ok":
            if m.pop("canon_idempotent", False):
                stats["canon_idempotent"] += 1
            else:
                stats["canon_not_idempotent"] += 1
                stats["hypothesis_broken"].append(p.describe())
        # hypothesis `dirs_revisited = false` of the theorems since the mirror of fix 517e7a0 (a named directory met again through a
        # link is read once): evaluated by the extracted driver on every project
        dr = m.pop("dirs_revisited", None)
        if dr is False:
            stats["no_directory_revisited"] += 1
        elif dr is True:
            stats["directory_revisited"].append(p.describe())
        m["user_ids"] = sorted(m.get("user_ids", []))
        # ---- third pass: the stages of Model.FrontStages (compared separately from the Includes part)
        has_stage = "stage" in m
        mstage = m.pop("stage", None)
        mcv = m.pop("compiler_version", None)
        if mcv is not None:
            sstats["compiler_version"]["model"] = mcv
            if list(mcv) != list(sc["compiler_version"]):
                dis.append({"project": p.describe(), "stage": True,
                            "model": {"compiler_version": mcv}, "impl": {"compiler_version": sc["compiler_version"]}})
        if has_stage and stage_in[k] is not None:
            # the definitions `harness front stages` hands to the model (single-file parser) against a textual scan of
            # the files of the FileLibrary that parse: the same names, as often (ties the model's `defs_of` to the text)
            scan = scan_definitions_of_files(stage_in[k], t)
            got = sorted(def_names(stage_in[k]))
            sstats["definition_sets_compared_with_a_textual_scan"] += 1
            sstats["definitions_scanned"] += len(scan)
            if scan != got:
                dis.append({"project": p.describe(), "stage": True, "model": {"definitions handed to the model": got},
                            "impl": {"definitions found by a textual scan of the files read": scan}})
            if len(set(got)) != len(got):
                sstats["projects_with_a_name_defined_twice"] += 1
        if not has_stage:
            sstats["not_compared_not_encodable"] += 1
        else:
            ns = normalise_stage(t, sstats)
            if ns is None:
                sstats["not_compared_truth_panic"] += 1
            else:
                ms = None
                if mstage is not None:
                    back = lambda v: [v[0], names.get(v[1], "#%s" % v[1]), names.get(v[2], "#%s" % v[2]), v[3]]
                    ms = {"reports": sorted(back(v) for v in mstage["reports"]),
                          "defs": sorted(([k, nm, back(e) if e else None] for k, nm, e in mstage["defs"]), key=lambda x: (x[0], x[1]))}
                    if mstage.get("metas_ok"):
                        sstats["metas_hypothesis_holds"] += 1
                    else:
                        sstats["metas_hypothesis_broken"].append(p.describe())
                    # hypotheses of the tied theorems, evaluated on the MODEL's side of every project: every definition the
                    # parser yields for file i carries file id i (defs_file_ok), and the project handed to the runner has
                    # one definition per (kind, name) (wf_project, on the library the Merger / TemplateLibrary mirror keeps)
                    if mstage.get("defs_file_ok", None) is False:
                        sstats["defs_file_hypothesis_broken"].append(p.describe())
                    elif mstage.get("defs_file_ok"):
                        sstats["defs_file_hypothesis_holds"] += 1
                    keys = [(kd, nm) for kd, nm, _ in mstage["defs"]]
                    if len(set(keys)) == len(keys):
                        sstats["wf_project_holds"] += 1
                    else:
                        sstats["wf_project_broken"].append(p.describe())
                    sstats["definitions_before_the_merger"] += mstage.get("all_defs", 0)
                    sstats["definitions_kept_by_the_library"] += mstage.get("kept", 0)
                sstats["compared"] += 1
                if ms != ns:
                    sstats["disagreements"] += 1
                    dis.append({"project": p.describe(), "stage": True, "model": ms, "impl": ns})
                else:
                    sstats["reports_compared_level_code_location"] += len(ns["reports"])
                    sstats["definitions_compared"] += len(ns["defs"])
                    sstats["definition_errors_compared"] += sum(1 for d in ns["defs"] if d[2])
        # the model's numbers back to the strings they stand for
        m["full"] = [[lv, names.get(i, "#%s" % i), names.get(nm, "#%s" % nm), pf] for lv, i, nm, pf in m.get("full", [])]
        for lv, i, nm, pf in n["full"]:
            stats["levels_seen"][lv] = stats["levels_seen"].get(lv, 0) + 1
            stats["codes_seen"][i + "/" + nm] = stats["codes_seen"].get(i + "/" + nm, 0) + 1
        if m != n:
            dis.append({"project": p.describe(), "model": m, "impl": n})
            continue
        stats["reports_compared_level_and_code"] += len(n["full"])
        kinds = {r[0] for r in n["reports"]}
        stats["with_os_error"] += "os" in kinds
        stats["with_parse_error"] += "perr" in kinds
        stats["with_include_error"] += "inc" in kinds
        # a named file that is read through the include of an earlier-read named file: its entry in the
        # library comes before the position its own turn would give it
        named = [os.path.realpath(x) for x in a.argv if os.path.isfile(x)]
        order = [f[0] for f in n["files"]]
        stats["named_file_read_as_include_first"] += _included_first(named, order, a)
    stats["not_compared_tags"] = stats["not_compared_tags"][:20]
    sstats["metas_hypothesis_broken_count"] = len(sstats["metas_hypothesis_broken"])
    stats["stage"] = sstats
    return dis, stats


def _included_first(named, order, a):
    """1 if some named file is included by a named file that is read before it."""
    pos = {f: i for i, f in enumerate(order)}
    for f in named:
        v = a.contents.get(f)
        if not v or v["c"] != "P" or f not in pos:
            continue
        for inc, s, e in v["incs"]:
            c = a.canon.get(pjoin(os.path.dirname(f), inc))
            if c in named and c != f and pos.get(c, -1) > pos[f]:
                return 1
    return 0
