"""Engine `front` (property C02): correspondence between the *front* of the
pipeline as the theorems of coq/props/C02.v see it — Model.Includes.run_project
(C19's mirror of FileStack and of the parse_files loop) pushed through
Model.Front (errors.rs `into_report`: primary file ids; FileLibrary::user_inputs)
— and the real `parser::parse_files` as observed by the in-process ground truth
of harness `e2e truth` (FileLibrary entries with their user flag, the report
collection with primary file ids).

Per project written to disk (an e2e.Project):
  * the abstract file system of the model is read off the REAL file system
    (realpath / isdir / scandir), never off the implementation; file contents
    are classified (unreadable / does not parse / include statements with their
    ranges) by harness `front content`, i.e. by `read_to_string` and the
    single-file parser `parser_logic::parse_file` alone — the model's `content`
    parameter;
  * the extracted model prints the FileLibrary (path, user flag), the
    OS / include / parse error reports, and — through Model.Front.report_of —
    the category (as Gen.Category.display prints it), the code id, the code name
    and the primary file ids of every parse-stage report of the project handed
    to the runner, and the user-input ids.  The numbers of the code
    (parameters pf_id / pf_name of Model.Front) are what `ReportCode::ParseFail`
    of the current tree answers to `id()` / `name()` (harness `front code`);
  * the ground truth's FileLibrary, its reports of the Includes stage —
    recognised by their FORM (message `Failed to open file ..`, `Unterminated
    comment.`, the label text of ParsingError), not by level or code — with the
    category, code id, code name and primary file ids of the real `Report`, and
    `user_inputs` are brought to the same form.  A parse-stage report with the
    ParseFail code of any other form is kept too (kind `other`), so it shows
    up as a disagreement; the remaining parse-stage reports (pragma, main
    components, sugar removal, ProgramArchive) are counted, not compared.

`class_table()` reads Spec.NoSilentSpec.class_table through the extracted driver.
"""
import json
import os
import re

import common

BAD_CHARS = set(",;@\t\n\r")


def pjoin(a, b):
    """PathBuf::push / Path::join."""
    if b.startswith("/"):
        return b
    if a == "" or a.endswith("/"):
        return a + b
    return a + "/" + b


def encodable(s):
    return s not in ("", "-") and not (set(s) & BAD_CHARS)


def classify(paths):
    """path -> {"c": "U"|"E"|"P", "incs": [[path, start, end], ..]} by harness `front content`."""
    hb = common.build_harness("front")
    paths = list(paths)
    if not paths:
        return {}
    out = common.run_lines(hb, ["content"], [json.dumps(p) for p in paths], shards=common.NPROC, timeout=600)
    if len(out) != len(paths):
        raise common.BuildError("harness front content: %d answers for %d paths" % (len(out), len(paths)), "")
    return {p: json.loads(o) for p, o in zip(paths, out)}


class Abstract:
    """The abstract file system of one project, grown to a fixed point: every
    spelling the model can ask `canon` about (the named paths, the entries of
    named directories, <directory of a file that may be read>/<include>, <-L directory>/<include>)."""

    def __init__(self, project):
        self.argv = project.abs_argv()
        self.libs = project.abs_libs()
        self.canon, self.dirs, self.contents = {}, {}, {}
        self.pending = set()
        for a in self.argv:
            self._walk(a, 0)
        for lib in self.libs:
            self._note(lib)
            if os.path.isdir(lib):
                self.dirs.setdefault(lib, None)
        self.libdirs = [x for x in self.libs if os.path.isdir(x)]

    def _note(self, p):
        if p in self.canon:
            return
        c = os.path.realpath(p) if os.path.exists(p) else None
        self.canon[p] = c
        if c is not None:
            self.canon.setdefault(c, c)
            if c not in self.contents:
                if os.path.isfile(c):
                    self.pending.add(c)
                else:
                    self.contents[c] = {"c": "U"}

    def _walk(self, p, depth):
        self._note(p)
        if os.path.isdir(p) and depth < 40:
            try:
                names = [e.name for e in os.scandir(p)]
            except OSError:
                return
            self.dirs[p] = names
            for n in names:
                self._walk(pjoin(p, n), depth + 1)

    def absorb(self, classified):
        """Takes the classification of the pending files; notes the spellings their includes lead to."""
        for c, v in classified.items():
            self.contents[c] = v
            self.pending.discard(c)
            if v["c"] == "P":
                for inc, s, e in v["incs"]:
                    self._note(pjoin(os.path.dirname(c), inc))
                    for lib in self.libdirs:
                        self._note(pjoin(lib, inc))

    def line(self):
        """The model's input line, or None if a spelling cannot be encoded."""
        def lst(xs):
            return ";".join(xs) if xs else "-"
        spellings = list(self.canon) + self.argv + self.libs
        for v in self.contents.values():
            spellings += [i[0] for i in v.get("incs", [])]
        for names in self.dirs.values():
            spellings += list(names or [])
        if not all(encodable(s) for s in spellings):
            return None
        cont = []
        for c in sorted(self.contents):
            v = self.contents[c]
            if v["c"] == "P":
                cont.append(",".join([c, "P"] + ["%s@%d@%d" % (i, s, e) for i, s, e in v["incs"]]))
            elif v["c"] == "E":
                cont.append(c + ",E")
            else:
                cont.append(c + ",U")
        return "\t".join([
            lst(self.argv), lst(self.libs),
            lst(["%s,%s" % (k, v if v else "-") for k, v in sorted(self.canon.items())]),
            lst([",".join([k] + (v or [])) for k, v in sorted(self.dirs.items())]),
            lst(sorted(c for c in self.contents if os.path.isfile(c))),
            lst(cont)])


def abstracts(projects):
    """Abstract file systems of all projects (content classification batched)."""
    abss = [Abstract(p) for p in projects]
    for _ in range(64):
        todo = sorted({c for a in abss for c in a.pending})
        if not todo:
            break
        cl = classify(todo)
        for a in abss:
            a.absorb({c: cl[c] for c in list(a.pending)})
    return abss


PF_ID_NUM, PF_NAME_NUM = 1000, 2000      # the numbers the check gives to ParseFail's id() and name() on the model's line


def parse_fail_code():
    """{"id": .., "name": ..}: ReportCode::ParseFail.id() / .name() of the tree under test (harness `front code`)."""
    hb = common.build_harness("front")
    rc, out, err = common.sh([hb, "code"], timeout=60)
    try:
        code = json.loads(out)
        return {"id": str(code["id"]), "name": str(code["name"])}
    except (ValueError, KeyError, TypeError):
        raise common.BuildError("harness front code: unusable answer", (out + err)[-400:])


def class_table():
    """Spec.NoSilentSpec.class_table as printed by the extracted driver: {class: (producer, shape)} (constructor names)."""
    mb = common.build_model("front")
    rc, out, err = common.sh([mb, "classes"], timeout=60)
    tab = {}
    for l in out.splitlines():
        w = l.split()
        if len(w) != 3 or w[0] in tab:
            raise common.BuildError("model_front classes: unusable line %r" % l, (out + err)[-400:])
        tab[w[0]] = (w[1], w[2])
    if rc != 0 or not tab:
        raise common.BuildError("model_front classes failed", (out + err)[-400:])
    return tab


def run_model(abss):
    mb = common.build_model("front")
    lines, idx = [], []
    for i, a in enumerate(abss):
        l = a.line()
        if l is not None and not any(v["c"] in ("panic", "bad-line") for v in a.contents.values()):
            lines.append("%s\t%d\t%d" % (l, PF_ID_NUM, PF_NAME_NUM))
            idx.append(i)
    out = common.run_lines(mb, ["run"], lines, shards=common.NPROC, timeout=900) if lines else []
    if len(out) != len(lines):
        raise common.BuildError("model_front run: %d answers for %d projects" % (len(out), len(lines)), "")
    res = [None] * len(abss)
    for i, o in zip(idx, out):
        try:
            res[i] = json.loads(o)
        except ValueError:
            res[i] = {"status": "unparsable model output", "raw": o[:200]}
    return res


TOKEN_LABEL = "This token is invalid or unexpected here."


def normalise_truth(t, code, counts=None):
    """The ground truth (raw JSON of `e2e truth`) in the model's output form. The reports of the Includes stage are
    recognised by their form alone; level, code id and code name are reported as the real `Report` has them."""
    if t.get("panic") or t.get("bad_input"):
        return None
    reps, full = [], []
    for r in t["parse_reports"]:
        m = re.match(r"Failed to open file `(.*)`\.$", r["message"], re.S)
        labels = [l.get("msg") for l in r["primary"]]
        if m and not r["primary"]:
            reps.append(["os", m.group(1)])
        elif m:
            l = r["primary"][0]
            reps.append(["inc", m.group(1), l["file"], l["start"], l["end"]])
        elif r["primary"] and (labels[0] == TOKEN_LABEL or r["message"] == "Unterminated comment." or r["id"] == code["id"]):
            reps.append(["perr", r["primary"][0]["file"]])
        elif r["id"] == code["id"]:
            reps.append(["other", r["message"][:80]])
        else:
            if counts is not None:
                counts["other_stage_parse_reports_not_compared"] += 1
            continue
        full.append([r["level"], r["id"], r["name"], list(r["pfiles"])])
    return {"status": "ok", "files": [[f["path"], bool(f["user"])] for f in t["files"]], "reports": reps,
            "full": full, "user_ids": sorted(f["id"] for f in t["files"] if f["user"])}


def compare(projects, raw_truths):
    """-> (disagreements, stats). A disagreement: {"project", "model", "impl"}.
    stats["hypothesis_broken"]: projects on which the premise `canon idempotent` of the theorems does not hold."""
    code = parse_fail_code()
    names = {PF_ID_NUM: code["id"], PF_NAME_NUM: code["name"]}
    abss = abstracts(projects)
    models = run_model(abss)
    dis = []
    stats = {"compared": 0, "not_encodable": 0, "truth_unavailable": 0, "canon_idempotent": 0,
             "canon_not_idempotent": 0, "hypothesis_broken": [],
             "with_os_error": 0, "with_parse_error": 0, "with_include_error": 0,
             "named_file_read_as_include_first": 0,
             "parse_fail_code": code, "reports_compared_level_and_code": 0, "levels_seen": {}, "codes_seen": {},
             "other_stage_parse_reports_not_compared": 0, "not_compared_tags": []}
    for p, a, m, t in zip(projects, abss, models, raw_truths):
        if m is None:
            stats["not_encodable"] += 1
            stats["not_compared_tags"].append(p.tag)
            continue
        n = normalise_truth(t, code, stats)
        if n is None:
            stats["truth_unavailable"] += 1
            stats["not_compared_tags"].append(p.tag)
            continue
        stats["compared"] += 1
        if m.get("status") == "ok":
            if m.pop("canon_idempotent", False):
                stats["canon_idempotent"] += 1
            else:
                stats["canon_not_idempotent"] += 1
                stats["hypothesis_broken"].append(p.describe())
        m["user_ids"] = sorted(m.get("user_ids", []))
        # the model's numbers back to the strings they stand for
        m["full"] = [[lv, names.get(i, "#%s" % i), names.get(nm, "#%s" % nm), pf] for lv, i, nm, pf in m.get("full", [])]
        for lv, i, nm, pf in n["full"]:
            stats["levels_seen"][lv] = stats["levels_seen"].get(lv, 0) + 1
            stats["codes_seen"][i + "/" + nm] = stats["codes_seen"].get(i + "/" + nm, 0) + 1
        if m != n:
            dis.append({"project": p.describe(), "model": m, "impl": n})
            continue
        stats["reports_compared_level_and_code"] += len(n["full"])
        kinds = {r[0] for r in n["reports"]}
        stats["with_os_error"] += "os" in kinds
        stats["with_parse_error"] += "perr" in kinds
        stats["with_include_error"] += "inc" in kinds
        # a named file that is read through the include of an earlier-read named file: its entry in the
        # library comes before the position its own turn would give it
        named = [os.path.realpath(x) for x in a.argv if os.path.isfile(x)]
        order = [f[0] for f in n["files"]]
        stats["named_file_read_as_include_first"] += _included_first(named, order, a)
    stats["not_compared_tags"] = stats["not_compared_tags"][:20]
    return dis, stats


def _included_first(named, order, a):
    """1 if some named file is included by a named file that is read before it."""
    pos = {f: i for i, f in enumerate(order)}
    for f in named:
        v = a.contents.get(f)
        if not v or v["c"] != "P" or f not in pos:
            continue
        for inc, s, e in v["incs"]:
            c = a.canon.get(pjoin(os.path.dirname(f), inc))
            if c in named and c != f and pos.get(c, -1) > pos[f]:
                return 1
    return 0
