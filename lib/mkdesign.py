#!/usr/bin/env python3
"""Regenerates the machine-assembled parts of DESIGN.md (between the markers):
the as-built table from evidence/ and manifest.d/, the findings ledger from
known_findings.jsonl, the seeded-change table from seeded/*/meta.json and the
per-property notes of design.d/ as Appendix E."""
import json
import os
import re

V = os.path.dirname(os.path.dirname(os.path.abspath(__file__)))


def section(text, name, body):
    a, b = "<!-- BEGIN %s -->" % name, "<!-- END %s -->" % name
    if a not in text:
        return text + "\n" + a + "\n" + body + "\n" + b + "\n"
    return re.sub(re.escape(a) + r".*?" + re.escape(b), lambda m: a + "\n" + body + "\n" + b, text, flags=re.S)


def built_table():
    rows = ["| id | obligations (discharged) | open statements | quick wall (s) | evaluations | known findings printed |",
            "|---|---|---|---|---|---|"]
    ready = open(os.path.join(V, "manifest.d", "ready.txt")).read().split()
    for p in sorted(ready):
        try:
            e = json.load(open(os.path.join(V, "evidence", p + ".json")))
        except Exception:
            continue
        c = e["coverage"]
        op = c.get("open_statements") or []
        rows.append("| %s | %s (%s) | %d | %s | %s | %d |" % (p, c.get("obligations"), c.get("discharged"), len(op),
                                                          e.get("wall_s"), c.get("evaluations"), len(e.get("known_findings", []))))
    return "\n".join(rows)


def findings():
    fixed, known = [], []
    for l in open(os.path.join(V, "known_findings.jsonl")):
        l = l.strip()
        if not l or l.startswith("#"):
            continue
        r = json.loads(l)
        what = r["what"].replace("|", "/")
        if r["status"] == "fixed":
            fixed.append("| %s | %s | %s | %s |" % (r["property"], r["id"], r.get("commit"), what[:300]))
        else:
            known.append("| %s | %s | %s |" % (r["property"], r["id"], what[:400]))
    return ("**Repaired (`fix:` commits in /repo; a `fixed` record suppresses nothing)**\n\n| property | id | commit | what failed |\n|---|---|---|---|\n"
            + "\n".join(fixed) + "\n\n**Recorded as known findings (printed as `KNOWN-FINDING:`; any other failure is a `VIOLATION`)**\n\n"
            "| property | id | what fails |\n|---|---|---|\n" + "\n".join(known))


def seeded():
    rows = ["| seeded change | property | what it needs to manifest | suite with change | checks run → result | re-run at the end (own check) |", "|---|---|---|---|---|---|"]
    d = os.path.join(V, "seeded")
    for n in sorted(os.listdir(d)):
        try:
            m = json.load(open(os.path.join(d, n, "meta.json")))
        except Exception:
            continue
        c = m.get("confirmed_by_coordinator", {})
        res = "; ".join("%s: %s" % (k, ("VIOLATION" + (" (no failing input)" if v.get("no_failing_input_found") and v.get("no_failing_input_found") == v.get("violation_lines") else " with failing input")) if v["exit"] else "not caught")
                        for k, v in c.get("checks", {}).items())
        needs = str(m.get("needs", ""))[:260].replace("|", "/").replace("\n", " ")
        try:
            g = json.load(open(os.path.join(d, n, "regress.json")))
            if "skipped" in g:
                reg = "patch no longer applies at %s" % g.get("repo_head")
            else:
                reg = "%s at %s: %s" % (g["check"], g.get("repo_head"), ("VIOLATION" + (" (no failing input)" if g.get("no_failing_input_found") and g.get("no_failing_input_found") == g.get("violation_lines") else " with failing input")) if g["exit"] else "NOT CAUGHT")
        except Exception:
            reg = "-"
        rows.append("| %s | %s | %s | %s | %s | %s |" % (n, m.get("property"), needs, c.get("test_suite"), res, reg))
    return "\n".join(rows)


def appendix():
    out = []
    d = os.path.join(V, "design.d")
    for f in sorted(os.listdir(d)):
        if f.endswith(".md"):
            body = open(os.path.join(d, f)).read()
            body = re.sub(r"(?m)^(#+) ", lambda m: "##" + m.group(1) + " ", body)   # demote headings
            out.append("### E.%s\n\n%s" % (f[:-3], body))
    return "\n\n".join(out)


def main():
    p = os.path.join(V, "DESIGN.md")
    t = open(p).read()
    t = section(t, "AS-BUILT-TABLE", built_table())
    t = section(t, "FINDINGS-LEDGER", findings())
    t = section(t, "SEEDED-TABLE", seeded())
    t = section(t, "APPENDIX-E", appendix())
    open(p, "w").write(t)


if __name__ == "__main__":
    main()
