"""Shared helpers of the `lift` engine (C12, C13): enumeration and random
generation of surface statement skeletons that follow the statement grammar of
parser/src/lang.lalrpop, their rendering to a Circom function and to the
S-expression read by coq/extract/lift.ml, and parsers for the canonical lines
printed by both sides.

Skeleton (Python tuples), sizes in nodes:
  ('L',)                leaf statement                       1
  ('R',)                return                               1
  ('N', (k1, k2, ..))   declaration `var a = 1, b;` ki = 2 with initialiser, 1 without    1 + sum ki
  ('B', s1, .., sn)     block                                1 + sum
  ('W', body)           while                                1 + body
  ('I', t)              if without else                      1 + t
  ('E', t, e)           if with else                         1 + t + e
  ('F', init, body)     for (init; cond; step) body          2 + init + body   (step is a leaf)
Grammar classes: S2 (ParseStatement2) = L R B W F; S1 = S2 + E(t in S1, e in S1);
S0 = S1 + I(t in S0) + E(t in S1, e in S0 not in S1).  A while/for body is S2, a
block element is S0 or N, a for initialiser is L or N.

Two renderings of a leaf: the C12 one (`x = x + <id>` / `x += <id>`, the id is the
only number literal) and, with make_case(body, rich=<salt>), the C13 one
(Render.rich_leaf: every compound assignment of the grammar on `c<id>` /
`q<id>[..]`, the id is in the target's name)."""
import functools
import re

INIT_PATTERNS = {}


def init_patterns(n):
    """All tuples over {1,2} with sum n (n >= 1)."""
    if n in INIT_PATTERNS:
        return INIT_PATTERNS[n]
    if n == 0:
        res = [()]
    else:
        res = [(1,) + r for r in init_patterns(n - 1)]
        if n >= 2:
            res += [(2,) + r for r in init_patterns(n - 2)]
    INIT_PATTERNS[n] = res
    return res


@functools.lru_cache(maxsize=None)
def gen_init(n):
    """Declarations of size n (1 + leaves)."""
    if n < 2:
        return ()
    return tuple(('N', p) for p in init_patterns(n - 1))


@functools.lru_cache(maxsize=None)
def gen_seq(n):
    """Sequences of block elements with total size n."""
    if n == 0:
        return ((),)
    out = []
    for k in range(1, n + 1):
        heads = gen_s0(k) + gen_init(k)
        if not heads:
            continue
        for rest in gen_seq(n - k):
            for h in heads:
                out.append((h,) + rest)
    return tuple(out)


@functools.lru_cache(maxsize=None)
def gen_block(n):
    if n < 1:
        return ()
    return tuple(('B',) + seq for seq in gen_seq(n - 1))


@functools.lru_cache(maxsize=None)
def gen_s2(n):
    out = []
    if n == 1:
        out += [('L',), ('R',)]
    out += gen_block(n)
    if n >= 2:
        out += [('W', b) for b in gen_s2(n - 1)]
    # for: 2 + init + body
    for i in range(1, n - 2):
        b = n - 2 - i
        if b < 1:
            continue
        inits = ((('L',),) if i == 1 else ()) + gen_init(i)
        for ini in inits:
            for body in gen_s2(b):
                out.append(('F', ini, body))
    return tuple(out)


@functools.lru_cache(maxsize=None)
def gen_s1(n):
    out = list(gen_s2(n))
    for t in range(1, n - 1):
        e = n - 1 - t
        if e < 1:
            continue
        for tt in gen_s1(t):
            for ee in gen_s1(e):
                out.append(('E', tt, ee))
    return tuple(out)


@functools.lru_cache(maxsize=None)
def gen_nb(n):
    out = []
    if n >= 2:
        out += [('I', t) for t in gen_s0(n - 1)]
    for t in range(1, n - 1):
        e = n - 1 - t
        if e < 1:
            continue
        for tt in gen_s1(t):
            for ee in gen_nb(e):
                out.append(('E', tt, ee))
    return tuple(out)


@functools.lru_cache(maxsize=None)
def gen_s0(n):
    return gen_s1(n) + gen_nb(n)


def bodies(max_nodes):
    """All function bodies (blocks) with at most max_nodes nodes."""
    for n in range(1, max_nodes + 1):
        for b in gen_block(n):
            yield b


def size(s):
    k = s[0]
    if k in 'LR':
        return 1
    if k == 'N':
        return 1 + sum(s[1])
    if k == 'B':
        return 1 + sum(size(c) for c in s[1:])
    if k in 'WI':
        return 1 + size(s[1])
    if k == 'E':
        return 1 + size(s[1]) + size(s[2])
    if k == 'F':
        return 2 + size(s[1]) + size(s[2])
    raise ValueError(s)


def nesting_depth(s):
    k = s[0]
    if k in 'LRN':
        return 0
    if k == 'B':
        return 1 + max([nesting_depth(c) for c in s[1:]] + [0])
    if k in 'WI':
        return 1 + nesting_depth(s[1])
    if k == 'E':
        return 1 + max(nesting_depth(s[1]), nesting_depth(s[2]))
    return 1 + nesting_depth(s[2])


# --------------------------------------------------------------------------
# random skeletons
# --------------------------------------------------------------------------

def rand_stmt(rng, budget, depth, cls):
    """A random statement of grammar class cls in {'S0','S1','S2'} using at
    most `budget` nodes and nesting at most `depth`."""
    if budget <= 1 or depth <= 0:
        return ('R',) if rng.random() < 0.12 else ('L',)
    kinds = ['L', 'R', 'B', 'B', 'W', 'F']
    if cls in ('S0', 'S1'):
        kinds += ['E', 'E']
    if cls == 'S0':
        kinds += ['I', 'I']
    while True:
        k = rng.choice(kinds)
        if k in 'LR':
            if rng.random() < 0.6:
                continue
            return (k,)
        if k == 'B':
            return rand_block(rng, budget, depth)
        if k == 'W':
            return ('W', rand_stmt(rng, budget - 1, depth - 1, 'S2'))
        if k == 'I':
            return ('I', rand_stmt(rng, budget - 1, depth - 1, 'S0'))
        if k == 'E' and budget >= 3:
            bt = rng.randint(1, budget - 2)
            t = rand_stmt(rng, bt, depth - 1, 'S1')
            e = rand_stmt(rng, budget - 1 - size(t), depth - 1, 'S1' if cls == 'S1' else 'S0')
            return ('E', t, e)
        if k == 'F' and budget >= 4:
            if rng.random() < 0.5:
                ini = ('L',)
            else:
                ini = ('N', tuple(rng.choice((1, 2)) for _ in range(rng.randint(1, 2))))
            if budget - 2 - size(ini) < 1:
                continue
            return ('F', ini, rand_stmt(rng, budget - 2 - size(ini), depth - 1, 'S2'))


def rand_block(rng, budget, depth):
    elems = []
    left = budget - 1
    n = rng.choice([0, 1, 1, 2, 2, 3, 3, 4, 5, 6])
    for i in range(n):
        if left < 1:
            break
        share = max(1, left // max(1, (n - i)) + rng.randint(0, max(0, left // 2)))
        share = min(share, left)
        if share >= 2 and rng.random() < 0.12:
            pat = tuple(rng.choice((1, 2)) for _ in range(rng.randint(1, min(3, share - 1))))
            while 1 + sum(pat) > share:
                pat = pat[:-1] if len(pat) > 1 else (1,)
            st = ('N', pat)
        else:
            st = rand_stmt(rng, share, depth - 1, 'S0')
        elems.append(st)
        left -= size(st)
    return ('B',) + tuple(elems)


def rand_body(rng, max_nodes, max_depth):
    return rand_block(rng, rng.randint(1, max_nodes), rng.randint(1, max_depth))


# --------------------------------------------------------------------------
# rendering
# --------------------------------------------------------------------------

class Render:
    """Renders a skeleton to (Circom text of the statement, S-expression),
    numbering leaves and conditions 1, 2, ... in text order."""

    def __init__(self, rich=None):
        self.n = 0
        self.depth = {}      # id -> syntactic loop nesting (a loop condition counts outside)
        self.d = 0
        self.rich = rich     # None: the C12 rendering; an int: salt of the C13 rendering (rich_leaf)
        self.compound = {}   # id -> (source text, S-expression of the surface statement, position)   [rich only]

    def fresh(self):
        self.n += 1
        self.depth[self.n] = self.d
        return self.n

    def leaf(self, semi=True):
        i = self.fresh()
        if self.rich is not None:
            return self.rich_leaf(i, semi)
        if i % 3 == 0:
            return ("x += %d%s" % (i, ";" if semi else ""), "(A %d)" % i)
        return ("x = x + %d%s" % (i, ";" if semi else ""), "(L %d)" % i)

    def rich_leaf(self, i, semi):
        """C13: every compound assignment of ParseSubstitution (lang.lalrpop 259-299)
        on a scalar `c<i>` or an array element `q<i>[..]`/`q<i>[..][..]`, with
        right-hand sides that are not symmetric in their operands; the leaf is
        identified by the digits of its target's name.  The choice is a fixed
        function of (salt, id)."""
        m = (1 << 64) - 1
        h = ((self.rich + 1) * 0x9E3779B97F4A7C15 + (i + 1) * 0xD1B54A32D192ED03) & m
        h = ((h ^ (h >> 30)) * 0xBF58476D1CE4E5B9) & m
        h = ((h ^ (h >> 27)) * 0x94D049BB133111EB) & m
        h ^= h >> 31
        form, h = h % 16, h // 16
        tkind, h = h % 6, h // 6
        ekind, h = h % 4, h // 4
        ikind, h = h % 3, h // 3
        end = ";" if semi else ""
        if form == 14:
            return ("x = x + %d%s" % (i, end), "(L %d)" % i)
        if form == 15:
            return ("x += %d%s" % (i, end), "(A %d)" % i)
        idx = [("x", "(V x)"), ("%d" % i, "(N %d)" % i), ("x + 1", "(Add (V x) (N 1))")]
        if tkind == 0:
            tt, ts = "c%d" % i, "(V c%d)" % i
        elif tkind == 1:
            a = idx[ikind]
            tt, ts = "q%d[%s]" % (i, a[0]), "(V q%d %s)" % (i, a[1])
        elif tkind == 2:
            a, b = idx[ikind], idx[(ikind + 1) % 3]
            tt, ts = "q%d[%s][%s]" % (i, a[0], b[0]), "(V q%d %s %s)" % (i, a[1], b[1])
        elif tkind == 3:
            # fourth audit: three (and four) indices - the read side of the expansion must repeat ALL of them
            a, b, c = idx[ikind], idx[(ikind + 1) % 3], idx[(ikind + 2) % 3]
            if h % 2:
                tt, ts = "q%d[%s][%s][%s]" % (i, a[0], b[0], c[0]), "(V q%d %s %s %s)" % (i, a[1], b[1], c[1])
            else:
                tt = "q%d[%s][%s][%s][%s]" % (i, a[0], b[0], c[0], a[0])
                ts = "(V q%d %s %s %s %s)" % (i, a[1], b[1], c[1], a[1])
        elif tkind == 4:
            # component access in the target: c.port, c.port[i], c.port[i][j][k]
            a, b, c = idx[ikind], idx[(ikind + 1) % 3], idx[(ikind + 2) % 3]
            tt, ts = [("q%d.y" % i, "(V q%d (. y))" % i),
                      ("q%d.y[%s]" % (i, a[0]), "(V q%d (. y) %s)" % (i, a[1])),
                      ("q%d.y[%s][%s][%s]" % (i, a[0], b[0], c[0]), "(V q%d (. y) %s %s %s)" % (i, a[1], b[1], c[1]))][h % 3]
        else:
            # component array: c[i].port, c[i][j].port[k]
            a, b, c = idx[ikind], idx[(ikind + 1) % 3], idx[(ikind + 2) % 3]
            tt, ts = [("q%d[%s].z" % (i, a[0]), "(V q%d %s (. z))" % (i, a[1])),
                      ("q%d[%s][%s].z[%s]" % (i, a[0], b[0], c[0]), "(V q%d %s %s (. z) %s)" % (i, a[1], b[1], c[1]))][h % 2]
        if form == 12:
            text, sx = tt + "++", "(Inc %s)" % ts
        elif form == 13:
            text, sx = tt + "--", "(Dec %s)" % ts
        else:
            tok, op = COMPOUND_OPS[form]
            et, es = [("%d" % i, "(N %d)" % i),
                      ("(%d - %s)" % (i, tt), "(Sub (N %d) %s)" % (i, ts)),
                      ("(x - %d)" % i, "(Sub (V x) (N %d))" % i),
                      ("q0[%d] ** x" % i, "(Pow (V q0 (N %d)) (V x))" % i)][ekind]
            text, sx = "%s %s %s" % (tt, tok, et), "(Op %s %s %s)" % (op, ts, es)
        self.compound[i] = (text, sx, "statement" if semi else "for-header")
        return (text + end, "(A %d %s)" % (i, sx))

    def init(self, pat, semi=True):
        syms, sx = [], []
        for k in pat:
            d = self.fresh()
            sx.append("(L %d)" % d)
            if k == 2:
                v = self.fresh()
                sx.append("(L %d)" % v)
                syms.append("d%d = %d" % (d, v))
            else:
                syms.append("d%d" % d)
        return ("var " + ", ".join(syms) + (";" if semi else ""), "(N %s)" % " ".join(sx))

    def stmt(self, s):
        k = s[0]
        if k == 'L':
            return self.leaf()
        if k == 'R':
            i = self.fresh()
            return ("return x + %d;" % i, "(R %d)" % i)
        if k == 'N':
            return self.init(s[1])
        if k == 'B':
            parts = [self.stmt(c) for c in s[1:]]
            return ("{ " + " ".join(p[0] for p in parts) + " }" if parts else "{ }",
                    "(B" + "".join(" " + p[1] for p in parts) + ")")
        if k == 'W':
            c = self.fresh()
            self.d += 1
            b = self.stmt(s[1])
            self.d -= 1
            return ("while (x == %d) %s" % (c, b[0]), "(W %d %s)" % (c, b[1]))
        if k == 'I':
            c = self.fresh()
            t = self.stmt(s[1])
            return ("if (x == %d) %s" % (c, t[0]), "(I %d %s)" % (c, t[1]))
        if k == 'E':
            c = self.fresh()
            t = self.stmt(s[1])
            e = self.stmt(s[2])
            return ("if (x == %d) %s else %s" % (c, t[0], e[0]), "(E %d %s %s)" % (c, t[1], e[1]))
        if k == 'F':
            ini = self.leaf(semi=False) if s[1][0] == 'L' else self.init(s[1][1], semi=False)
            c = self.fresh()
            self.d += 1
            st = self.leaf(semi=False)
            b = self.stmt(s[2])
            self.d -= 1
            return ("for (%s; x == %d; %s) %s" % (ini[0], c, st[0], b[0]),
                    "(F %s %d %s %s)" % (ini[1], c, st[1], b[1]))
        raise ValueError(s)


# the compound assignment tokens of ParseSubstitution with the opcode each stands for
COMPOUND_OPS = [("+=", "Add"), ("-=", "Sub"), ("*=", "Mul"), ("**=", "Pow"), ("/=", "Div"), ("\\=", "IntDiv"),
                ("%=", "Mod"), ("<<=", "ShiftL"), (">>=", "ShiftR"), ("&=", "BitAnd"), ("|=", "BitOr"), ("^=", "BitXor")]


def render(body, rich=None):
    """(source text of a function with this body, S-expression of the body,
    {id: syntactic loop nesting})"""
    r = Render(rich)
    text, sx = r.stmt(body)
    return "function f(x) %s" % text, sx, r.depth


# --------------------------------------------------------------------------
# fourth audit: skeletons rendered as TEMPLATES with content (C12's template stage)
# --------------------------------------------------------------------------

def skeleton_features(s):
    """{'bare', 'else_if', 'nested_block', 'empty_block', 'if_no_else_ends_loop'} present in a skeleton, and its
    maximal loop nesting -> (set, int)."""
    feats = set()

    def go(x, in_block, loops):
        k = x[0]
        best = loops
        if k == 'B':
            if in_block:
                feats.add('nested_block')
            if len(x) == 1:
                feats.add('empty_block')
            for c in x[1:]:
                best = max(best, go(c, True, loops))
        elif k in 'WF':
            body = x[1] if k == 'W' else x[2]
            if body[0] != 'B':
                feats.add('bare')
            elif len(body) > 1 and body[-1][0] == 'I' and k == 'W':
                feats.add('if_no_else_ends_loop')
            best = max(best, go(body, False, loops + 1))
        elif k == 'I':
            if x[1][0] != 'B':
                feats.add('bare')
            best = max(best, go(x[1], False, loops))
        elif k == 'E':
            if x[1][0] != 'B' or x[2][0] not in 'BIE':
                feats.add('bare')
            if x[2][0] in 'IE':
                feats.add('else_if')
            best = max(best, go(x[1], False, loops), go(x[2], False, loops))
        return best
    depth = go(s, False, 0)
    return feats, depth


class TemplateRender:
    """Renders a skeleton as the body of a TEMPLATE whose leaves are real template statements (signal and component
    declarations, `<==`, `<--`, `===`, assert, log, local assignments), chosen by a fixed function of (salt, position).
    Only the liftfull stages use it: they need no ids in the text (statements are named by their spans)."""

    def __init__(self, salt):
        self.salt = salt
        self.n = 0

    def pick(self, m):
        self.n += 1
        h = ((self.salt + 1) * 0x9E3779B97F4A7C15 + self.n * 0xD1B54A32D192ED03) & ((1 << 64) - 1)
        h ^= h >> 29
        return self.n, (h * 0xBF58476D1CE4E5B9 >> 17) % m

    def leaf(self, semi=True, decl_ok=True):
        i, k = self.pick(9)
        if not decl_ok and k in (1, 6):       # a declaration is a block element only (lang.lalrpop: not a ParseStatement2)
            k = 2 if k == 1 else 8
        end = ";" if semi else ""
        if not semi:                      # for-header position: an assignment only
            return ["v += %d" % i, "v = v * %d + a" % i, "w[%d] = v" % (i % 4)][k % 3]
        return ["v += %d;" % i, "signal t%d;" % i, "b <-- a * %d + v;" % i, "a * v === %d;" % i, "log(\"l%d\", v);" % i,
                "assert(v != %d);" % i, "component c%d = A();" % i, "w[%d] = a + v;" % (i % 4), "m[%d] <== a * %d;" % (i % 4, i)][k] \
            if end else ""

    def init(self, pat, semi=True):
        syms = []
        for k in pat:
            i, _ = self.pick(2)
            syms.append("d%d = %d" % (i, i) if k == 2 else "d%d" % i)
        return "var " + ", ".join(syms) + (";" if semi else "")

    def cond(self):
        i, k = self.pick(3)
        return ["v < %d" % i, "a == %d" % i, "(v + %d) %% 2 == 0" % i][k]

    def stmt(self, s, in_block=False):
        k = s[0]
        if k in 'LR':
            return self.leaf(decl_ok=in_block)
        if k == 'N':
            return self.init(s[1])
        if k == 'B':
            parts = [self.stmt(c, True) for c in s[1:]]
            return "{ " + " ".join(parts) + " }" if parts else "{ }"
        if k == 'W':
            c = self.cond()
            return "while (%s) %s" % (c, self.stmt(s[1]))
        if k == 'I':
            c = self.cond()
            return "if (%s) %s" % (c, self.stmt(s[1]))
        if k == 'E':
            c = self.cond()
            t = self.stmt(s[1])
            return "if (%s) %s else %s" % (c, t, self.stmt(s[2]))
        if k == 'F':
            ini = self.leaf(semi=False) if s[1][0] == 'L' else self.init(s[1][1], semi=False)
            c = self.cond()
            st = self.leaf(semi=False)
            return "for (%s; %s; %s) %s" % (ini, c, st, self.stmt(s[2]))
        raise ValueError(s)


def render_template(body, salt):
    """Source of a program with helper template A and template T whose body is the skeleton with template content."""
    r = TemplateRender(salt)
    inner = r.stmt(body)
    return ("template A() { signal input x; signal output y; y <== x; } template T(n) { signal input a; signal output b; "
            "signal m[4]; var v = 0; var w[4]; %s b <== a + v; }" % inner)


def deep_nest(k, salt):
    """A skeleton with k nested loops (while / for alternating, some bare), an `else if` chain and an if without else
    closing the innermost loop body after an empty block."""
    inner = ('B', ('L',), ('B',), ('E', ('L',), ('E', ('B', ('L',)), ('I', ('L',)))), ('I', ('L',)))
    s = inner
    for j in range(k):
        if (j + salt) % 3 == 0:
            s = ('W', s if s[0] == 'B' or j % 2 else ('B', s))
        elif (j + salt) % 3 == 1:
            s = ('F', ('L',) if j % 2 else ('N', (2, 1)), s if s[0] in 'BWF' else ('B', s))
        else:
            s = ('W', ('B', ('L',), s, ('L',)))
    return ('B', ('L',), s, ('L',))


def hexline(text):
    return text.encode().hex()


# --------------------------------------------------------------------------
# reading the canonical output back (for the oracles)
# --------------------------------------------------------------------------

def parse_blocks(text):
    """'B0 d0 [L1 C2>1/-] p[] s[1]; B1 ...' -> list of dicts"""
    out = []
    text = text.strip()
    if not text:
        return out
    for part in text.split("; "):
        head, rest = part.split(" [", 1)
        items_s, rest = rest.split("] p[", 1)
        preds_s, succs_s = rest.split("] s[", 1)
        succs_s = succs_s.rstrip("]")
        bi, dp = head.split()
        items = []
        for it in items_s.split():
            if it[0] == 'L':
                items.append(('L', it[1:]))
            elif it == 'P':
                items.append(('P', None))      # a phi statement (after into_ssa)
            else:
                c, tf = it[1:].split(">")
                t, f = tf.split("/")
                items.append(('C', c, int(t), None if f == '-' else int(f)))
        out.append({"index": int(bi[1:]), "depth": int(dp[1:]), "items": items,
                    "preds": [int(x) for x in preds_s.split(",") if x],
                    "succs": [int(x) for x in succs_s.split(",") if x]})
    return out


def parse_tree(text):
    """'101:L1 C2:X|...' -> list of (bits, [events], status)"""
    out = []
    for part in text.strip().split("|"):
        if not part:
            continue
        bits, evs, st = part.split(":")
        out.append((bits, evs.split(), st))
    return out


# --------------------------------------------------------------------------
# oracles (the spec side, evaluated on the implementation's output)
# --------------------------------------------------------------------------

def split_cfg_line(impl):
    """'cfg <before> # ssa <after> # api <ok|mismatches>' -> (before, after, api) or None."""
    if not (impl.startswith("cfg ") and " # ssa " in impl):
        return None
    before, rest = impl[4:].split(" # ssa ", 1)
    after, _, api = rest.partition(" # api ")
    return before, after, api or "not-printed"


def strip_phis(text):
    """The block list text without its phi items (the model Model.Lift has no phis)."""
    def items(m):
        return "[" + " ".join(x for x in m.group(1).split(" ") if x != "P") + "] p["
    return re.sub(r"\[([^\]]*)\] p\[", items, text)


def wellformed_failures(blocks, depth_of, nest=None):
    """The clauses of C12 on a block list of the implementation; depth_of maps
    every leaf/condition id of the source to its syntactic loop nesting.
    With `nest` (a list of (id, depth) in source order, ids being any strings -
    the liftfull stage names a statement by its meta, which several statements
    may share) the last clause is the equality of lists of
    C12_loop_depth_is_nesting: the items of the graph in block order, each with
    the depth of its block, are `nest`.
    Phi statements (items ('P', None), present after into_ssa only) must come
    first in their block.
    Returns a list of violated clauses (strings)."""
    bad = []
    n = len(blocks)
    if n == 0:
        return ["no blocks"]
    for i, b in enumerate(blocks):
        if b["index"] != i:
            bad.append("block at position %d has index %d" % (i, b["index"]))
    if blocks[0]["preds"]:
        bad.append("entry block has predecessors %s" % blocks[0]["preds"])
    # edges inside range, mirror
    for i, b in enumerate(blocks):
        for j in b["succs"]:
            if not (0 <= j < n):
                bad.append("successor %d of block %d does not exist" % (j, i))
            elif i not in blocks[j]["preds"]:
                bad.append("%d -> %d is a successor edge but not a predecessor edge" % (i, j))
        for j in b["preds"]:
            if not (0 <= j < n):
                bad.append("predecessor %d of block %d does not exist" % (j, i))
            elif i not in blocks[j]["succs"]:
                bad.append("%d -> %d is a predecessor edge but not a successor edge" % (j, i))
    if bad:
        return bad
    # reachability
    seen, todo = {0}, [0]
    while todo:
        i = todo.pop()
        for j in blocks[i]["succs"]:
            if j not in seen:
                seen.add(j)
                todo.append(j)
    for i in range(n):
        if i not in seen:
            bad.append("block %d is unreachable" % i)
    # branches
    for i, b in enumerate(blocks):
        its = b["items"]
        for k, it in enumerate(its):
            if it[0] == 'C' and k != len(its) - 1:
                bad.append("branch at position %d of block %d is not last" % (k, i))
            if it[0] == 'P' and k > 0 and its[k - 1][0] != 'P':
                bad.append("phi statement at position %d of block %d comes after a statement that is not a phi "
                           "(phis must come first)" % (k, i))
        has_branch = bool(its) and its[-1][0] == 'C'
        if has_branch:
            _, _, t, f = its[-1]
            if not (0 <= t < n) or t not in b["succs"]:
                bad.append("true target %d of block %d is not a successor" % (t, i))
            if f is not None and (not (0 <= f < n) or f not in b["succs"]):
                bad.append("false target %d of block %d is not a successor" % (f, i))
        if len(set(b["succs"])) != len(b["succs"]):
            bad.append("duplicate successors in block %d" % i)
        if len(b["succs"]) > (2 if has_branch else 1):
            bad.append("block %d has %d successors (branch: %s)" % (i, len(b["succs"]), has_branch))
    # dominance by paths: i dominates j iff j is not reachable once i is removed
    for i in range(1, n):
        seen, todo = {0}, [0]
        while todo:
            a = todo.pop()
            for j in blocks[a]["succs"]:
                if j != i and j not in seen:
                    seen.add(j)
                    todo.append(j)
        for j in range(n):
            if j not in seen and j != i and j < i:
                bad.append("block %d dominates block %d" % (i, j))
    # loop depth and every item exactly once
    if nest is not None:
        got = [(it[1], b["depth"]) for b in blocks for it in b["items"] if it[0] != 'P']
        # (a) the clause of the property text: the recorded loop depth of a block is the number of loops whose body
        # holds its statements.  A statement of the graph is located by its SPAN: the depth(s) of the source
        # statement(s) with that span, else (fourth audit: a lifting that takes the meta of a `while` arm from its
        # condition, or makes two IR statements of one source statement, touches no clause of the property) the depth
        # of the innermost source statement whose span contains it.
        allowed, spans = {}, []
        for ident, dep in nest:
            allowed.setdefault(ident, set()).add(dep)
            try:
                a, z = ident.split("_")
                spans.append((int(a), int(z), dep))
            except ValueError:
                pass
        for ident, dep in got:
            if ident in allowed:
                if dep not in allowed[ident]:
                    bad.append("a block with loop depth %d holds the statement at %s, which lies in %s loop bodies"
                               % (dep, ident, sorted(allowed[ident])))
                continue
            try:
                a, z = (int(x) for x in ident.split("_"))
            except ValueError:
                continue
            encl = [(z2 - a2, d2) for a2, z2, d2 in spans if a2 <= a and z <= z2]
            if encl and dep != min(encl)[1]:
                bad.append("a block with loop depth %d holds a statement at %s, inside the source statement of nesting %d"
                           % (dep, ident, min(encl)[1]))
        # (b) a clause of the CHECK (C12_loop_depth_is_nesting / C12_every_item_exactly_once about the mirror), not of
        # the property text: statement identity by span - every source statement exactly once, in source order
        if got != list(nest):
            k = 0
            while k < min(len(got), len(nest)) and got[k] == tuple(nest[k]):
                k += 1
            bad.append("IDENTITY: the statements of the graph in block order with the loop depth of their block differ from the "
                       "statements of the source in source order with their syntactic loop nesting at position %d: graph %s, "
                       "source %s (%d / %d items)" % (k, got[k:k + 2], list(nest[k:k + 2]), len(got), len(nest)))
        return bad
    ids = []
    for i, b in enumerate(blocks):
        for it in b["items"]:
            if it[0] == 'P':
                continue
            ident = it[1]
            ids.append(ident)
            if not ident.isdigit() or int(ident) not in depth_of:
                bad.append("block %d holds an item with unknown id %s" % (i, ident))
            elif depth_of[int(ident)] != b["depth"]:
                bad.append("block %d has loop depth %d but item %s is nested in %d loops"
                           % (i, b["depth"], ident, depth_of[int(ident)]))
    if sorted(ids, key=lambda x: (len(x), x)) != [str(k) for k in sorted(depth_of)]:
        bad.append("items of the graph %s are not the statements of the source, each once" % ids)
    return bad


def containment_failures(trace_tree, walk_tree):
    """C13 on one program: for every explored decision list, the structured
    execution must be a prefix of the walk (equal when no return is executed)."""
    bad = []
    walks = {}
    for bits, evs, st in walk_tree:
        walks[bits] = (evs, st)
        if st == 'D':
            bad.append("walk under %s does not stop (step cap)" % bits)
    for bits, evs, st in trace_tree:
        if st == 'D':
            bad.append("trace under %s: fuel" % bits)
        elif st in 'EX':
            w = walks.get(bits)
            if w is None:
                bad.append("under decisions %s the source executes %s (%s) but the walk takes other decisions: %s"
                           % (bits, " ".join(evs), st, sorted(walks)))
            elif w[0] != evs or w[1] != st:
                bad.append("under decisions %s the source executes %s (%s), the walk meets %s (%s)"
                           % (bits, " ".join(evs), st, " ".join(w[0]), w[1]))
        else:
            below = [(b, w) for b, w in walks.items() if b.startswith(bits)]
            if not below:
                bad.append("under decisions %s the source returns after %s but the walk stops or branches earlier: %s"
                           % (bits, " ".join(evs), sorted(walks)))
            for b, w in below:
                if w[0][:len(evs)] != evs:
                    bad.append("under decisions %s the source executes %s up to its return, the walk (%s) meets %s"
                               % (bits, " ".join(evs), b, " ".join(w[0])))
    return bad


# --------------------------------------------------------------------------
# running both sides
# --------------------------------------------------------------------------

def make_case(body, rich=None):
    if rich is None:
        text, sx, depth = render(body)
        return {"body": body, "src": text, "sx": sx, "depth": depth}
    r = Render(rich)
    text, sx = r.stmt(body)
    return {"body": body, "src": "function f(x) %s" % text, "sx": sx, "depth": r.depth, "rich": rich,
            "compound": r.compound}


def count_else(s):
    """Number of if/else statements in a skeleton."""
    k = s[0]
    if k in 'LRN':
        return 0
    if k == 'B':
        return sum(count_else(c) for c in s[1:])
    if k in 'WI':
        return count_else(s[1])
    if k == 'E':
        return 1 + count_else(s[1]) + count_else(s[2])
    return count_else(s[2])


# `Cfg::into_ssa` used to need memory exponential in the number of if/else
# statements (4 GB for 6 nested ones, > 60 GB for 8; found here, repaired by
# /repo commit 7224234).  As a fail-safe the harness still runs under an
# address-space limit, and programs with very many if/else statements are
# compared before SSA only.
SSA_MAX_ELSE = 40
AS_LIMIT = 4 * 1024 ** 3


def harness_cmd(common, mode_args):
    hb = common.build_harness("lift")
    import shutil
    pl = shutil.which("prlimit")
    if pl:
        return pl, ["--as=%d" % AS_LIMIT, hb] + mode_args
    return hb, mode_args


def run_cfg(common, cases, chunk=200000):
    """[(case, impl_line, model_line)]"""
    mb = common.build_model("lift")
    out = []
    for a in range(0, len(cases), chunk):
        part = cases[a:a + chunk]
        with_ssa = [i for i, c in enumerate(part) if count_else(c["body"]) <= SSA_MAX_ELSE]
        without = [i for i, c in enumerate(part) if count_else(c["body"]) > SSA_MAX_ELSE]
        impl = [None] * len(part)
        for idx, mode in ((with_ssa, "cfg"), (without, "cfg-nossa")):
            if idx:
                b, args = harness_cmd(common, [mode])
                res = common.run_lines(b, args, [hexline(part[i]["src"]) for i in idx], shards=common.NPROC)
                if len(res) != len(idx):
                    raise common.BuildError("lift engine: output length mismatch", "%d %d" % (len(res), len(idx)))
                for i, r in zip(idx, res):
                    impl[i] = r
        model = common.run_lines(mb, ["cfg"], [c["sx"] for c in part], shards=common.NPROC)
        if len(impl) != len(part) or len(model) != len(part):
            raise common.BuildError("lift engine: output length mismatch", "%d %d %d" % (len(part), len(impl), len(model)))
        out.extend(zip(part, impl, model))
    return out


def run_walk(common, cases, n, chunk=100000):
    mb = common.build_model("lift")
    out = []
    for a in range(0, len(cases), chunk):
        part = cases[a:a + chunk]
        b, args = harness_cmd(common, ["walk", str(n)])
        impl = common.run_lines(b, args, [hexline(c["src"]) for c in part], shards=common.NPROC)
        model = common.run_lines(mb, ["walk", str(n)], [c["sx"] for c in part], shards=common.NPROC)
        if len(impl) != len(part) or len(model) != len(part):
            raise common.BuildError("lift engine: output length mismatch", "%d %d %d" % (len(part), len(impl), len(model)))
        out.extend(zip(part, impl, model))
    return out


def parse_forms(text):
    """'7=(= (V c7) (Sub (V c7) (N 7)))|9=...' -> {id: [form, ...]}"""
    out = {}
    for part in text.strip().split("|"):
        if part:
            k, _, v = part.partition("=")
            out.setdefault(k, []).append(v)
    return out


def run_forms(common, cases, chunk=200000):
    """C13: [(case, impl_line, model_line)] with the canonical form of every
    lifted assignment to a c<id>/q<id> target (harness, mode `forms`) and the
    expected plain assignment of every compound leaf by Spec.SurfaceSpec
    .expected_statement and by the mirror Model.Shortcuts.parse_substitution
    (model driver, mode `forms`)."""
    mb = common.build_model("lift")
    out = []
    for a in range(0, len(cases), chunk):
        part = cases[a:a + chunk]
        b, args = harness_cmd(common, ["forms"])
        impl = common.run_lines(b, args, [hexline(c["src"]) for c in part], shards=common.NPROC)
        model = common.run_lines(mb, ["forms"], [c["sx"] for c in part], shards=common.NPROC)
        if len(impl) != len(part) or len(model) != len(part):
            raise common.BuildError("lift engine: output length mismatch", "%d %d %d" % (len(part), len(impl), len(model)))
        out.extend(zip(part, impl, model))
    return out


def forms_compare(case, impl, model):
    """(spec failures, mirror disagreements): lists of strings.  Every compound
    leaf of the source must be lifted, exactly once, as the plain assignment the
    specification expects.
    Second audit: Spec.SurfaceSpec.expected_statement and
    Model.Shortcuts.parse_substitution are the same function written twice
    (Proofs.SurfaceProofs.parse_substitution_is_expected_statement, by
    reflexivity): `spec` and `mirror` below are always equal, so the two lists
    are one comparison reported under two headings, not two independent checks."""
    if not (impl.startswith("forms ") and model.startswith("forms ") and " # " in model):
        return (["forms not available: impl %s / spec %s" % (impl[:200], model[:200])], [])
    spec_s, mirror_s = model[6:].split(" # ", 1)
    got, spec, mirror = parse_forms(impl[6:]), parse_forms(spec_s), parse_forms(mirror_s)
    bad, dis = [], []
    texts = case.get("compound", {})
    for k in sorted(set(got) | set(spec), key=lambda x: (len(x), x)):
        src = texts.get(int(k), ("?",))[0] if k.isdigit() else "?"
        if got.get(k) != spec.get(k):
            bad.append("`%s` is lifted as %s, its expansion is %s" % (src, got.get(k), spec.get(k)))
        if got.get(k) != mirror.get(k):
            dis.append("`%s`: implementation %s, Model.Shortcuts %s" % (src, got.get(k), mirror.get(k)))
    return bad, dis


def cfg_compare(case, impl, model):
    """None if the implementation's block lists (before and after SSA) equal
    the model's, else a dict describing the disagreement."""
    parts = split_cfg_line(impl)
    if parts is not None:
        before, after, _api = parts
        m = model[4:] if model.startswith("cfg ") else model
        # the phi statements of the graph after into_ssa are no statements of the model (checked by the clause
        # "phis first" of wellformed_failures instead)
        if before == m and (after == "skipped" or strip_phis(after) == m):
            return None
    return {"src": case["src"], "sx": case["sx"], "impl": impl, "model": model}


def to_jsonable(body):
    return [to_jsonable(x) if isinstance(x, tuple) else x for x in body]


def from_jsonable(body):
    return tuple(from_jsonable(x) if isinstance(x, list) else x for x in body)
