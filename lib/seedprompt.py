#!/usr/bin/env python3
"""lib/seedprompt.py <round tag, e.g. s5> <property id>...
Writes /tmp/<tag>-prompt-<id>.txt: the task given to a fresh sub-agent that knows nothing of /verif
(property text + its own scratch worktree), listing the earlier experiments for the property to avoid."""
import glob, json, os, sys
V = os.path.dirname(os.path.dirname(os.path.abspath(__file__)))
props = {json.loads(l)["id"]: json.loads(l) for l in open(os.path.join(V, "properties.jsonl")) if l.strip()}
tag = sys.argv[1]
for pid in sys.argv[2:]:
    p = props[pid]
    earlier = []
    for m in sorted(glob.glob(os.path.join(V, "seeded", "*", "meta.json"))):
        try:
            d = json.load(open(m))
        except Exception:
            continue
        if d.get("property") == pid or os.path.basename(os.path.dirname(m)).startswith(pid + "-"):
            earlier.append(" ".join(str(d.get("summary", "")).split())[:260])
    wt, out = "/tmp/%s-%s" % (tag, pid), "/tmp/%s-%s-out" % (tag, pid)
    t = """You are helping test a verification setup for the Rust project trailofbits/circomspect (a static analyzer / linter for Circom zero-knowledge circuits). Your job is to play a developer who makes a plausible change to the project that BREAKS one stated semantic property while everything still compiles and the project's existing test suite still passes.

You work ONLY in your own scratch git worktree of the project: {wt} (already created, at the project's current HEAD). Do not read, write or run anything under /repo or /verif, and do not create further git worktrees. Build with `CARGO_TARGET_DIR={wt}-target cargo build --offline -p circomspect` and test with `CARGO_TARGET_DIR={wt}-target cargo test --workspace --offline` (the sandbox has no network; 59 tests pass on the unchanged tree). The CLI binary is then {wt}-target/debug/circomspect (run with `--help` for options).

The property to break ({pid}: {title}):

"{stmt}"

Quantifier/scope: {quant}
Anchors in the code: {anch}

What I want from you:
1. Read the relevant code until you understand how the property is upheld today.
2. Make a change to the project's source (not its tests) of the kind a real developer could make by mistake or as a well-meant refactor/optimisation/feature (a few to a few dozen lines), such that:
   - the workspace still compiles, and `cargo test --workspace --offline` still passes entirely (same 59 tests, unedited);
   - the property is now violated, but only under a specific circumstance (a particular shape of input, option, ordering, value range, nesting...) - not on every input, and not on the trivial examples under the project's examples/ or tests; something that needs thought to hit;
   - the change is NOT a near-copy of these earlier experiments for the same property (pick a different function, stage or mechanism): {earlier}
3. Demonstrate the violation on the real CLI (or, when the property is about an internal structure the CLI does not show, with a small Rust test program/example you add OUTSIDE the patch, e.g. under {out}/, that depends on the worktree's crates by path): a concrete input on which the unchanged tree behaves per the property and the changed tree does not.

Deliver in {out}/:
- patch.diff : `git diff` of your change against HEAD (source change only; must apply with `git apply` to a clean checkout of HEAD);
- demo.sh : a bash script taking the path of a checkout as $1, which builds what it needs there using `CARGO_TARGET_DIR={wt}-demo-target` (offline) and exits 0 when the property holds on the demonstration input and 1 (printing what went wrong) when it is violated; plus any input files it needs, referenced relative to the script's own directory. It must exit 0 on the unchanged tree (use `git archive HEAD | tar -x -C <dir>` for a clean copy) and 1 on the changed tree - run both and say so;
- meta.json : {{"property": "{pid}", "summary": what you changed and where, "needs": precisely what an input must look like for the violation to show and where it does NOT show, "why_tests_pass": why the suite stays green, "ran": the commands you ran and their outcomes}}.

When done: leave the worktree with your change applied, delete {wt}-target and {wt}-demo-target (disk is limited), and report in a few sentences what you changed and the triggering input. Do not commit anything. Do not touch /repo or /verif.""".format(
        wt=wt, out=out, pid=pid, title=p["title"], stmt=p["statement"], quant=p["quantifier"],
        anch=json.dumps(p["anchors"]), earlier=" /// ".join(earlier) if earlier else "(none yet)")
    open("/tmp/%s-prompt-%s.txt" % (tag, pid), "w").write(t)
    print(pid, len(earlier), "earlier experiments")
