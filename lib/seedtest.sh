#!/bin/bash
# lib/seedtest.sh <seed dir under /tmp, e.g. seed-C16-out> <name> <check ids...>
# Confirms a seeded change (compiles, suite green, demo passes without / fails with),
# runs the named checks against it in a scratch worktree, and files it under /verif/seeded/<name>/.
set -u
SRC=/tmp/$1; NAME=$2; shift 2
WT=/tmp/wt-seedtest-$NAME
OUT=/verif/seeded/$NAME
mkdir -p $OUT
cp -r $SRC/* $OUT/ 2>/dev/null
git -C /repo worktree add -q $WT HEAD || exit 2
cd $WT
echo "== demo on the unchanged tree"; bash $OUT/demo.sh $WT > $OUT/demo_clean.log 2>&1; RC_CLEAN=$?; echo "rc=$RC_CLEAN"
git apply $OUT/patch.diff || { echo "patch does not apply"; git -C /repo worktree remove --force $WT; exit 3; }
echo "== test suite with the change"; CARGO_TARGET_DIR=/tmp/seedtest-target-$NAME cargo test --workspace --offline > $OUT/tests.log 2>&1; RC_T=$?
PASS=$(grep -E "^test result" $OUT/tests.log | awk '{s+=$4; f+=$6} END {print s" passed, "f" failed"}'); echo "rc=$RC_T $PASS"
echo "== demo with the change"; bash $OUT/demo.sh $WT > $OUT/demo_changed.log 2>&1; RC_CH=$?; echo "rc=$RC_CH"
cd /verif
RESULTS=""
for c in "$@"; do
  VERIF_REPO=$WT ./check $c quick > $OUT/check_$c.log 2>&1; rc=$?
  nv=$(grep -c "^VIOLATION" $OUT/check_$c.log); nf=$(grep -c "no-failing-input-found" $OUT/check_$c.log)
  echo "== check $c: rc=$rc violations=$nv (without failing input: $nf)"
  RESULTS="$RESULTS\"$c\": {\"exit\": $rc, \"violation_lines\": $nv, \"no_failing_input_found\": $nf},"
done
python3 - "$OUT" "$NAME" "$RC_CLEAN" "$RC_T" "$PASS" "$RC_CH" "{${RESULTS%,}}" <<'PY'
import json, sys, os
out, name, rc_clean, rc_t, passed, rc_ch, results = sys.argv[1:8]
meta = {}
p = os.path.join(out, "meta.json")
if os.path.exists(p):
    try:
        meta = json.load(open(p))
    except Exception:
        meta = {"agent_meta_unparsed": open(p).read()[:2000]}
meta["confirmed_by_coordinator"] = {"demo_exit_on_unchanged_tree": int(rc_clean), "test_suite_exit_with_change": int(rc_t),
                                    "test_suite": passed, "demo_exit_with_change": int(rc_ch),
                                    "checks": json.loads(results),
                                    "how": "lib/seedtest.sh: scratch worktree of /repo HEAD, demo, git apply, cargo test --workspace --offline, demo, VERIF_REPO=<worktree> ./check <id> quick"}
json.dump(meta, open(p, "w"), indent=1)
PY
TAG=$(echo "${WT#/}" | sed -E "s/[^A-Za-z0-9]+/_/g")
git -C /repo worktree remove --force $WT; rm -rf "/verif/.cache/alt/$TAG" /tmp/seedtest-target-$NAME
