"""Reference interpreter used as the violation-search oracle of C06/C07/C20.


It executes the *pre-SSA* CFG dump of a definition (unversioned store, Circom's
documented field semantics written here independently in Python integers) and,
in lock step, reads the claims (constant value, degree range) the analysis
attached to the node at the same position of the SSA dump. Leading phi
statements of an SSA block are checked against the store at block entry."""

UNK = None  # opaque value (calls, unknown array elements, components)


class Stop(Exception):
    pass


def nbits(p):
    return p.bit_length()


def sval(x, p):
    return x - p if x >= p // 2 + 1 else x


def infix(op, a, b, p):
    if a is UNK or b is UNK or isinstance(a, list) or isinstance(b, list):
        return UNK
    if op == "add":
        return (a + b) % p
    if op == "sub":
        return (a - b) % p
    if op == "mul":
        return (a * b) % p
    if op == "div":
        if b == 0:
            raise Stop()
        return (a * pow(b, p - 2, p)) % p
    if op == "idiv":
        if b == 0:
            raise Stop()
        return a // b
    if op == "mod":
        if b == 0:
            raise Stop()
        return a % b
    if op == "pow":
        return pow(a, b, p)
    if op in ("shl", "shr"):
        left = (op == "shl")
        k = b
        if k > p // 2:
            left = not left
            k = p - k
        if left:
            if k >= nbits(p):
                return 0
            return ((a << k) & ((1 << nbits(p)) - 1)) % p
        if k >= nbits(p) + 2:
            return 0
        return a >> k
    if op == "bor":
        return (a | b) % p
    if op == "band":
        return (a & b) % p
    if op == "bxor":
        return (a ^ b) % p
    if op == "lt":
        return int(sval(a, p) < sval(b, p))
    if op == "le":
        return int(sval(a, p) <= sval(b, p))
    if op == "gt":
        return int(sval(a, p) > sval(b, p))
    if op == "ge":
        return int(sval(a, p) >= sval(b, p))
    if op == "eq":
        return int(a == b)
    if op == "neq":
        return int(a != b)
    if op == "and":
        return int(a != 0 and b != 0)
    if op == "or":
        return int(a != 0 or b != 0)
    raise ValueError(op)


def prefix(op, a, p):
    if a is UNK or isinstance(a, list):
        return UNK
    if op == "neg":
        return (-a) % p
    if op == "not":
        return int(a == 0)
    if op == "compl":
        return (((1 << 256) - 1) - (a % (1 << 256))) % p
    raise ValueError(op)


def key(v):
    return (v[1], v[2])  # (name, suffix) of (v NAME SUFFIX VERSION)


class Run:
    def __init__(self, pre, ssa, p, inputs, max_steps=400):
        self.p = p
        self.pre_blocks = pre[4][1:]
        self.ssa_blocks = ssa[4][1:]
        self.store = {}
        self.obs = []          # (pos, context, value, claim_val, claim_deg)
        self.path = []
        self.hdr_seq = []      # loop headers entered so far (blocks with a back edge into them)
        self.headers = set(int(b[1]) for b in self.pre_blocks if any(int(q) >= int(b[1]) for q in b[4]))
        # natural loops: header h, back edges u -> h (u >= h in block order); body = h and the blocks from which such a u
        # is reached backwards without crossing h
        self.loops = {}
        for h in self.headers:
            body = {h}
            work = [int(q) for q in self.pre_blocks[h][4] if int(q) >= h]
            while work:
                u = work.pop()
                if u not in body:
                    body.add(u)
                    work += [int(q) for q in self.pre_blocks[u][4]]
            self.loops[h] = body
        self.lstack = []       # the loops the run is in, innermost last: [header, iteration number]
        self.visits = {}
        self.max_steps = max_steps
        self.steps = 0
        self.last_truth = {}   # block index -> truth value of its branch condition at its last evaluation
        self.arrivals = []     # (block, context, predecessor block, frozen truth values of the deciding conditions)
        self.idoms = None      # immediate-dominator table (set by the caller for the control-dependence audit)
        self.comp_reads = 0    # port reads evaluated as indeterminates
        self.phi_claims_seen = 0
        self.cut = False       # stopped by the step limit (not by the program)
        self.decl_types = {}
        for d in pre[3][1:]:
            self.decl_types[key(d[0])] = d[1]
        for prm in pre[2][1:]:
            self.store[key(prm)] = inputs.get(("param", prm[1]), 0)
        self.inputs = inputs

    def read(self, v):
        k = key(v)
        t = self.decl_types.get(k)
        if t in ("sigin", "sigout", "sigint"):
            # every signal is an independent indeterminate (property C07), whatever was assigned to it;
            # no constant is ever claimed for a signal, so this over-approximates the executions for C06
            return self.inputs.get(("sig", v[1]), 0)
        if k in self.store:
            return self.store[k]
        if t == "local":
            return 0           # Circom: an unassigned variable is 0
        return UNK

    def context(self):
        return tuple((h, n) for h, n in self.lstack)

    def context_entering(self, b):
        """The context the run will be in once it has entered block b (without changing the state)."""
        st = [list(x) for x in self.lstack]
        self._enter(st, b)
        return tuple((h, n) for h, n in st)

    def _enter(self, st, b):
        while st and b not in self.loops[st[-1][0]]:
            st.pop()
        if b in self.headers:
            if st and st[-1][0] == b:
                st[-1][1] += 1
            else:
                st.append([b, 0])

    def enter(self, b):
        self._enter(self.lstack, b)

    def note(self, pos, value, know):
        if know[1] != "-" or know[2] != "-":
            # the iteration context: the loops the run is in with their iteration numbers (runs whose trip counts
            # depend on the valuation are compared where they are in the same iteration of the same loops; behind a
            # loop all runs are compared again, however many iterations each of them made)
            hs = self.context()
            ctxk = (pos, hs)
            n = self.visits.get(ctxk, 0)
            self.visits[ctxk] = n + 1
            self.obs.append((pos, (hs, n), value, know[1], know[2]))

    def ev(self, e, s, pos):
        """e: pre-SSA expression, s: SSA expression at the same position."""
        tag = e[0]
        p = self.p
        if tag == "num":
            val = int(e[1], 16) % p
            know = s[2]
        elif tag == "var":
            val = self.read(e[1])
            know = s[2]
        elif tag == "infix":
            a = self.ev(e[2], s[2], pos + (0,))
            b = self.ev(e[3], s[3], pos + (1,))
            val = infix(e[1], a, b, p)
            know = s[4]
        elif tag == "prefix":
            a = self.ev(e[2], s[2], pos + (0,))
            val = prefix(e[1], a, p)
            know = s[3]
        elif tag == "switch":
            c = self.ev(e[1], s[1], pos + (0,))
            if c is UNK or isinstance(c, list):
                raise Stop()
            # only the taken branch is evaluated
            val = self.ev(e[2], s[2], pos + (1,)) if c != 0 else self.ev(e[3], s[3], pos + (2,))
            know = s[4]
        elif tag == "call":
            for i, (x, y) in enumerate(zip(e[2], s[2])):
                self.ev(x, y, pos + (i,))
            val = UNK
            know = s[3]
        elif tag == "array":
            val = [self.ev(x, y, pos + (i,)) for i, (x, y) in enumerate(zip(e[1], s[1]))]
            know = s[2]
        elif tag == "access" and self.decl_types.get(key(e[1])) in ("sigin", "sigout", "sigint", "component", "anoncomponent") and "__elem__" in self.inputs:
            # an element of a signal array is an indeterminate of its own; so is a port of a component (an unknown
            # signal: whatever the sub-circuit computes, the template sees a fresh degree-1 indeterminate), addressed by
            # the component element, the port name and the port indices
            idxs = []
            for i, (a, b) in enumerate(zip(e[2], s[2])):
                idxs.append(self.ev(a[1], b[1], pos + (i,)) if a[0] == "idx" else "." + a[1])
            if self.decl_types.get(key(e[1])) in ("component", "anoncomponent"):
                self.comp_reads += 1
            if all(isinstance(ix, (int, str)) for ix in idxs):
                val = self.inputs["__elem__"](e[1][1], tuple(idxs))
            else:
                val = UNK
            know = s[3]
        elif tag == "access":
            base = self.read(e[1])
            val = base
            for i, (a, b) in enumerate(zip(e[2], s[2])):
                if a[0] == "idx":
                    ix = self.ev(a[1], b[1], pos + (i,))
                    if isinstance(val, list) and isinstance(ix, int) and 0 <= ix < len(val):
                        val = val[ix]
                    else:
                        val = UNK
                else:
                    val = UNK
            know = s[3]
        elif tag == "update":
            rv = self.ev(e[3], s[3], pos + (99,))
            base = self.read(e[1])
            val = UNK
            acc = e[2]
            idxs = []
            for i, (a, b) in enumerate(zip(acc, s[2])):
                if a[0] == "idx":
                    idxs.append(self.ev(a[1], b[1], pos + (i,)))
                else:
                    idxs.append("comp")
            if isinstance(base, list) and idxs and all(isinstance(ix, int) for ix in idxs):
                val = _set_nested(base, idxs, rv)
            know = s[4]
        else:
            raise ValueError(tag)
        self.note(pos, val, know)
        return val

    def run(self):
        try:
            self._run()
        except Stop:
            pass
        return self

    def deciders(self, j):
        """Blocks whose branch can decide along which edge block j is entered: the blocks ending in a branch on
        the dominator-tree paths from the predecessors of j up to and including its immediate dominator
        (the rule of Spec.DegSem.decides, written again here to be audited against the concrete runs)."""
        preds = [int(q) for q in self.pre_blocks[j][4]]
        if len(preds) < 2 or self.idoms is None:
            return []
        stop = self.idoms[j]
        out = set()
        for q in preds:
            cur = q
            for _ in range(len(self.pre_blocks) + 1):
                sts = self.pre_blocks[cur][3]
                if sts and sts[-1][0] == "if":
                    out.add(cur)
                if cur == stop or self.idoms[cur] is None:
                    break
                cur = self.idoms[cur]
        return sorted(out)

    def _run(self):
        b = 0
        prev = None
        while True:
            if prev is not None and self.idoms is not None and len(self.pre_blocks[b][4]) >= 2:
                hs = self.context_entering(b)
                ctx = (hs, sum(1 for a in self.arrivals if a[0] == b and a[1][0] == hs))
                self.arrivals.append((b, ctx, prev, tuple((d, self.last_truth.get(d)) for d in self.deciders(b))))
            prev = b
            self.path.append(b)
            self.enter(b)
            if b in self.headers:
                self.hdr_seq.append(b)
            pre = self.pre_blocks[b]
            ssa = self.ssa_blocks[b]
            sst = ssa[3]
            nphi = 0
            for st in sst:
                # leading phi statements are SSA artefacts: their claims are checked
                # where the variable is read (the `var` nodes), not here
                if st[0] == "subst" and st[4][0] == "phi":
                    nphi += 1
                else:
                    break
            # a claim on a leading phi statement is a claim about the value its variable holds when the block is
            # entered (position: negative statement index, so that stmt_at finds the phi statement)
            for j in range(nphi):
                ph = sst[j]
                k = key(ph[2])
                if self.decl_types.get(k, "local") == "local" and k in self.store:
                    self.phi_claims_seen += 1
                    self.note((b, j - nphi), self.store[k], ph[4][2])
                    if ph[5] != "-":
                        self.note((b, j - nphi, "stmt"), self.store[k], ["k", ph[5], "-"])
            nxt = None
            for i, st in enumerate(pre[3]):
                self.steps += 1
                if self.steps > self.max_steps:
                    self.cut = True
                    raise Stop()
                s = sst[i + nphi]
                pos = (b, i)
                tag = st[0]
                if tag == "decl":
                    dims = [self.ev(x, y, pos + ("dim", j)) for j, (x, y) in enumerate(zip(st[4], s[4]))]
                    if st[3] == "local" and dims and all(isinstance(d, int) and 0 < d <= 16 for d in dims):
                        for nm in st[2]:       # Circom: the elements of a declared array are 0 until assigned
                            self.store[key(nm)] = _zeros(dims)
                elif tag == "subst":
                    val = self.ev(st[4], s[4], pos)
                    if s[5] != "-":
                        self.note(pos + ("stmt",), val, ["k", s[5], "-"])
                    self.store[key(st[2])] = val
                elif tag == "if":
                    c = self.ev(st[2], s[2], pos)
                    if c is UNK or isinstance(c, list):
                        raise Stop()
                    self.last_truth[b] = (c != 0)
                    if c != 0:
                        nxt = int(st[3])
                    elif st[4] != "-":
                        nxt = int(st[4])
                    else:
                        others = [int(x) for x in pre[5] if int(x) != int(st[3])]
                        nxt = others[0] if others else None
                        if nxt is None:
                            raise Stop()
                elif tag == "ret":
                    self.ev(st[2], s[2], pos)
                    raise Stop()
                elif tag == "ceq":
                    self.ev(st[2], s[2], pos + (0,))
                    self.ev(st[3], s[3], pos + (1,))
                elif tag == "assert":
                    c = self.ev(st[2], s[2], pos)
                    if c == 0:
                        raise Stop()
                elif tag == "log":
                    for j, (x, y) in enumerate(zip(st[2], s[2])):
                        if x[0] == "e":
                            self.ev(x[1], y[1], pos + (j,))
            if nxt is None:
                succ = [int(x) for x in pre[5]]
                if len(succ) == 1:
                    nxt = succ[0]
                else:
                    raise Stop()
            b = nxt


def value_claim_ok(claim, value, p):
    if value is UNK or isinstance(value, list):
        return None      # not checkable
    if claim[0] == "f":
        return int(claim[1], 16) % p == value
    if claim[0] == "b":
        return (1 if claim[1] == "1" else 0) == value
    return None


DEG_N = {"c": 0, "l": 1, "q": 2, "n": 99}


def check_values(pre, ssa, p, valuations, max_steps=400, stats=None):
    """Returns list of failing observations: (valuation index, pos, visit, value, claim)."""
    bad = []
    exercised = 0
    for vi, inputs in enumerate(valuations):
        inputs = dict(inputs)
        inputs["__elem__"] = (lambda name, idxs, vi=vi: elem_hash(name, idxs, 3 + vi, p, False))
        r = Run(pre, ssa, p, inputs, max_steps).run()
        if stats is not None:
            stats["runs"] = stats.get("runs", 0) + 1
            stats["runs_cut_by_the_step_limit"] = stats.get("runs_cut_by_the_step_limit", 0) + r.cut
        for pos, n, val, cv, cd in r.obs:
            if cv != "-":
                ok = value_claim_ok(cv, val, p)
                if ok is not None:
                    exercised += 1
                    if not ok:
                        bad.append((vi, pos, n, val, cv))
    return bad, exercised


def finite_diff(vals, order, p):
    cur = list(vals)
    for _ in range(order):
        cur = [(cur[i + 1] - cur[i]) % p for i in range(len(cur) - 1)]
    return cur


def _set_nested(base, idxs, rv):
    """A copy of the (nested) array `base` with the element at `idxs` replaced; UNK when the position does not exist."""
    if not isinstance(base, list) or not (0 <= idxs[0] < len(base)):
        return UNK
    out = list(base)
    if len(idxs) == 1:
        out[idxs[0]] = rv
        return out
    sub = _set_nested(base[idxs[0]], idxs[1:], rv)
    if sub is UNK:
        return UNK
    out[idxs[0]] = sub
    return out


def _zeros(dims):
    if not dims:
        return 0
    return [_zeros(dims[1:]) for _ in range(dims[0])]


def elem_hash(name, idxs, salt, p, small):
    """Base point (salt 1) and direction (salt 2) of the element `name[idxs]` of a signal array on a line in
    valuation space. `small`: the line 0, 1, 2, ... (base 0, direction 1 + a small offset per element)."""
    import hashlib
    h = int.from_bytes(hashlib.sha256(("%s|%s|%d" % (name, idxs, salt)).encode()).digest()[:32], "big")
    if small:
        return 0 if salt == 1 else 1
    return h % p


def _flatten(v):
    """Elements of a (nested) array value as a flat list of integers; None if an element is unknown."""
    if isinstance(v, list):
        out = []
        for y in v:
            fy = _flatten(y)
            if fy is None:
                return None
            out += fy
        return out
    if v is UNK or not isinstance(v, int):
        return None
    return [v]


def fits_degree(points, hi, p):
    """Do the points [(t, value)] (distinct t) lie on a polynomial of degree <= hi over GF(p)? All divided differences
    of order hi + 1 over consecutive points vanish. Needs hi + 2 points to say anything."""
    ts = [t for t, _ in points]
    cur = [v % p for _, v in points]
    for order in range(1, hi + 2):
        cur = [((cur[i + 1] - cur[i]) * pow((ts[i + order] - ts[i]) % p, p - 2, p)) % p for i in range(len(cur) - 1)]
    return all(x == 0 for x in cur)


def loop_control_names(pre):
    """(kind, name) of the signals / parameters on which a loop condition depends: the names read by the condition that
    ends a loop header block, closed under the assignments to the locals among them (one syntactic closure over all
    statements of the definition)."""
    blocks = pre[4][1:]
    headers = [b for b in blocks if any(int(q) >= int(b[1]) for q in b[4])]
    names = set()

    def reads(x, acc):
        if isinstance(x, list) and x:
            if x[0] in ("var",) and isinstance(x[1], list):
                acc.add((x[1][1], x[1][2]))
            if x[0] in ("access", "update") and isinstance(x[1], list):
                acc.add((x[1][1], x[1][2]))
            for y in x:
                reads(y, acc)
    for b in headers:
        if b[3] and b[3][-1][0] == "if":
            reads(b[3][-1][2], names)
    changed = True
    while changed:
        changed = False
        for b in blocks:
            for st in b[3]:
                if st[0] == "subst" and (st[2][1], st[2][2]) in names:
                    acc = set()
                    reads(st[4], acc)
                    if not acc <= names:
                        names |= acc
                        changed = True
    return names


def check_degrees(pre, ssa, p, base, direction, names, max_steps=400, idoms=None, audit=None, stats=None, npoints=5):
    """Degree claims along the line base + t*direction (t = 0..4) in the space of the indeterminates `names`.
    A claim `degree <= d` on a node is judged in every iteration context (the loops the run is in with their
    iteration numbers, visit number) on the runs that reach the node in that context: their values must lie on a
    polynomial of degree <= d in t. When the trip counts do not depend on the valuation that is all five points;
    when they do, a context inside such a loop is reached by some of the runs only and is judged when at least d + 2
    of them reach it (otherwise counted as discarded in `stats`); BEHIND such a loop all five runs are compared again
    (a value that depends on the number of iterations is piecewise in the valuation, not a low-degree polynomial). Returns (bad, exercised, diverged)."""
    runs = []
    zero_base = all(v == 0 for k, v in base.items() if k != "__elem__")
    frozen = direction.get("__frozen__", ())      # names of signal arrays whose elements do not move along the line
    for t in range(npoints):
        inputs = dict(base)
        for n in names:
            inputs[n] = (base.get(n, 0) + t * direction.get(n, 0)) % p
        inputs["__elem__"] = (lambda name, idxs, t=t: (elem_hash(name, idxs, 1, p, zero_base) + (0 if name in frozen else t) * elem_hash(name, idxs, 2, p, zero_base)) % p)
        rr = Run(pre, ssa, p, inputs, max_steps)
        rr.idoms = idoms
        runs.append(rr.run())
    if audit is not None and idoms is not None:
        # control-dependence audit: whenever two runs arrive at a join in the same context with the same truth
        # values of all deciding conditions, they must arrive along the same edge
        seen = {}
        for r in runs:
            for (blk, ctx, prev, truths) in r.arrivals:
                audit["arrivals"] += 1
                k2 = (blk, ctx, truths)
                if k2 in seen and seen[k2] != prev:
                    audit["bad"].append((blk, ctx, truths, seen[k2], prev))
                seen.setdefault(k2, prev)
                if any(t is not None for _, t in truths):
                    audit["decided"] += 1
    sigdep = any(r.hdr_seq != runs[0].hdr_seq for r in runs)
    diverged = any(r.path != runs[0].path for r in runs)
    if stats is not None:
        stats["lines"] = stats.get("lines", 0) + 1
        stats["runs"] = stats.get("runs", 0) + len(runs)
        stats["runs_cut_by_the_step_limit"] = stats.get("runs_cut_by_the_step_limit", 0) + sum(1 for r in runs if r.cut)
        stats["phi_statements_met_with_their_variable_assigned"] = stats.get("phi_statements_met_with_their_variable_assigned", 0) + sum(r.phi_claims_seen for r in runs)
        stats["component_port_reads_as_indeterminates"] = stats.get("component_port_reads_as_indeterminates", 0) + sum(r.comp_reads for r in runs)
        if npoints > 5:
            stats["lines_of_nine_points"] = stats.get("lines_of_nine_points", 0) + 1
        if direction.get("__loopfixed__"):
            stats["lines_with_the_loop_bounding_signals_held_fixed"] = stats.get("lines_with_the_loop_bounding_signals_held_fixed", 0) + 1
            if not sigdep:
                stats["of_these_with_equal_trip_counts_on_all_runs"] = stats.get("of_these_with_equal_trip_counts_on_all_runs", 0) + 1
        if sigdep:
            stats["lines_with_signal_dependent_trip_counts"] = stats.get("lines_with_signal_dependent_trip_counts", 0) + 1
    tables = [{(pos, n): (val, cd) for pos, n, val, cv, cd in r.obs if cd != "-"} for r in runs]
    keys = {}
    for t, tb in enumerate(tables):
        for k, (val, cd) in tb.items():
            keys.setdefault(k, []).append((t, val, cd))
    bad = []
    exercised = 0

    def count(what):
        if stats is not None and sigdep:
            stats[what] = stats.get(what, 0) + 1

    for k, pts in keys.items():
        cd = pts[0][2]
        hi = DEG_N[cd[2]]
        if hi > 2:
            continue
        # a run in which the value is unknown there (an index outside the array, a call) drops out; the others are judged
        if any(v is UNK for _, v, _ in pts):
            pts = [q for q in pts if q[1] is not UNK]
            if stats is not None:
                stats["points_dropped_because_the_value_is_unknown"] = stats.get("points_dropped_because_the_value_is_unknown", 0) + 1
            if not pts:
                continue
        if len(pts) < hi + 2:
            # reached in this iteration context by too few of the runs to refute a polynomial of that degree
            count("discarded_signal_dependent_paths")
            continue
        if any(isinstance(v, list) for _, v, _ in pts):
            # an array-valued node: the bound is claimed for every element
            flat = [_flatten(v) for _, v, _ in pts]
            if any(fl is None for fl in flat) or len(set(len(fl) for fl in flat)) != 1:
                continue
            exercised += 1
            if len(pts) < npoints:
                count("claims_judged_on_signal_dependent_paths")
            for j in range(len(flat[0])):
                col = [(pt[0], fl[j]) for pt, fl in zip(pts, flat)]
                if not fits_degree(col, hi, p):
                    bad.append((k, cd, [c[1] for c in col]))
                    break
            continue
        exercised += 1
        if len(pts) < npoints:
            count("claims_judged_on_signal_dependent_paths")
        elif sigdep:
            count("claims_judged_on_all_five_runs_of_such_lines")
        if not fits_degree([(t, v) for t, v, _ in pts], hi, p):
            bad.append((k, cd, [v for _, v, _ in pts]))
    return bad, exercised, diverged


# ---------------------------------------------------------------------------
# classes of the known findings (narrow, syntactic, per failing node)

def _reads(x, acc):
    """Versioned names read in an SSA expression; flags array forms."""
    if isinstance(x, list) and x:
        if x[0] in ("var",):
            acc["reads"].add(tuple(x[1][1:4]))
        elif x[0] in ("access", "update"):
            acc["array"] = True
            acc["reads"].add(tuple(x[1][1:4]))
        elif x[0] == "array":
            acc["array"] = True
        elif x[0] == "phi":
            for a in x[1]:
                acc["reads"].add(tuple(a[1:4]))
        for y in (x if isinstance(x[0], list) else x[1:]):     # a list of nodes has no head symbol
            _reads(y, acc)


def taints(ssa):
    """deficient: versions that depend on a phi one of whose arguments is the unversioned
    name, i.e. a path on which the variable is still unassigned (the repaired D15). array: versions that depend on an array form (D19)."""
    deficient, arrayt = set(), set()
    stmts = []
    for b in ssa[4][1:]:
        for st in b[3]:
            if st[0] == "subst":
                acc = {"reads": set(), "array": False}
                _reads(st[4], acc)
                tgt = tuple(st[2][1:4])
                stmts.append((tgt, acc))
                if st[4][0] == "phi" and any(a[3] == "-" for a in st[4][1]):
                    # a path on which the variable is still unassigned (recorded since fix 8b of ssa_impl.rs);
                    # no claim may rest on such a phi
                    deficient.add(tgt)
                if acc["array"]:
                    arrayt.add(tgt)
    changed = True
    while changed:
        changed = False
        for tgt, acc in stmts:
            if tgt not in deficient and acc["reads"] & deficient:
                deficient.add(tgt)
                changed = True
            if tgt not in arrayt and acc["reads"] & arrayt:
                arrayt.add(tgt)
                changed = True
    return deficient, arrayt


def phi_dependent(ssa):
    """Versions whose value depends (through the SSA definitions) on a phi statement: the only way the value of a
    node can depend on which path was taken (the known finding ctl-merge is about such nodes only)."""
    dep = set()
    stmts = []
    for b in ssa[4][1:]:
        for st in b[3]:
            if st[0] == "subst":
                acc = {"reads": set(), "array": False}
                _reads(st[4], acc)
                tgt = tuple(st[2][1:4])
                stmts.append((tgt, acc))
                if st[4][0] == "phi":
                    dep.add(tgt)
    changed = True
    while changed:
        changed = False
        for tgt, acc in stmts:
            if tgt not in dep and acc["reads"] & dep:
                dep.add(tgt)
                changed = True
    return dep


def reads_phi_dependent(ssa, pos):
    st = stmt_at(ssa, pos)
    acc = {"reads": set(), "array": False}
    _reads(st, acc)
    return bool(acc["reads"] & phi_dependent(ssa))


def stmt_at(ssa, pos):
    b = ssa[4][1:][pos[0]]
    nphi = 0
    for st in b[3]:
        if st[0] == "subst" and st[4][0] == "phi":
            nphi += 1
        else:
            break
    return b[3][pos[1] + nphi]


def node_class(ssa, pos):
    """Returns the set of known-finding classes the statement at `pos` falls in."""
    deficient, arrayt = taints(ssa)
    st = stmt_at(ssa, pos)
    acc = {"reads": set(), "array": False}
    _reads(st, acc)
    out = set()
    if acc["reads"] & deficient:
        out.add("phi-missing-default")
    if acc["array"] or (acc["reads"] & arrayt):
        out.add("array-degree")
    return out
