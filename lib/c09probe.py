"""C09: sink probes — a deterministic, metamorphic test of the REAL sink set of
run_side_effect_analysis (a local variable of that function; the harness can only
transcribe it).

For every kind of sink the property lists (value assigned to an input/output
signal, constraint mentioning one, assertion, return value, array dimension,
branch decision) a family of programs in which a local `probe` — fed by a
literal (so that constant propagation folds whatever reads it), a parameter or an
input signal, directly, through another local `a`, or through a phi — flows ONLY
into that kind of sink.  The expectations come from the property, not from the
analysis:

  sink probes     the tool must make NO claim (CS0006 / CS0008) about `probe` or `a`
                  (such a claim is false: the oracle perturbs the value and sees the effect);
  control probes  `probe` flows only into something that is no effect (log, a dead
                  local, an intermediate signal that reaches nothing): the tool is
                  expected to make its claim.  A control that is no longer flagged is
                  not a false claim; it shows that the real sink set (or the taint
                  relation) grew, i.e. that the transcription in harness/src/bin/taint.rs
                  is out of date — reported as a broken correspondence.

Every probe runs in templates and (where the sink exists there) in functions, at
top level, with the sink inside a branch on a parameter, and with everything inside
a loop."""
from c09gen import S

N = lambda v: ("num", v)
V = lambda x: ("var", x)
B = lambda op, a, b: ("bin", op, a, b)

VALKINDS_T = ("const", "param", "signal")
VALKINDS_F = ("const", "param")
DEPTHS = ("direct", "transitive", "phi")
CONTEXTS = ("top", "sink-in-branch", "all-in-loop")


def base_value(valkind):
    return {"const": N(1), "param": B("+", V("p"), N(1)), "signal": B("+", V("in0"), N(1))}[valkind]


def feeders(valkind, depth):
    """-> (statements, names whose assignments must not be flagged, value of probe if constant)."""
    b = base_value(valkind)
    if depth == "direct":
        return [S("decl", "probe", [], b)], ["probe"], 1
    if depth == "transitive":
        return [S("decl", "a", [], b), S("decl", "probe", [], B("+", V("a"), N(1)))], ["a", "probe"], 2
    # phi: both incoming values carry the same constant when valkind == "const" (the phi folds)
    other = N(1) if valkind == "const" else N(2)
    return [S("decl", "probe", [], None),
            S("if", B("==", V("q"), N(0)), [S("assign", "probe", [], "=", b)], [S("assign", "probe", [], "=", other)])], ["probe"], 1


def sink_stmts(kind, template, cval):
    """Statements in which `probe` reaches exactly one kind of sink. -> (declarations placed at the top
    of the definition, statements, trailer placed after the context wrapper; `var r = 0` of the branch
    kinds is a top declaration so that the trailer still sees it)."""
    src = V("in0") if template else V("p")
    cmp_ = B("==", V("probe"), N(cval))
    if kind == "sig<--":
        return [], [S("sigassign", "out0", [], "<--", B("+", V("probe"), src))], []
    if kind == "sig<==":
        return [], [S("sigassign", "out0", [], "<==", B("+", V("probe"), src))], []
    if kind == "sig-index":
        return [S("sigdecl", "output", "out1", [N(4)])], [S("sigassign", "out1", [V("probe")], "<--", src)], []
    if kind == "constraint-partner":
        return [], [S("ceq", V("in0"), V("probe"))], []
    if kind == "constraint-partner-indirect":
        return [], [S("decl", "l", [], B("*", V("in0"), V("in0"))), S("ceq", V("l"), V("probe"))], []
    if kind == "single-name-constraint":
        return [], [S("decl", "x", [], B("+", V("in0"), V("probe"))), S("ceq", V("x"), N(5))], []
    if kind == "mid<==exported":
        return [S("sigdecl", "mid", "mid0", [])], [S("sigassign", "mid0", [], "<==", B("*", V("probe"), V("in0")))], []
    if kind == "dimension":
        return [], [S("decl", "t", [V("probe")], None)], []
    if kind == "assert":
        return [], [S("assert", B("<", V("probe"), N(3)))], []
    if kind == "return":
        return [], [S("return", B("+", V("probe"), src))], []
    if kind == "ternary-into-sink":
        e = ("tern", cmp_, src, N(0))
        return [], [S("sigassign", "out0", [], "<--", e) if template else S("return", e)], []
    tail = [S("sigassign", "out0", [], "<==", V("r"))] if template else [S("return", V("r"))]
    head = [S("decl", "r", [], N(0))]
    if kind == "if":
        return head, [S("if", cmp_, [S("assign", "r", [], "=", B("+", src, N(1)))], None)], tail
    if kind == "if-else":
        return head, [S("if", cmp_, [S("assign", "r", [], "=", B("+", src, N(1)))],
                      [S("assign", "r", [], "=", B("*", N(2), src))])], tail
    if kind == "if-else-nested":
        inner = S("if", cmp_, [S("assign", "r", [], "=", B("+", src, N(1)))], [S("assign", "r", [], "=", B("*", N(2), src))])
        return head, [S("if", B("<", V("q"), N(2)), [inner], [S("assign", "r", [], "=", N(7))])], tail
    if kind == "while":
        return head, [S("decl", "w", [], N(0)),
                      S("while", B("<", V("w"), V("probe")),
                             [S("assign", "r", [], "+=", src), S("assign", "w", [], "=", B("+", V("w"), N(1)))])], tail
    if kind == "for":
        return head, [S("for", S("decl", "j", [], N(0)), B("<", V("j"), V("probe")), S("incr", "j", "++"),
                             [S("assign", "r", [], "+=", src)])], tail
    raise ValueError(kind)


SINKS_T = ("sig<--", "sig<==", "sig-index", "constraint-partner", "constraint-partner-indirect", "single-name-constraint",
           "mid<==exported", "dimension", "assert", "ternary-into-sink", "if", "if-else", "if-else-nested", "while", "for")
SINKS_F = ("dimension", "assert", "return", "ternary-into-sink", "if", "if-else", "if-else-nested", "while", "for")


def control_stmts(kind):
    """`probe` reaches no effect. -> (top declarations, statements, expected (kind, name) claims)."""
    if kind == "log":
        return [], [S("log", V("probe"))], [("varnse", "probe")]
    if kind == "unread":
        return [], [], [("unusedvar", "probe")]
    if kind == "dead-chain":
        return [], [S("decl", "d", [], B("*", V("probe"), N(2)))], [("varnse", "probe"), ("unusedvar", "d")]
    if kind == "mid<--":
        return [S("sigdecl", "mid", "mid0", [])], [S("sigassign", "mid0", [], "<--", V("probe"))], [("varnse", "probe")]
    if kind == "mid<==":
        return [S("sigdecl", "mid", "mid0", [])], [S("sigassign", "mid0", [], "<==", V("probe"))], [("varnse", "probe")]
    if kind == "dead-branch-local":
        # a branch on a parameter assigns another dead local: probe is read, reaches nothing
        return [], [S("decl", "d", [], N(0)), S("if", B("==", V("q"), N(1)), [S("assign", "d", [], "=", V("probe"))], None)], \
            [("varnse", "probe")]
    raise ValueError(kind)


CONTROLS_T = ("log", "unread", "dead-chain", "mid<--", "mid<==", "dead-branch-local")
CONTROLS_F = ("log", "unread", "dead-chain", "dead-branch-local")


def wrap(context, feed, body):
    if context == "top":
        return feed + body
    if context == "sink-in-branch":
        return feed + [S("if", B("==", V("n"), N(1)), body, None)]
    if context == "all-in-loop":
        return [S("for", S("decl", "i", [], N(0)), B("<", V("i"), V("n")), S("incr", "i", "++"), feed + body)]
    raise ValueError(context)


def definition(template, top, body, label, absent, present):
    if template:
        stmts = [S("sigdecl", "input", "in0", []), S("sigdecl", "output", "out0", [])] + top + body
        # out0 is always assigned something, so that the template is not degenerate
        if not any(s[0] == "sigassign" and s[1] == "out0" for s in body):
            stmts.append(S("sigassign", "out0", [], "<--", V("in0")))
        prog = {"kind": "template", "name": "T", "params": ["p", "q", "n"], "body": stmts, "sig_in": [("in0", None)]}
    else:
        stmts = top + body
        if not (stmts and stmts[-1][0] == "return"):
            stmts.append(S("return", V("p")))
        prog = {"kind": "function", "name": "f", "params": ["p", "q", "n"], "body": stmts, "sig_in": []}
    prog["features"] = ["probe"]
    prog["probe"] = label
    prog["expect_absent"] = absent
    prog["expect_present"] = present
    return prog


def probes():
    out = []
    for template in (True, False):
        for valkind in (VALKINDS_T if template else VALKINDS_F):
            for depth in DEPTHS:
                for kind in (SINKS_T if template else SINKS_F):
                    for context in CONTEXTS:
                        feed, names, cval = feeders(valkind, depth)
                        top, body, tail = sink_stmts(kind, template, cval)
                        label = "sink %s/%s/%s/%s/%s" % ("template" if template else "function", kind, valkind, depth, context)
                        absent = [(k, n) for n in names for k in ("varnse", "unusedvar")]
                        out.append(definition(template, top, wrap(context, feed, body) + tail, label, absent, []))
        for valkind in VALKINDS_F:      # controls: not fed by a signal (a constraint would then mention it)
            for depth in ("direct", "transitive"):
                for kind in (CONTROLS_T if template else CONTROLS_F):
                    feed, names, _ = feeders(valkind, depth)
                    top, body, present = control_stmts(kind)
                    if depth == "transitive":
                        present = present + [("varnse", "a")]
                    label = "control %s/%s/%s/%s" % ("template" if template else "function", kind, valkind, depth)
                    out.append(definition(template, top, feed + body, label, [], present))
    return out
