"""Shared machinery of the checks: builds (cargo, coq, extraction), proof
obligation accounting, known findings, evidence, violation reporting."""
import fcntl
import hashlib
import json
import os
import random
import re
import subprocess
import sys
import time

VERIF = os.path.dirname(os.path.dirname(os.path.abspath(__file__)))
REPO = os.environ.get("VERIF_REPO", "/repo")
CACHE = os.path.join(VERIF, ".cache")
COQ = os.path.join(VERIF, "coq")
WORK = os.path.join(CACHE, "work")
# A check normally runs against /repo. For mutation testing it can be pointed
# at a scratch worktree with VERIF_REPO=<dir>: the harness crate is then copied
# with its path dependencies rewritten, and build output, evidence and replays
# go under .cache/alt/<tag>/ so that nothing of the real run is overwritten.
ALT = REPO.rstrip("/") != "/repo"
ALT_TAG = re.sub(r"[^A-Za-z0-9]+", "_", REPO.strip("/")) if ALT else ""
ALT_DIR = os.path.join(CACHE, "alt", ALT_TAG) if ALT else CACHE
TARGET = os.path.join(ALT_DIR, "target")
TARGET_CLI = os.path.join(ALT_DIR, "target-cli")
CLI_BIN = os.path.join(TARGET_CLI, "debug", "circomspect")
EVIDENCE_DIR = os.path.join(ALT_DIR, "evidence") if ALT else os.path.join(VERIF, "evidence")
if ALT:
    # An alternative run works on its own copy of the Coq development (made on
    # first use, with the compiled files, so nothing is rebuilt needlessly): the
    # regenerated fragments coq/gen/*.v of a changed tree must never replace the
    # ones the real run proves its theorems against, and two runs may overlap.
    COQ = os.path.join(ALT_DIR, "coq")
    WORK = os.path.join(ALT_DIR, "work")
GUARD = "circomspect_verif"
NPROC = os.cpu_count() or 4

ENV = dict(os.environ)
ENV.update({"CARGO_NET_OFFLINE": "true", "RUSTFLAGS": "--cfg " + GUARD,
            "CARGO_TERM_COLOR": "never"})

ALLOWED_AXIOMS = {
    # standard-library axioms a theorem may depend on (each named in DESIGN §6)
    "functional_extensionality_dep", "FunctionalExtensionality.functional_extensionality_dep",
    "Eqdep.Eq_rect_eq.eq_rect_eq", "eq_rect_eq", "JMeq_eq", "proof_irrelevance",
    "classic", "Classical_Prop.classic",
}

FORBIDDEN = re.compile(
    r"\b(Admitted|admit|Axiom|Axioms|Parameter|Parameters|Conjecture|Conjectures|"
    r"Unset\s+Guard\s+Checking|Unset\s+Positivity\s+Checking|Unset\s+Universe\s+Checking|"
    r"bypass_check|Admit\s+Obligations|type-in-type|impredicative-set)\b")


def log(msg):
    sys.stderr.write("[check] " + msg + "\n")
    sys.stderr.flush()


def sh(cmd, cwd=None, timeout=1800, env=None, inp=None, check=False):
    """Run a command; returns (rc, stdout, stderr). rc=124 on time-out."""
    try:
        p = subprocess.run(cmd, cwd=cwd, env=env or ENV, input=inp, timeout=timeout,
                           stdout=subprocess.PIPE, stderr=subprocess.PIPE,
                           shell=isinstance(cmd, str), text=True, errors="replace")
        rc, out, err = p.returncode, p.stdout, p.stderr
    except subprocess.TimeoutExpired as e:
        rc, out, err = 124, (e.stdout or ""), (e.stderr or "")
        if isinstance(out, bytes):
            out = out.decode(errors="replace")
        if isinstance(err, bytes):
            err = err.decode(errors="replace")
    if check and rc != 0:
        raise RuntimeError("command failed (%d): %s\n%s\n%s" % (rc, cmd, out[-3000:], err[-3000:]))
    return rc, out, err


class Lock:
    """Serialises builds that share .cache (checks may run concurrently)."""

    def __init__(self, name):
        os.makedirs(CACHE, exist_ok=True)
        self.path = os.path.join(CACHE, name + ".lock")

    def __enter__(self):
        self.f = open(self.path, "w")
        fcntl.flock(self.f, fcntl.LOCK_EX)
        return self

    def __exit__(self, *a):
        fcntl.flock(self.f, fcntl.LOCK_UN)
        self.f.close()


def file_hash(paths):
    h = hashlib.sha256()
    for p in sorted(paths):
        h.update(p.encode())
        try:
            with open(p, "rb") as f:
                h.update(f.read())
        except OSError:
            h.update(b"<missing>")
    return h.hexdigest()


def tree_files(root, exts):
    out = []
    for d, dirs, files in os.walk(root):
        dirs[:] = [x for x in dirs if x not in ("target", ".git", "_build")]
        for f in files:
            if f.endswith(exts):
                out.append(os.path.join(d, f))
    return sorted(out)


# --------------------------------------------------------------------------
# builds
# --------------------------------------------------------------------------

class BuildError(Exception):
    def __init__(self, what, detail):
        Exception.__init__(self, what)
        self.what = what
        self.detail = detail


def build_harness(bin_name, release=False):
    """Builds one harness binary (src/bin/<bin_name>.rs) — and with it the
    crates of /repo from the current working tree — with the verification cfg
    on. Returns the path of the binary."""
    with Lock("cargo" + ALT_TAG):
        cmd = ["cargo", "build", "--offline", "--quiet", "--bin", bin_name]
        if release:
            cmd.append("--release")
        env = dict(ENV)
        env["CARGO_TARGET_DIR"] = TARGET
        hdir = os.path.join(VERIF, "harness")
        if ALT:
            hdir = os.path.join(ALT_DIR, "harness")
            os.makedirs(hdir, exist_ok=True)
            sh(["rsync", "-a", "--delete", "--exclude", "target", "--exclude", "Cargo.toml", os.path.join(VERIF, "harness") + "/", hdir + "/"], check=True)
            toml = open(os.path.join(VERIF, "harness", "Cargo.toml")).read().replace('"/repo/', '"%s/' % REPO.rstrip("/"))
            write_if_changed(os.path.join(hdir, "Cargo.toml"), toml)
        t0 = time.time()
        rc, out, err = sh(cmd, cwd=hdir, env=env, timeout=1500)
        if rc != 0:
            raise BuildError("cargo build of harness binary `%s` against /repo failed" % bin_name, err[-4000:])
        log("harness %s built in %.1fs" % (bin_name, time.time() - t0))
    return os.path.join(TARGET, "release" if release else "debug", bin_name)


def build_cli():
    """Builds the circomspect binary from /repo's current working tree."""
    with Lock("cargo-cli" + ALT_TAG):
        env = dict(ENV)
        env["CARGO_TARGET_DIR"] = TARGET_CLI
        t0 = time.time()
        rc, out, err = sh(["cargo", "build", "--offline", "--quiet", "-p", "circomspect"],
                          cwd=REPO, env=env, timeout=1500)
        if rc != 0:
            raise BuildError("cargo build of the circomspect binary failed", err[-4000:])
        log("cli built in %.1fs" % (time.time() - t0))
    return CLI_BIN


def write_if_changed(path, content):
    try:
        if open(path).read() == content:
            return False
    except OSError:
        pass
    os.makedirs(os.path.dirname(path), exist_ok=True)
    with open(path, "w") as f:
        f.write(content)
    return True


def alt_coq_copy():
    """First use of an alternative tree: copy the Coq development (sources and
    compiled files, time stamps kept) next to that tree's other build output."""
    if not ALT or os.path.exists(os.path.join(COQ, ".copied")):
        return
    with Lock("coq"):                      # never copy while the real run is compiling
        with Lock("coqcopy" + ALT_TAG):
            if os.path.exists(os.path.join(COQ, ".copied")):
                return
            os.makedirs(COQ, exist_ok=True)
            sh(["rsync", "-a", "--delete", os.path.join(VERIF, "coq") + "/", COQ + "/"], check=True)
            open(os.path.join(COQ, ".copied"), "w").write(time.strftime("%Y-%m-%dT%H:%M:%S"))


def coq_project():
    """Regenerates _CoqProject and the Makefile from the directory contents."""
    alt_coq_copy()
    files = []
    for sub in ("model", "spec", "gen", "proofs", "props"):
        d = os.path.join(COQ, sub)
        if os.path.isdir(d):
            for f in sorted(os.listdir(d)):
                if f.endswith(".v"):
                    files.append(sub + "/" + f)
    content = ("-Q model Model\n-Q spec Spec\n-Q proofs Proofs\n-Q props Props\n-Q gen Gen\n"
               "-arg -w -arg -notation-overridden,-deprecated-hint-without-locality,"
               "-ambiguous-paths,-deprecated-instance-without-locality,-deprecated-hint-rewrite-without-locality\n"
               + "\n".join(files) + "\n")
    changed = write_if_changed(os.path.join(COQ, "_CoqProject"), content)
    if changed or not os.path.exists(os.path.join(COQ, "Makefile")):
        sh("coq_makefile -f _CoqProject -o Makefile", cwd=COQ, check=True)


def _coq_make_nolock(targets, timeout=1500):
    coq_project()
    t0 = time.time()
    rc, out, err = sh(["make", "-j%d" % NPROC] + targets, cwd=COQ, timeout=timeout)
    log("coq make %s: rc=%d in %.1fs" % (" ".join(targets), rc, time.time() - t0))
    return rc, out + "\n" + err


def coq_make(targets, timeout=1500):
    """Full .vo build (never -vos) of the given targets and their cones."""
    with Lock("coq" + ALT_TAG):
        return _coq_make_nolock(targets, timeout)


def coq_flags():
    return ["-Q", "model", "Model", "-Q", "spec", "Spec", "-Q", "proofs", "Proofs",
            "-Q", "props", "Props", "-Q", "gen", "Gen",
            "-w", "-notation-overridden,-deprecated-hint-without-locality,-ambiguous-paths,"
                  "-deprecated-instance-without-locality,-deprecated-hint-rewrite-without-locality"]


def strip_coq_comments(text):
    out, depth, i = [], 0, 0
    while i < len(text):
        if text.startswith("(*", i):
            depth += 1
            i += 2
        elif text.startswith("*)", i) and depth > 0:
            depth -= 1
            i += 2
        else:
            if depth == 0:
                out.append(text[i])
            i += 1
    return "".join(out)


def scan_forbidden():
    """No Admitted/admit/Axiom/Parameter/... anywhere in the development."""
    hits = []
    for f in tree_files(COQ, (".v",)):
        body = strip_coq_comments(open(f).read())
        for m in FORBIDDEN.finditer(body):
            hits.append("%s: %s" % (os.path.relpath(f, VERIF), m.group(0)))
        # Variable/Hypothesis outside a section
        depth = 0
        for line in body.splitlines():
            s = line.strip()
            if re.match(r"^Section\b", s):
                depth += 1
            elif re.match(r"^End\b", s) and depth > 0:
                depth -= 1
            elif depth == 0 and re.match(r"^(Variable|Variables|Hypothesis|Hypotheses|Context)\b", s):
                hits.append("%s: %s outside a section" % (os.path.relpath(f, VERIF), s.split()[0]))
    return hits


def props_obligations(prop):
    """Names of the theorems of props/<prop>.v that carry a Print Assumptions."""
    path = os.path.join(COQ, "props", prop + ".v")
    body = strip_coq_comments(open(path).read())
    thms = re.findall(r"\b(?:Theorem|Lemma|Corollary)\s+([A-Za-z0-9_']+)", body)
    printed = re.findall(r"Print\s+Assumptions\s+([A-Za-z0-9_']+)\s*\.", body)
    return thms, printed


def check_proofs(prop, extra_targets=()):
    """Builds the cone of props/<prop>.vo, re-runs the property file to collect
    the Print Assumptions blocks. Returns dict(obligations, discharged,
    failures[list of str], names, axioms)."""
    res = {"obligations": 0, "discharged": 0, "failures": [], "names": [], "axioms": {}}
    pfile = os.path.join(COQ, "props", prop + ".v")
    if not os.path.exists(pfile):
        res["failures"].append("props/%s.v missing" % prop)
        return res
    thms, printed = props_obligations(prop)
    res["names"] = thms
    res["obligations"] = len(thms)
    missing = [t for t in thms if t not in printed]
    if missing:
        res["failures"].append("no Print Assumptions for: " + ", ".join(missing))
    hits = scan_forbidden()
    if hits:
        res["failures"].append("forbidden declarations: " + "; ".join(hits[:10]))
    # force the property file itself to be re-checked on every run; deleting, building and reading the
    # output happen under one lock so that two concurrent checks cannot steal each other's output
    with Lock("coq" + ALT_TAG):
        for ext in (".vo", ".vok", ".vos", ".glob"):
            try:
                os.remove(os.path.join(COQ, "props", prop + ext))
            except OSError:
                pass
        rc, out = _coq_make_nolock(["props/%s.vo" % prop] + list(extra_targets))
    if rc != 0:
        m = re.search(r'File "([^"]+)", line (\d+)[^\n]*\n((?:.*\n){0,12})', out)
        where = ("%s line %s: %s" % (m.group(1), m.group(2), m.group(3).strip()[:600])) if m else out[-1500:]
        res["failures"].append("coq build failed: " + where)
        res["build_output"] = out[-6000:]
        return res
    # parse the Print Assumptions blocks, in order
    blocks = re.split(r"(?m)^(?=Closed under the global context|Axioms:)", out)
    blocks = [b for b in blocks if b.startswith("Closed under") or b.startswith("Axioms:")]
    if len(blocks) != len(printed):
        res["failures"].append("expected %d Print Assumptions blocks, saw %d" % (len(printed), len(blocks)))
        return res
    ok = 0
    for name, b in zip(printed, blocks):
        if b.startswith("Closed under"):
            res["axioms"][name] = []
            if name in thms:
                ok += 1
            continue
        names = re.findall(r"(?m)^([A-Za-z0-9_.']+)\s*:", b[len("Axioms:"):])
        res["axioms"][name] = names
        bad = [n for n in names if n not in ALLOWED_AXIOMS and n.split(".")[-1] not in ALLOWED_AXIOMS]
        if bad:
            res["failures"].append("%s depends on non-allowed axioms: %s" % (name, ", ".join(bad)))
        elif name in thms:
            ok += 1
    res["discharged"] = ok if not missing and not hits else 0
    return res


def build_model(engine):
    """Extracts coq/extract/<engine>.v (ExtrOcamlBasic only) into its own
    directory and links it with drvlib.ml and coq/extract/<engine>.ml.
    Returns the path of the model driver binary."""
    binary = os.path.join(ALT_DIR, "model_" + engine)
    with Lock("extract-" + engine + ALT_TAG):
        ev = os.path.join(COQ, "extract", engine + ".v")
        body = strip_coq_comments(open(ev).read())
        mods = sorted(set(re.findall(r"\b(Model|Spec|Gen)\.([A-Za-z0-9_]+)", body)))
        targets = ["%s/%s.vo" % (a.lower(), b) for a, b in mods]
        rc, out = coq_make(targets)
        if rc != 0:
            raise BuildError("coq build of the models of engine %s failed" % engine, out[-4000:])
        src = tree_files(os.path.join(COQ, "model"), (".v",)) + tree_files(os.path.join(COQ, "spec"), (".v",)) \
            + tree_files(os.path.join(COQ, "gen"), (".v",)) \
            + [ev, os.path.join(COQ, "extract", engine + ".ml"), os.path.join(COQ, "extract", "drvlib.ml")] \
            + [os.path.join(COQ, "extract", x) for x in sorted(os.listdir(os.path.join(COQ, "extract"))) if x.startswith("lib_")]
        stamp = os.path.join(ALT_DIR, "extract-%s.stamp" % engine)
        h = file_hash(src)
        if os.path.exists(binary) and os.path.exists(stamp) and open(stamp).read() == h:
            return binary
        d = os.path.join(ALT_DIR, "extract", engine)
        os.makedirs(d, exist_ok=True)
        for f in os.listdir(d):
            os.remove(os.path.join(d, f))
        t0 = time.time()
        flags = ["-Q", os.path.join(COQ, "model"), "Model", "-Q", os.path.join(COQ, "spec"), "Spec",
                 "-Q", os.path.join(COQ, "gen"), "Gen"]
        rc, out, err = sh(["coqc"] + flags + ["-o", os.path.join(d, engine + ".vo"), ev], cwd=d, timeout=900)
        if rc != 0:
            raise BuildError("extraction of engine %s failed" % engine, (out + err)[-4000:])
        sh(["cp", os.path.join(COQ, "extract", "drvlib.ml"), d], check=True)
        for lib in re.findall(r"\(\* uses: ([A-Za-z0-9_. ]+?) \*\)", open(os.path.join(COQ, "extract", engine + ".ml")).read()):
            for one in lib.split():
                sh(["cp", os.path.join(COQ, "extract", one), d], check=True)
        sh(["cp", os.path.join(COQ, "extract", engine + ".ml"), os.path.join(d, "zz_main.ml")], check=True)
        rc, out, err = sh("ocamlfind ocamlopt -O2 -w -a -I . $(ocamldep -sort *.mli *.ml) -o %s" % binary,
                          cwd=d, timeout=900)
        if rc != 0:
            raise BuildError("ocaml build of the model driver %s failed" % engine, (out + err)[-4000:])
        open(stamp, "w").write(h)
        log("model driver %s extracted and built in %.1fs" % (engine, time.time() - t0))
    return binary


# --------------------------------------------------------------------------
# known findings, evidence, reporting
# --------------------------------------------------------------------------

def known_findings(prop):
    path = os.path.join(VERIF, "known_findings.jsonl")
    out = []
    if os.path.exists(path):
        for line in open(path):
            line = line.strip()
            if line and not line.startswith("#"):
                r = json.loads(line)
                if r.get("property") == prop:
                    out.append(r)
    return out


def _pid_alive(pid):
    try:
        os.kill(pid, 0)
        return True
    except ProcessLookupError:
        return False
    except OSError:
        return True


def private_dir(base):
    """base/p<pid>, created empty; directories left behind by processes that no longer exist are removed."""
    import shutil
    os.makedirs(base, exist_ok=True)
    for d in os.listdir(base):
        if d.startswith("p") and d[1:].isdigit() and not _pid_alive(int(d[1:])):
            shutil.rmtree(os.path.join(base, d), ignore_errors=True)
    mine = os.path.join(base, "p%d" % os.getpid())
    shutil.rmtree(mine, ignore_errors=True)
    os.makedirs(mine, exist_ok=True)
    return mine


class Ctx:
    def __init__(self, prop, tier, seed):
        self.prop = prop
        self.tier = tier
        self.seed = seed
        self.rng = random.Random(seed)
        self.t0 = time.time()
        self.violations = []      # dicts: {what, replay(dict)}
        self.known_hits = []      # (finding id, what)
        self.coverage = {}
        self.assumptions = []
        # one scratch directory per PROCESS: two runs of the same check at the same time (quick and
        # thorough, or two seeds) must not remove each other's files
        self.work = private_dir(os.path.join(WORK, prop))
        self.known = [r for r in known_findings(prop) if r.get("status") == "known"]

    def violation(self, what, replay, no_input=False):
        self.violations.append({"what": what, "replay": replay, "no_input": no_input})

    def known_finding(self, fid, what):
        """One KNOWN-FINDING line per listed finding (the first instance met)."""
        if fid not in [k[0] for k in self.known_hits]:
            self.known_hits.append((fid, what))


def emit(ctx, proofs, level="proof"):
    """Prints KNOWN-FINDING / VIOLATION lines, writes the evidence, returns the
    exit status."""
    os.makedirs(EVIDENCE_DIR, exist_ok=True)
    rdir = os.path.join(EVIDENCE_DIR, "replays")
    for fid, what in ctx.known_hits:
        print("KNOWN-FINDING: property=%s %s: %s" % (ctx.prop, fid, what))
    nviol = 0
    for i, v in enumerate(ctx.violations):
        os.makedirs(rdir, exist_ok=True)
        path = os.path.join(rdir, "%s_%d.json" % (ctx.prop, i))
        rep = dict(v["replay"])
        rep["property"] = ctx.prop
        rep["what"] = v["what"]
        rep["replay_cmd"] = "./check %s --replay %s" % (ctx.prop, path)
        with open(path, "w") as f:
            json.dump(rep, f, indent=1)
        tail = " no-failing-input-found" if v["no_input"] else ""
        print("VIOLATION property=%s replay=%s%s" % (ctx.prop, path, tail))
        nviol += 1
    cov = dict(ctx.coverage)
    cov["obligations"] = max(1, proofs["obligations"])
    cov["discharged"] = proofs["discharged"]
    cov["theorems"] = proofs["names"]
    cov["axioms_reported"] = {k: v for k, v in proofs["axioms"].items() if v}
    cov["checker_cmd"] = ("make -C coq props/%s.vo (coqc 8.16.1, full .vo build); Print Assumptions under every "
                          "theorem compared with the allow-list; forbidden-keyword scan of coq/**/*.v" % ctx.prop)
    cov.setdefault("trusted_base", [])
    cov["trusted_base"] = [
        "Coq 8.16.1 kernel and vm_compute (no native_compute)",
        "extraction with ExtrOcamlBasic only (Extract Inductive bool/option/unit/list/prod/sumbool/sumor; "
        "inlined fst/snd/andb/orb...), OCaml 4.13.1, coq/extract/driver.ml (text I/O, hex <-> Z)",
        "the Rust harness crate /verif/harness (calls the functions of /repo, prints results)",
        "hand-written Gallina mirror tied to the code only by the correspondence runs",
    ] + cov["trusted_base"]
    try:
        chk = open(os.path.join(CACHE, "coqchk.txt")).read()
        cov["coqchk"] = ("Axioms: <none> (coqchk -o over all property files, run by the setup)" if "Axioms: <none>" in chk
                         else chk[-400:])
    except OSError:
        pass
    if proofs["failures"]:
        cov["proof_failures"] = proofs["failures"]
    # schema hygiene: the keys the evidence schema types as integers / list / bool
    for k in ("evaluations", "distinct_nontrivial", "states", "transitions", "programs",
              "traces_validated_against_impl", "disagreements_checked"):
        if k in cov and not (isinstance(cov[k], int) and not isinstance(cov[k], bool)):
            cov[k + "_detail"] = cov.pop(k)
    if "samples" in cov and not isinstance(cov["samples"], list):
        cov["samples"] = [cov["samples"]]
    if "exhaustive" in cov and not isinstance(cov["exhaustive"], bool):
        cov["exhaustive_detail"] = cov.pop("exhaustive")
    if "explanation" in cov and not isinstance(cov["explanation"], str):
        cov["explanation"] = json.dumps(cov["explanation"])
    cov.setdefault("evaluations", 0)
    cov.setdefault("distinct_nontrivial", 0)
    cov.setdefault("samples", [])
    ev = {"property_id": ctx.prop, "tier": ctx.tier, "seed": ctx.seed, "level": level,
          "coverage": cov, "assumptions": ctx.assumptions,
          "wall_s": round(time.time() - ctx.t0, 2), "violations": nviol,
          "known_findings": ["%s: %s" % k for k in ctx.known_hits]}
    with open(os.path.join(EVIDENCE_DIR, ctx.prop + ".json"), "w") as f:
        json.dump(ev, f, indent=1)
    return 1 if nviol else 0


def _lines(out):
    """Output lines, split at LF only (str.splitlines would also split at U+2028, U+0085, FF ...)."""
    parts = out.split("\n")
    if parts and parts[-1] == "":
        parts.pop()
    return [p[:-1] if p.endswith("\r") else p for p in parts]


_PRLIMIT_OK = None


def _model_prefix(binary):
    """The extracted mirrors recurse over lists; an extracted MODEL driver (never a harness binary of
    the implementation) runs with an unlimited stack so that a large input is judged, not `died`."""
    if not os.path.basename(binary).startswith("model_"):
        return []
    global _PRLIMIT_OK
    if _PRLIMIT_OK is None:
        try:
            _PRLIMIT_OK = subprocess.run(["/usr/bin/prlimit", "--stack=unlimited", "/bin/true"],
                                         stdout=subprocess.DEVNULL, stderr=subprocess.DEVNULL, timeout=10).returncode == 0
        except Exception:
            _PRLIMIT_OK = False
    return ["/usr/bin/prlimit", "--stack=unlimited"] if _PRLIMIT_OK else []


def run_lines(binary, args, lines, timeout=900, shards=1):
    """Feeds lines to `binary args` (optionally sharded over processes) and
    returns the output lines in order."""
    if shards <= 1 or len(lines) < 2 * shards:
        rc, out, err = sh(_model_prefix(binary) + [binary] + args, inp="\n".join(lines) + "\n", timeout=timeout)
        if rc != 0:
            raise BuildError("%s %s failed rc=%d" % (os.path.basename(binary), " ".join(args), rc), err[-2000:])
        return _lines(out)
    import concurrent.futures
    n = len(lines)
    size = (n + shards - 1) // shards
    chunks = [lines[i:i + size] for i in range(0, n, size)]

    def one(ch):
        rc, out, err = sh(_model_prefix(binary) + [binary] + args, inp="\n".join(ch) + "\n", timeout=timeout)
        if rc != 0:
            raise BuildError("%s %s failed rc=%d" % (os.path.basename(binary), " ".join(args), rc), err[-2000:])
        return _lines(out)
    with concurrent.futures.ThreadPoolExecutor(max_workers=shards) as ex:
        outs = list(ex.map(one, chunks))
    res = []
    for o in outs:
        res.extend(o)
    return res
