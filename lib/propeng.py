"""Shared engine of C06 / C07 / C20: value and degree propagation.

correspondence:  real `into_ssa` under pass budgets (kv, kd)  vs
                 Model.Propagate.propagate kv kd on the same SSA graph with all
                 knowledge erased (the SSA structure is taken from the real
                 dump, so only the propagation is compared here)
oracle:          lib/irsem.py — executes the pre-SSA CFG under Circom's field
                 semantics and checks every claim met along the execution."""
import os
import random
import re
import common
import irsem
import proggen
import sexp

CURVES = ["BN254", "BLS12_381", "GOLDILOCKS"]


def corpus(prop):
    d = os.path.join(common.VERIF, "corpus", prop)
    out = []
    if os.path.isdir(d):
        for f in sorted(os.listdir(d)):
            if f.endswith(".circom"):
                txt = open(os.path.join(d, f)).read()
                curve = "BN254"
                for c in CURVES:
                    if ("curve:" + c) in txt:
                        curve = c
                out.append((curve, txt, "corpus/" + f))
    return out


def programs(rng, n, props=("C06",)):
    progs = []
    for pr in props:
        progs += corpus(pr)
    for i in range(n):
        curve = CURVES[0] if rng.random() < 0.5 else rng.choice(CURVES)
        if rng.random() < 0.3:
            progs.append((curve, proggen.targeted(rng, curve), "targeted"))
        else:
            g = proggen.Gen(rng, curve, max_depth=rng.choice([1, 2, 3]), size=rng.choice([3, 5, 8]))
            progs.append((curve, g.program(), "random"))
    curve = rng.choice(CURVES)
    progs += [(curve, q, "targeted/feature-stratum") for q in proggen.feature_stratum(rng, curve)]
    return progs


ABORTS = {"lines": 0}


def run_lines_isolating(binary, lines, timeout=1200):
    """common.run_lines, but a harness process that DIES (stack overflow, abort: not a caught panic) does not take the
    whole run down: the lines are bisected until the killing line stands alone, which answers `(panic abort ..)` -
    a failing input like any other panic."""
    try:
        return common.run_lines(binary, [], lines, shards=common.NPROC, timeout=timeout)
    except common.BuildError:
        pass

    def go(chunk):
        rc, out, err = common.sh([binary], inp="\n".join(chunk) + "\n", timeout=timeout)
        outs = common._lines(out)
        if rc == 0 and len(outs) == len(chunk):
            return outs
        if len(chunk) == 1:
            ABORTS["lines"] += 1
            return ["(panic abort rc=%d %s)" % (rc, " ".join(err.split())[-160:].replace("(", "[").replace(")", "]"))]
        mid = len(chunk) // 2
        return go(chunk[:mid]) + go(chunk[mid:])
    import concurrent.futures
    size = max(1, (len(lines) + common.NPROC - 1) // common.NPROC)
    chunks = [lines[i:i + size] for i in range(0, len(lines), size)]
    with concurrent.futures.ThreadPoolExecutor(max_workers=common.NPROC) as ex:
        parts = list(ex.map(go, chunks))
    return [o for part in parts for o in part]


def wire(src):
    """The source field of a harness line: a single definition, or (marker /*file*/) a whole source text that goes
    through the real desugarer before its first definition is lifted."""
    return ("file:" if src.lstrip().startswith("/*file*/") else "") + src.encode().hex()


def lift_all(H, progs, budgets):
    """Runs the implementation on every (program, budget). Returns dict
    (i, kv, kd) -> parsed result."""
    lines, keys = [], []
    for i, (curve, src, _) in enumerate(progs):
        for kv, kd in budgets:
            lines.append("%s %s %s %s" % (curve, kv, kd, wire(src)))
            keys.append((i, kv, kd))
    outs = run_lines_isolating(H, lines, timeout=1200)
    return {k: o for k, o in zip(keys, outs)}


def model_all(M, progs, impl, budgets):
    lines, keys = [], []
    for i, (curve, src, origin) in enumerate(progs):
        if origin == "long-chain":      # thousands of passes over association lists: the mirror is not run on it (oracle and validators are)
            continue
        for kv, kd in budgets:
            o = impl[(i, kv, kd)]
            if not o.startswith("(ok "):
                continue
            x = sexp.parse(o)
            bare = sexp.strip_knowledge(x[2])
            lines.append("propagate %x %s %s %s %s" % (proggen.PRIMES[curve], kv, kd, sexp.show(bare), sexp.show(x[3])))
            keys.append((i, kv, kd))
    outs = common.run_lines(M, [], lines, shards=common.NPROC, timeout=1200) if lines else []
    return {k: o for k, o in zip(keys, outs)}


def validate_all(M, progs, impl, budgets):
    """Runs the verified validator Justify.vjust_cfg on the implementation's real annotated output."""
    lines, keys = [], []
    for i, (curve, src, _) in enumerate(progs):
        for kv, kd in budgets:
            o = impl[(i, kv, kd)]
            if o.startswith("(ok "):
                x = sexp.parse(o)
                lines.append("vjust %x %s" % (proggen.PRIMES[curve], sexp.show(x[2])))
                keys.append((i, kv, kd))
    outs = common.run_lines(M, [], lines, shards=common.NPROC, timeout=1200) if lines else []
    return {k: o for k, o in zip(keys, outs)}


def dvalidate_all(M, progs, impl, budgets):
    """Runs the verified degree validator DegJustify.djust_cfg on the implementation's real annotated output."""
    lines, keys = [], []
    for i, (curve, src, _) in enumerate(progs):
        for kv, kd in budgets:
            o = impl[(i, kv, kd)]
            if o.startswith("(ok "):
                x = sexp.parse(o)
                lines.append("djust %s %s" % (sexp.show(x[2]), sexp.show(x[3])))
                keys.append((i, kv, kd))
    outs = common.run_lines(M, [], lines, shards=common.NPROC, timeout=1200) if lines else []
    return {k: o for k, o in zip(keys, outs)}


def deggraph_all(M, progs, impl, budgets):
    """DegGraph.graph_consistent / idom_is_dominator_table (hypotheses of the table-free degree theorems) on the real
    graph and the real immediate-dominator table: once per program (neither depends on the budget)."""
    lines, keys = [], []
    for i, (curve, src, _) in enumerate(progs):
        for kv, kd in budgets[:1]:
            o = impl[(i, kv, kd)]
            if o.startswith("(ok "):
                x = sexp.parse(o)
                lines.append("deggraph %s %s" % (sexp.show(sexp.strip_knowledge(x[2])), sexp.show(x[3])))
                keys.append(i)
    outs = common.run_lines(M, [], lines, shards=common.NPROC, timeout=1200) if lines else []
    return {k: o for k, o in zip(keys, outs)}


def constcond_all(M, progs, impl, budgets):
    """Model.ConstCond.cc_findings (the mirror of the constant-conditional pass) on the implementation's real annotated graph."""
    lines, keys = [], []
    for i, (curve, src, _) in enumerate(progs):
        for kv, kd in budgets:
            o = impl[(i, kv, kd)]
            if o.startswith("(ok "):
                x = sexp.parse(o)
                lines.append("constcond %s" % sexp.show(x[2]))
                keys.append((i, kv, kd))
    outs = common.run_lines(M, [], lines, shards=common.NPROC, timeout=1200) if lines else []
    return {k: o for k, o in zip(keys, outs)}


FEATURES = {
    "component_declaration": "a declaration of a component (`component c = X(..)`)",
    "component_array": "a component array (`component c[2]`)",
    "port_write": "a write to a port of a component (`c.in <== e`)",
    "port_read": "a read of a port of a component (`c.out`)",
    "port_read_indexed": "a read of an element of an array port or of a port of a component array element (`c.out[i]`, `c[i].out`)",
    "port_read_at_nonliteral_index": "an array port read at an index that is not a literal (`c.out[sel]`)",
    "dimension_reads_variable": "a declaration whose dimension reads a variable (`var t[n]`, `signal s[n + 1]`)",
    "dimension_reads_versioned_local": "a dimension that reads a local variable (which SSA conversion must give a version)",
    "signal_declared_under_control_flow": "a signal declared in a block other than the entry block (under a branch or in a loop)",
    "dimension_with_value_claim_on_a_non_literal": "a dimension expression (not a literal) that carries a constant-value claim",
    "anonymous_component_array": "a component of type AnonymousComponent (an anonymous component inside a loop, after the real desugarer has run)",
    "desugared_anonymous_component_or_tuple": "a definition that went through the real remove_syntactic_sugar with an anonymous component or a tuple in it",
    "element_write_into_a_two_dimensional_array": "an element-wise update with two or more indices (`m[i][j] = e`)",
    "literal_not_smaller_than_the_prime": "a numeral >= p",
    "literal_with_as_many_bits_as_the_prime_not_reduced": "a numeral in [p, 2^nbits)",
    "hexadecimal_literal": "a numeral spelled 0x..",
    "field_valued_condition": "an if / while condition that is not a comparison or a Boolean connective: a numeral, a variable, a difference, a ternary, a call",
    "condition_is_a_variable": "an if / while condition that is a plain variable (a Boolean or a field element held in it)",
    "return_under_control_flow": "a `return` in a block that is not on every path from the entry",
    "parameter_assigned": "an assignment to a parameter",
    "constant_operand_next_to_an_unknown_operand": "an operator node one of whose operands carries the constant 0, 1, p - 1, true or false while the other carries no constant",
    "zero_base_power_with_unknown_exponent": "`0 ** x` with x unknown to the analysis",
    "redeclared_local_with_lookalike_name": "two different variables (name, suffix) whose PRINTED names coincide: a re-declared local `x` (internal suffix k, printed `x_k`) "
                                            "next to a variable whose source name is `x_k`",
    "lookalike_pair_one_constant_one_not": "such a pair where, at an equal SSA version, one variable is assigned a claimed constant and the other is assigned without one",
}


def _walk(x, f):
    if isinstance(x, list):
        f(x)
        for y in x:
            _walk(y, f)


# features the random grammar itself (origin "random") must produce in every run with at least 150 random programs
GRAMMAR_FEATURES = ["component_declaration", "port_read", "dimension_reads_variable", "literal_not_smaller_than_the_prime",
                    "literal_with_as_many_bits_as_the_prime_not_reduced", "hexadecimal_literal", "field_valued_condition", "parameter_assigned"]

GRAMMAR_FEATURES_RARE = ["element_write_into_a_two_dimensional_array", "condition_is_a_variable", "return_under_control_flow", "signal_declared_under_control_flow", "port_write"]

BOOLEAN_OPS = ("lt", "le", "gt", "ge", "eq", "neq", "and", "or")


def conditional_blocks(pre):
    """Blocks that are not on every path from the entry to an exit (an exit is still reachable when the block is removed)."""
    blocks = pre[4][1:]
    succ = {int(b[1]): [int(x) for x in b[5]] for b in blocks}
    exits = [i for i, ss in succ.items() if not ss]
    out = set()
    for b in succ:
        if b == 0:
            continue
        seen_, work = {0}, [0]
        while work:
            u = work.pop()
            for w in succ.get(u, []):
                if w != b and w not in seen_:
                    seen_.add(w)
                    work.append(w)
        if any(e in seen_ for e in exits if e != b) or not exits:
            out.add(b)
    return out


def features_of(pre, acc, ssa=None, p=None, src=None):
    """Counts, on the implementation's dump of one lifted definition, the program features named in the `rule` text
    (one count per definition that has the feature)."""
    seen = set()
    cond_blocks = conditional_blocks(pre)
    params = set((q[1], q[2]) for q in pre[2][1:])
    if src is not None:
        if "0x" in src:
            seen.add("hexadecimal_literal")
        if src.lstrip().startswith("/*file*/") and ("()(" in src.split("}", 1)[0] + src or "_," in src):
            seen.add("desugared_anonymous_component_or_tuple")
    for b in pre[4][1:]:
        for st in b[3]:
            if st[0] == "decl":
                if st[3] in ("component", "anoncomponent"):
                    seen.add("component_declaration")
                    if st[4]:
                        seen.add("component_array")
                    if st[3] == "anoncomponent":
                        seen.add("anonymous_component_array")
                if st[3] in ("sigin", "sigout", "sigint") and int(b[1]) in cond_blocks:
                    seen.add("signal_declared_under_control_flow")
            if st[0] == "ret" and int(b[1]) in cond_blocks:
                seen.add("return_under_control_flow")
            if st[0] == "subst" and (st[2][1], st[2][2]) in params:
                seen.add("parameter_assigned")
            if st[0] == "if":
                c = st[2]
                if not ((c[0] == "infix" and c[1] in BOOLEAN_OPS) or (c[0] == "prefix" and c[1] == "not")):
                    seen.add("field_valued_condition")
                if c[0] == "var":
                    seen.add("condition_is_a_variable")

            def lits(y):
                if y and y[0] == "update" and sum(1 for a in y[2] if a[0] == "idx") >= 2:
                    seen.add("element_write_into_a_two_dimensional_array")
                if y and y[0] == "num" and p is not None and isinstance(y[1], str):
                    try:
                        v = int(y[1], 16)
                    except ValueError:
                        return
                    if v >= p:
                        seen.add("literal_not_smaller_than_the_prime")
                        if v < (1 << p.bit_length()):
                            seen.add("literal_with_as_many_bits_as_the_prime_not_reduced")
            _walk(st, lits)

            if st[0] == "decl":
                def dimvar(y):
                    if y and y[0] == "var":
                        seen.add("dimension_reads_variable")
                        if _is_local(pre, y[1]):
                            seen.add("dimension_reads_versioned_local")
                for d in st[4]:
                    _walk(d, dimvar)

            def node(y):
                if y and y[0] == "update" and any(isinstance(a, list) and a and a[0] == "comp" for a in y[2]):
                    seen.add("port_write")
                if y and y[0] == "access" and any(isinstance(a, list) and a and a[0] == "comp" for a in y[2]):
                    seen.add("port_read")
                    if any(a[0] == "idx" for a in y[2]):
                        seen.add("port_read_indexed")
                        if any(a[0] == "idx" and a[1][0] != "num" for a in y[2]):
                            seen.add("port_read_at_nonliteral_index")
            _walk(st, node)
    # variables are identified by (name, suffix, version) STRUCTURALLY here, in the oracle (irsem.key) and in the mirror
    # (Ir.vname_eqb); the printed form name_suffix.version is not injective
    printed = {}
    for d in list(pre[3][1:]) + [[q] for q in pre[2][1:]]:
        v = d[0]
        printed.setdefault(sexp.unhex(v[1]) + ("_" + sexp.unhex(v[2]) if v[2] != "-" else ""), set()).add((v[1], v[2]))
    clash = [ks for ks in printed.values() if len(ks) > 1]
    if clash:
        seen.add("redeclared_local_with_lookalike_name")
    if ssa is not None and clash:
        const_at = {}
        for b in ssa[4][1:]:
            for st in b[3]:
                if st[0] == "subst" and st[2][3] != "-":
                    const_at[(st[2][1], st[2][2], st[2][3])] = st[5] != "-"
        for ks in clash:
            ks = sorted(ks)
            for i in range(len(ks)):
                for j in range(i + 1, len(ks)):
                    for (n_, s_, ver), isc in const_at.items():
                        if (n_, s_) == ks[i] and const_at.get((ks[j][0], ks[j][1], ver)) is (not isc):
                            seen.add("lookalike_pair_one_constant_one_not")
    if ssa is not None:
        def absorbing(y):
            if y and y[0] == "infix" and isinstance(y[2], list) and isinstance(y[3], list):
                ka, kb = y[2][-1], y[3][-1]
                if not (isinstance(ka, list) and isinstance(kb, list) and ka and kb and ka[0] == "k" and kb[0] == "k"):
                    return
                for kc, ku, side in ((ka, kb, 0), (kb, ka, 1)):
                    if kc[1] != "-" and ku[1] == "-":
                        v = kc[1]
                        special = v[0] == "b" or (v[0] == "f" and p is not None and int(v[1], 16) % p in (0, 1, p - 1))
                        if special:
                            seen.add("constant_operand_next_to_an_unknown_operand")
                            if y[1] == "pow" and side == 0 and v[0] == "f" and int(v[1], 16) % (p or 1) == 0:
                                seen.add("zero_base_power_with_unknown_exponent")
        for b in ssa[4][1:]:
            for st in b[3]:
                _walk(st, absorbing)
        for b in ssa[4][1:]:
            for st in b[3]:
                if st[0] == "decl":
                    def claimed(y):
                        if y and y[0] in ("var", "infix", "prefix", "switch") and isinstance(y[-1], list) and y[-1][0] == "k" and y[-1][1] != "-":
                            seen.add("dimension_with_value_claim_on_a_non_literal")
                    for d in st[4]:
                        _walk(d, claimed)
    for f in seen:
        acc[f] = acc.get(f, 0) + 1


def _is_local(pre, v):
    for d in pre[3][1:]:
        if d[0][1] == v[1] and d[0][2] == v[2]:
            return d[1] == "local"
    return any(q[1] == v[1] for q in pre[2][1:])      # a parameter is a local


def count_claims(x, acc):
    if isinstance(x, list):
        if x and x[0] == "k" and len(x) == 3:
            if x[1] != "-":
                acc["val"] += 1
            if x[2] != "-":
                acc["deg"] += 1
                if x[2][2] in ("c", "l", "q"):
                    acc["deg_le_quadratic"] += 1
            return
        if x and x[0] == "phi" and x[-1][1] != "-":
            acc["phi_val"] += 1
        if x and x[0] == "num":
            acc["literal"] += 1
        for y in x:
            count_claims(y, acc)


def valuations(rng, pre, p, n):
    params = [("param", q[1]) for q in pre[2][1:]]
    sigs = [("sig", d[0][1]) for d in pre[3][1:] if d[1] in ("sigin", "sigout", "sigint")]
    names = params + sigs
    special = [0, 1, 2, 3, 5, p - 1, p // 2, p // 2 + 1, 255, 256]
    vals = []
    for i in range(n):
        v = {}
        for nm in names:
            c = rng.random()
            v[nm] = rng.choice(special) if c < 0.6 else (rng.randrange(p) if c < 0.8 else rng.randrange(16))
        vals.append(v)
    if names:
        # every definition is run with all names 0, all 1, all p - 1, and with each PARAMETER in turn 0 / 1 / p - 1 next to
        # random values of the others (an operand the analysis does not know may be exactly the absorbing / neutral element)
        vals.insert(0, {nm: 0 for nm in names})
        vals.insert(1, {nm: 1 for nm in names})
        vals.append({nm: p - 1 for nm in names})
        for q in params[:3]:
            for c in (0, 1, p - 1):
                v = {nm: rng.choice(special) for nm in names}
                v[q] = c
                vals.append(v)
    return vals, names, sigs, params


def indeterminates(pre, sigs, params):
    """Signals always; for functions the parameters too (they may be signals)."""
    return list(sigs) + (list(params) if pre[1] == "function" else [])


AUDIT = {"arrivals": 0, "decided": 0, "bad": []}
VALSTATS = {}
DEGSTATS = {}        # what the finite-difference oracle saw (lines, signal-dependent trip counts, what it judged / discarded)


def oracle_case(ctx, orng, x, src, curve, kv, kd, check_vals, check_degs):
    """The violation-search oracle on one lifted case: interpreter for value claims, finite differences for degree claims."""
    failing = []
    exercised_v = exercised_d = 0
    p = proggen.PRIMES[curve]
    vals, names, sigs, params = valuations(orng, x[1], p, 6 if ctx.tier == "quick" else 12)
    nst = sum(len(b[3]) for b in x[1][4][1:])
    steps = 400 if nst <= 130 else 3 * nst       # a very long definition is executed to its end (not cut after 400 statements)
    if nst > 130:
        vals = vals[:2]
    if check_vals:
        bad, ex = irsem.check_values(x[1], x[2], p, vals, max_steps=steps, stats=VALSTATS)
        exercised_v += ex
        for (vi, pos, nvis, val, cv) in bad[:1]:
            failing.append({"input": src, "curve": curve, "budget": [kv, kd], "classes": sorted(irsem.node_class(x[2], pos)), "valuation": {"%s:%s" % (a, sexp.unhex(b)): c for (a, b), c in vals[vi].items()},
                            "impl": "claims %s at node %s (visit %s)" % (sexp.show(cv), pos, nvis),
                            "spec": "evaluates to %s" % (hex(val) if isinstance(val, int) else val), "kind": "value"})
    if check_degs:
        ind = indeterminates(x[1], sigs, params)
        idoms = [None if d == "-" else int(d) for d in x[3][1:]] if len(x) > 3 else None
        audit = AUDIT
        if ind:
            ntr = (5 if ctx.tier == "quick" else 8) if nst <= 130 else 1
            # the indeterminates a loop condition depends on: on extra lines they are held fixed (direction 0, small base
            # values so that the loops do iterate) while the others move, so that all runs share the trip counts and
            # every iteration of such a loop is judged on all points (fourth audit: with five points and trip count = t
            # a claim <= quadratic was judged in iteration 0 only)
            lc = irsem.loop_control_names(x[1])
            lc_ind = [nm for nm in ind if any(nm[1] == h for (h, sfx) in lc)]
            extra = 2 if (lc_ind and len(lc_ind) <= len(ind)) else 0
            npts = 5
            for trial in range(ntr + extra):
                npts = 5
                if trial >= ntr:    # loop-bounding indeterminates fixed at 2, 3; the others run through small / random values
                    kfix = 2 + (trial - ntr)
                    base = {nm: (kfix if nm in lc_ind else 0) for nm in names}
                    direction = {nm: (0 if nm in lc_ind else (1 if trial == ntr else orng.randrange(1, p))) for nm in ind}
                    direction["__loopfixed__"] = True
                    direction["__frozen__"] = tuple(nm[1] for nm in lc_ind)
                    npts = 9 if trial == ntr else 5
                elif trial == 0:      # the line 0, 1, ..., 8 (small values reach array indices; nine points: a claim <= quadratic
                    #                   inside a loop bounded by a signal is judged in iterations 0..4, not only in iteration 0)
                    base = {nm: 0 for nm in names}
                    direction = {nm: 1 for nm in ind}
                    npts = 9
                elif trial in (1, 2):
                    # small lines: the indeterminates run through 0..4 (so `signal == small literal` flips along the
                    # line) while the other names (template parameters) take small values (so `n == 3` holds sometimes)
                    base = {nm: (0 if nm in ind else orng.randrange(0, 6)) for nm in names}
                    direction = {nm: 1 for nm in ind}
                else:
                    base = orng.choice(vals)
                    direction = {nm: orng.randrange(1, p) for nm in ind}
                bad, ex, diverged = irsem.check_degrees(x[1], x[2], p, base, direction, ind, max_steps=steps, idoms=idoms, audit=audit, stats=DEGSTATS, npoints=npts)
                exercised_d += ex
                for (k, cd, vs) in bad[:1]:
                    cls = irsem.node_class(x[2], k[0])
                    if diverged and irsem.reads_phi_dependent(x[2], k[0]):
                        # the control path depends on the valuation AND the node's value depends on a merge:
                        # the class of the known finding; any other wrong claim in such a program is reported
                        cls.add("ctl-merge")
                    failing.append({"input": src, "curve": curve, "budget": [kv, kd], "classes": sorted(cls),
                                    "impl": "claims degree range %s at node %s" % (sexp.show(cd), k),
                                    "spec": "values along a line in signal space %s have a non-zero finite difference of that order" % [hex(v) for v in vs],
                                    "kind": "degree"})
                if bad:
                    break
    if AUDIT["bad"]:
        blk, ctxk, truths, e1, e2 = AUDIT["bad"].pop()
        AUDIT["bad"].clear()
        failing.append({"input": src, "curve": curve, "budget": [kv, kd], "classes": [], "kind": "degree",
                        "impl": "two runs arrive at join block %s (context %s) along different edges (%s, %s)" % (blk, ctxk, e1, e2),
                        "spec": "Spec.DegSem.decides: the deciding conditions %s had the same truth values in both runs, so the edge must be the same "
                                "(the control-dependence rule of the degree semantics does not cover this graph)" % (list(truths),)})
    return failing, exercised_v, exercised_d


def constraint_form(e):
    """Circom's algebra of constraint expressions, read syntactically: "c" constant, "l" linear, "q" ONE product of two
    linear expressions plus a linear expression, "n" anything else (leaves by their degree claim)."""
    k = e[-1] if isinstance(e[-1], list) and e[-1] and e[-1][0] == "k" else None
    if k is not None and k[2] != "-" and k[2][2] == "c":
        return "c"
    t = e[0]
    if t == "num":
        return "c"
    if t in ("var", "access"):
        if k is None or k[2] == "-":
            return "n"
        return {"c": "c", "l": "l", "q": "q"}.get(k[2][2], "n")
    if t == "infix":
        a, b = constraint_form(e[2]), constraint_form(e[3])
        if e[1] in ("add", "sub"):
            if "n" in (a, b) or (a == "q" and b == "q"):
                return "n"
            return max(a, b, key="clq".index)
        if e[1] == "mul":
            if a == "c":
                return b
            if b == "c":
                return a
            return "q" if (a == "l" and b == "l") else "n"
        if e[1] == "div":
            return a if b == "c" else "n"
        return "c" if (a == "c" and b == "c") else "n"
    if t == "prefix":
        a = constraint_form(e[2])
        return a if e[1] == "neg" else ("c" if a == "c" else "n")
    return "n"


def advice_case(x, src, curve, kv, kd):
    """The consumers of partial facts, run by the harness on the graph as the budgets left it: a CS0013 report
    (`the expression assigned is quadratic, rewrite with <==`) must stand on a `<--` statement whose right-hand side
    carries a degree claim with upper end <= quadratic (a claim the validator and the oracle judge), and - the second
    sentence of property C07 - the right-hand side must be of the form the Circom compiler accepts in a constraint."""
    out = []
    if len(x) <= 6:
        return out, 0
    adv = [a for a in x[6][1:] if a[0] == "CS0013"]
    stm = {}
    for b in x[2][4][1:]:
        for st in b[3]:
            if st[0] == "subst" and st[3] == "sig":
                stm.setdefault((st[1][1], st[1][2]), []).append(st)
    for a in adv:
        sts = stm.get((a[1], a[2]), [])
        if not sts:
            out.append({"input": src, "curve": curve, "budget": [kv, kd], "kind": "advice", "classes": [],
                        "impl": "CS0013 (unnecessary signal assignment) at offsets %s..%s" % (a[1], a[2]), "spec": "no `<--` statement stands there"})
            continue
        st = sts[0]
        rhe = st[4]
        know = rhe[-1]
        inner = rhe[3] if rhe[0] == "update" else rhe
        if know[2] == "-" or know[2][2] not in ("c", "l", "q"):
            out.append({"input": src, "curve": curve, "budget": [kv, kd], "kind": "advice", "classes": [],
                        "impl": "CS0013 says the expression assigned at offsets %s..%s is quadratic" % (a[1], a[2]),
                        "spec": "the right-hand side carries the degree claim %s at this cut: no claim with upper end <= quadratic stands behind the advice" % sexp.show(know)})
        elif constraint_form(inner) == "n":
            out.append({"input": src, "curve": curve, "budget": [kv, kd], "kind": "advice", "classes": ["cs0013-sum-of-products"],
                        "impl": "CS0013 advises to rewrite the `<--` at offsets %s..%s with `<==` (degree claim %s)" % (a[1], a[2], sexp.show(know[2])),
                        "spec": "the right-hand side is not of the form A*B + C with A, B, C linear (one product only), which is all the Circom compiler "
                                "accepts in a constraint (property C07, second sentence)"})
    return out, len(adv)


ESCALATION_SHAPES = [
    "template T() { signal input in[5]; signal output out[5]; var table[5] = [3, 1, 4, 1, 5]; var state = 0; for (var i = 0; i < 5; i++) { out[i] <-- table[state]; state = in[i]; } }",
    "template T(n) { signal input in[3]; signal output out; var t[3]; for (var i = 0; i < n; i++) { t[i] = in[i] * in[i] * in[i]; } t[0] = 1; out <-- t[1]; }",
    "template T(n) { signal input a; signal output b[n]; var acc = 1; for (var i = 0; i < n; i++) { b[i] <-- acc; acc = acc * a; } }",
    "template T(n) { signal input a; signal output b; var acc = 1; var k = 0; while (k < n) { acc = acc * a; k += 1; } b <-- acc; }",
    "template T(n) { signal input a; signal output b; var acc = a; for (var i = 0; i < n; i++) { for (var j = 0; j < 2; j++) { acc = acc + acc * a; } } b <-- acc; }",
    "function f(n) { var c = 0; var d = 1; for (var i = 0; i < n; i++) { c = c + d; d = d * 2; } if (c == 0) { return 1; } if (d == 1) { return 2; } return c; }",
    "template T(n) { signal input a; signal output b; var x = 0; var y = a; for (var i = 0; i < n; i++) { x = y; y = y * a; } b <-- x; }",
]


def escalate(ctx, H, orng, disagreements, unjustified, check_vals, check_degs):
    seen, progs = set(), []
    for d in list(disagreements) + list(unjustified):
        key = (d.get("curve", "BN254"), d["input"])
        if key not in seen and len(progs) < 16:
            seen.add(key)
            progs.append((key[0], key[1], "escalation/disagreeing"))
    progs += [("BN254", q, "escalation/loop-shape") for q in ESCALATION_SHAPES]
    budgets = [("-", str(k)) for k in range(0, 41)] + [(str(k), "-") for k in range(0, 41)] + [(str(k), str(k)) for k in (1, 2, 3, 4, 6, 8, 12, 16, 24, 32)]
    impl = lift_all(H, progs, budgets)
    failing = []
    cases = 0
    for (i, kv, kd), o in impl.items():
        if not o.startswith("(ok "):
            continue
        cases += 1
        curve, src, _ = progs[i]
        f_, _, _ = oracle_case(ctx, orng, sexp.parse(o), src, curve, kv, kd, check_vals, check_degs)
        failing += f_
        if len([f for f in failing if not (set(f.get("classes", [])) & set(KF_TEXT))]) >= 5:
            break
    return {"failing": failing, "cases": cases, "programs": len(progs), "budgets": len(budgets)}


def run(ctx, proofs, budgets, check_vals=True, check_degs=True, n_quick=500, n_thorough=8000, props=("C06", "C07", "C20"), extra_progs=(), check_advice=False):
    H = common.build_harness("ir")
    M = common.build_model("ir")
    rng = ctx.rng
    n = n_quick if ctx.tier == "quick" else n_thorough
    progs = programs(rng, n, props) + list(extra_progs)
    for k in ctx.known:     # the witness of every listed finding is replayed on every run
        if isinstance(k.get("witness"), str):
            progs.insert(0, ("BN254", k["witness"], "corpus/known-finding"))
    impl = lift_all(H, progs, budgets)
    model = model_all(M, progs, impl, budgets)
    valid = validate_all(M, progs, impl, budgets)
    unjustified = [{"input": progs[i][1], "curve": progs[i][0], "budget": [kv, kd], "validator": "Justify.vjust_cfg", "answer": o}
                   for (i, kv, kd), o in valid.items() if o != "(justified)"]
    dvalid = {}
    weak = {}
    if check_degs:
        dvalid = dvalidate_all(M, progs, impl, budgets)
        unjustified += [{"input": progs[i][1], "curve": progs[i][0], "budget": [kv, kd], "validator": "DegJustify.djust_cfg", "answer": o}
                        for (i, kv, kd), o in dvalid.items() if o != "(justified)"]
        # the weaker verified validator DegJustifyLe.djust_cfg_le (a claimed upper end may exceed the one the tables give:
        # C07_weaker_validator_degrees_true) on the graphs the strict one rejects: tells a sound weakening from a claim
        # that no theorem covers
        rej = [k for k, o in dvalid.items() if o != "(justified)"]
        if rej:
            wl = ["djustle %s %s" % (sexp.show(sexp.parse(impl[k])[2]), sexp.show(sexp.parse(impl[k])[3])) for k in rej]
            for k, o in zip(rej, common.run_lines(M, [], wl, shards=common.NPROC, timeout=1200)):
                weak[k] = o
    # C14's validator on the implementation's SSA graph of every definition of THIS run (hypothesis `ssa_check c idom` of
    # C06_phi_arguments_available; `infos_ok` of the degree theorems is a part of it)
    sl, sk = [], []
    for i, (curve, src, _) in enumerate(progs):
        o = impl[(i, budgets[0][0], budgets[0][1])]
        if o.startswith("(ok "):
            x_ = sexp.parse(o)
            sl.append("ssacheck %s %s" % (sexp.show(sexp.strip_knowledge(x_[2])), sexp.show(x_[3])))
            sk.append(i)
    ssa_bad = [{"input": progs[i][1], "curve": progs[i][0], "answer": o}
               for i, o in zip(sk, common.run_lines(M, [], sl, shards=common.NPROC, timeout=1200) if sl else []) if o != "(valid)"]
    ccmodel = constcond_all(M, progs, impl, budgets) if check_vals else {}
    dgraph = deggraph_all(M, progs, impl, budgets) if check_degs else {}
    # answer: "(deg-graph-ok loop-free|loops) (loops-ok)" | "(deg-graph-ok ..) (loops-hyp <unmet conjunct>)" | "(<unmet graph hypothesis>)"
    # every unmet conjunct is a violation.  (`update-base-assigned`: DegLoops.update_bases_fresh infos c restricts only an update
    # base that read_ok accepts WITHOUT a running version; a second element-wise update of the same array reads the running
    # version and is not restricted - proof round 4 follow-up.)
    def _unmet(o):
        return o.split("(loops-hyp ", 1)[1].rstrip(")").split() if "(loops-hyp " in o else []
    dgraph_bad = [{"input": progs[i][1], "curve": progs[i][0], "answer": o} for i, o in dgraph.items()
                  if not o.startswith("(deg-graph-ok") or _unmet(o)]
    loop_free = sum(1 for o in dgraph.values() if o.startswith("(deg-graph-ok loop-free)"))
    loops_thm = sum(1 for o in dgraph.values() if o.startswith("(deg-graph-ok") and o.endswith("(loops-ok)"))
    loops_thm_with_loops = sum(1 for o in dgraph.values() if o == "(deg-graph-ok loops) (loops-ok)")
    loops_unmet = {}
    for o in dgraph.values():
        for w in _unmet(o):
            loops_unmet[w] = loops_unmet.get(w, 0) + 1
    # the hypotheses of the budget theorems (C20_mirror_validated_at_every_budget, C20_propagate_completes), evaluated on
    # the graph the implementation hands to propagation (budget 0/0: nothing has run yet)
    hyp = {"checked": 0, "clean": 0}
    hyp_bad = []
    if True:
        # with budget ("0", "0") listed: the graph as the implementation hands it to propagation; otherwise the graph of
        # the first budget with every claim erased (what the mirror is run on)
        hl, hk = [], []
        hb = ("0", "0") if ("0", "0") in budgets else budgets[0]
        hyp["graph"] = "output at pass budget 0/0" if hb == ("0", "0") else "output at budget %s/%s with all claims erased (the input of the mirror)" % hb
        for i, (curve, src, _) in enumerate(progs):
            o = impl[(i, hb[0], hb[1])]
            if o.startswith("(ok "):
                g = sexp.parse(o)[2]
                hl.append("clean %s" % sexp.show(g if hb == ("0", "0") else sexp.strip_knowledge(g)))
                hk.append(i)
        for i, o in zip(hk, common.run_lines(M, [], hl, shards=common.NPROC, timeout=1200) if hl else []):
            hyp["checked"] += 1
            if o == "(clean)":
                hyp["clean"] += 1
            else:
                hyp_bad.append({"input": progs[i][1], "curve": progs[i][0], "answer": o})
    cc_seen = {"reports": 0, "always_true": 0, "always_false": 0, "missing": 0}
    cc_missing = []
    disagreements, failing = [], []
    status = {}
    claims = {"val": 0, "deg": 0, "deg_le_quadratic": 0, "phi_val": 0, "literal": 0}
    nontrivial = set()
    exercised_v = exercised_d = 0
    evaluations = 0
    orng = random.Random(ctx.seed * 7919 + 13)
    DEGSTATS.clear()
    VALSTATS.clear()
    not_mirrored = set()
    features = {}
    features_random = {}
    advice_seen = {"cases": 0, "CS0013": 0, "CS0010": 0}
    featured = set()
    for (i, kv, kd), o in impl.items():
        evaluations += 1
        tag = o.split(" ", 1)[0].strip("()")
        status[tag] = status.get(tag, 0) + 1
        curve, src, origin = progs[i]
        if tag == "panic":
            failing.append({"input": src, "curve": curve, "budget": [kv, kd], "impl": o[:200],
                            "spec": "the tool completes normally at every cut point (no panic)"})
            continue
        if tag != "ok":
            continue
        m = model.get((i, kv, kd))
        x = sexp.parse(o)
        if origin == "long-chain":
            not_mirrored.add(i)
        elif m is None or sexp.parse(m) != x[2]:
            disagreements.append({"input": src, "curve": curve, "budget": [kv, kd],
                                  "model": (m or "")[:300], "impl": sexp.show(x[2])[:300]})
        if check_vals:
            # the CS0009 reports of the real pass against the mirror of the pass evaluated on the same (validated) claims
            real_cc = [sexp.show(y) for y in x[5][1:]] if len(x) > 5 else []
            want_cc = [sexp.show(y) for y in sexp.parse(ccmodel[(i, kv, kd)])[1:]]
            cc_seen["reports"] += len(real_cc)

            def polarity(y):
                """(block, statement, which truth value the label names): the wording of the label is not compared"""
                q = sexp.parse(y)
                t = sexp.unhex(q[2]) if q[2] != "-" else "-"
                w = re.findall(r"\b(true|false)\b", t.lower())
                return (q[0], q[1], w[-1] if w else t)
            want_pol = [polarity(w) for w in want_cc]
            for y in real_cc:
                txt = sexp.unhex(sexp.parse(y)[2]) if sexp.parse(y)[2] != "-" else "-"
                cc_seen["always_true"] += polarity(y)[2] == "true"
                cc_seen["always_false"] += polarity(y)[2] == "false"
                if polarity(y) in want_pol:
                    k_ = want_pol.index(polarity(y))
                    want_pol.pop(k_)
                    want_cc.pop(k_)
                else:
                    pos = sexp.parse(y)
                    failing.append({"input": src, "curve": curve, "budget": [kv, kd], "kind": "finding", "classes": [],
                                    "impl": "reports `%s` for the if statement at block %s, statement %s" % (txt, pos[0], pos[1]),
                                    "spec": "the value claim on that condition (validated, and true in every run) gives: %s"
                                            % ([sexp.unhex(sexp.parse(w)[2]) for w in want_cc if sexp.parse(w)[:2] == pos[:2]] or "no boolean constant")})
            if want_cc:
                cc_seen["missing"] += len(want_cc)
                cc_missing.append({"input": src, "curve": curve, "budget": [kv, kd], "model": want_cc[:3], "impl": real_cc[:3]})
        fa = {}
        features_of(x[1], fa, x[2], proggen.PRIMES[curve], src)         # per program: a feature counts once, at whichever budget it shows
        for f in fa:
            if (i, f) not in featured:
                featured.add((i, f))
                features[f] = features.get(f, 0) + 1
                if origin == "random":
                    features_random[f] = features_random.get(f, 0) + 1
        if check_advice:
            fa_, na_ = advice_case(x, src, curve, kv, kd)
            failing += fa_
            advice_seen["CS0013"] += na_
            advice_seen["CS0010"] += sum(1 for a in x[6][1:] if a[0] == "CS0010") if len(x) > 6 else 0
            advice_seen["cases"] += 1
        before = dict(claims)
        count_claims(x[2], claims)
        if claims["val"] - before["val"] > claims["literal"] - before["literal"] or claims["deg_le_quadratic"] > before["deg_le_quadratic"]:
            nontrivial.add((src, kv, kd))
        # oracle
        f_, ev_, ed_ = oracle_case(ctx, orng, x, src, curve, kv, kd, check_vals, check_degs)
        failing += f_
        exercised_v += ev_
        exercised_d += ed_
    escalated = None
    if (disagreements or unjustified) and not [f for f in failing if f.get("kind") in ("value", "degree") and not (set(f.get("classes", [])) & set(KF_TEXT))]:
        # the correspondence or a validator broke and the ordinary exploration found no wrong claim: search harder,
        # at every pass budget 0..40 on the cases that disagree plus loop shapes whose claims need many passes
        escalated = escalate(ctx, H, orng, disagreements, unjustified, check_vals, check_degs)
        failing += escalated["failing"]
    return {"not_mirrored": len(not_mirrored), "ssa": {"evaluated": len(sk), "rejected": len(ssa_bad)}, "ssa_bad": ssa_bad, "features_random": features_random, "random_programs": sum(1 for q in progs if q[2] == "random"),
            "advice": advice_seen, "check_advice": check_advice,
            "weak": {"rejected_by_djust_cfg": len(weak), "of_these_accepted_by_djust_cfg_le": sum(1 for o in weak.values() if o == "(justified)")},
            "valstats": dict(VALSTATS), "dgraph": {"evaluated": len(dgraph), "unmet": len(dgraph_bad), "graphs_covered_by_loop_free_theorem": loop_free,
                                                   "graphs_meeting_the_graph_hypotheses_of_the_loops_theorem": loops_thm, "of_these_graphs_with_loops": loops_thm_with_loops,
                                                   "unmet_conjuncts_of_the_loops_theorem": loops_unmet}, "dgraph_bad": dgraph_bad, "features": features, "degstats": dict(DEGSTATS), "check_degs": check_degs, "hyp": hyp, "hyp_bad": hyp_bad, "escalated": None if escalated is None else {k: v for k, v in escalated.items() if k != "failing"}, "cc_seen": cc_seen, "cc_missing": cc_missing, "disagreements": disagreements, "failing": failing, "unjustified": unjustified, "validated": len(valid),
            "dvalidated": sum(1 for o in dvalid.values() if o == "(justified)"), "darrays": sum(1 for k, o in dvalid.items() if o == "(justified)" and any(t in impl[k] for t in ("(access ", "(update ", "(array "))), "status": status, "claims": claims,
            "nontrivial": len(nontrivial), "evaluations": evaluations, "programs": len(progs),
            "exercised_value_claims": exercised_v, "exercised_degree_claims": exercised_d,
            "samples": [progs[0][1], progs[len(progs) // 2][1]], "origins": {o: sum(1 for q in progs if q[2].split("/")[0] == o) for o in ("corpus", "targeted", "random")}}


KF_TEXT = {
    "phi-missing-default": "a phi placed where one incoming edge carries no version of the variable (declared, not yet assigned) "
                           "takes the constant of its other arguments although the variable is 0 along that edge",
    "ctl-merge": "degree of a value merged at the join of a branch whose condition depends on signals ignores the control dependence",
    "array-degree": "degree analysis ignores array indices and forgets unknown elements on element-wise update",
    "cs0013-sum-of-products": "CS0013 advises `<==` for a right-hand side of total degree <= 2 that is a sum of two or more products of non-constant factors, "
                              "which the Circom compiler rejects in a constraint",
}


def verdict(ctx, proofs, r, kinds, known_classes, extra_cov=None):
    """Turns the engine result into violations / known findings / coverage."""
    known_ids = {k["class"]: k["id"] for k in ctx.known if k.get("class") in known_classes}
    real = []
    for f in r["failing"]:
        if f.get("kind") and f["kind"] not in kinds:
            continue
        cls = set(f.get("classes", []))
        hit = [c for c in cls if c in known_ids]
        if hit:
            for c in hit:
                ctx.known_finding(known_ids[c], KF_TEXT[c] + " (e.g. " + " ".join(f["input"].split())[:160] + ")")
        else:
            real.append(f)
    shown, seen_inputs = [], set()
    for f in real:           # up to five failing inputs, different programs first
        if f["input"] not in seen_inputs:
            seen_inputs.add(f["input"])
            shown.append(f)
    shown = (shown + [f for f in real if f not in shown])[:5]
    for f in shown:
        ctx.violation("%s; %s" % (f["impl"], f["spec"]), f)
    # HYPOTHESES of the theorems, evaluated per graph: an unmet one is reported whatever else failed (fourth audit: they used
    # to sit at the end of an elif chain and were masked by a rejected graph or a differing mirror)
    if r.get("hyp_bad"):
        ctx.violation("a graph handed to propagation does not meet the hypotheses of the budget / degree theorems (%s; %d cases)" % (r["hyp_bad"][0]["answer"], len(r["hyp_bad"])),
                      {"broken": "hypotheses clean_cfg / ldefs_unique / deg_wf of C20_mirror_validated_at_every_budget, C20_propagate_completes and the degree theorems", "first": r["hyp_bad"][0]}, no_input=True)
    if r.get("dgraph_bad"):
        d = r["dgraph_bad"][0]
        if "(loops-hyp " in d["answer"]:
            w = [y for y in d["answer"].split("(loops-hyp ", 1)[1].rstrip(")").split()][0]
            what = {"no-version-maps": "SsaCheck.compute_infos gives no version maps for the graph and the implementation's dominator table (a C14-type finding: the SSA validator "
                                       "cannot even be run; reported here because the degree theorem for graphs with loops needs the maps)",
                    "infos-not-ok": "SsaCheck.infos_ok fails on the version maps of the graph (a C14-type finding: the SSA graph is not valid; reported here because it is a "
                                    "hypothesis of C07_loops_runs_represented)",
                    "targets-not-versioned": "DegLoops.targets_versioned: a statement assigns a local without a version (a C14-type finding)",
                    "update-base-assigned": "DegLoops.update_bases_fresh: an update base that is read without a running version (SsaCheck.read_ok through fresh_ok) is assigned by a statement",
                    "future-version": "DegLoops.no_future_version: the version current at the exit of a block is one that a block with a larger index assigns (a C14-type finding: "
                                      "the renaming does not follow the dominator tree / dominators do not have smaller indices; reported under %s because it is a hypothesis of "
                                      "the degree theorem for graphs with loops)" % ctx.prop,
                    "loops_ok-false": "DegLoops.loops_ok is false although its conjuncts hold one by one (driver and definition out of step)"}.get(w, w)
            ctx.violation("a graph produced by the implementation does not meet a hypothesis of C07_loops_runs_represented / C07_loops_runs_claims_true (diverging runs in graphs "
                          "with loops): %s (%d cases in all: %s)" % (what, len(r["dgraph_bad"]), r.get("dgraph", {}).get("unmet_conjuncts_of_the_loops_theorem")),
                          {"broken": "hypothesis `%s` of C07_loops_runs_represented (SsaCheck.infos_ok / DegLoops.loops_ok)" % w, "first": d}, no_input=True)
        else:
            ctx.violation("a graph / immediate-dominator table produced by the implementation does not meet the hypotheses of the table-free degree theorems: %s (%d cases; "
                          "`(graph-inconsistent)`: b_index is not the position or b_preds is not the inverse of b_succs or a block is unreachable - a matter of C12; "
                          "`(idom-not-the-dominator-table)`: the table differs from the one Model.Dom computes - a matter of C15; `(local-assigned-twice)`: C14)" % (d["answer"], len(r["dgraph_bad"])),
                          {"broken": "hypotheses DegGraph.graph_consistent / DegGraph.idom_is_dominator_table of C07_decides_is_dominance_control_dependence and "
                                     "C07_validated_graph_degrees_true_table_free", "first": d}, no_input=True)
    if r.get("ssa_bad"):
        d = r["ssa_bad"][0]
        ctx.violation("C14's validator answers %s on an SSA graph of this run (%d definitions): hypothesis `ssa_check c idom` of C06_phi_arguments_available and "
                      "`infos_ok` of the degree theorems (a C14-type finding, reported under %s because it is a hypothesis here)" % (d["answer"], len(r["ssa_bad"]), ctx.prop),
                      {"broken": "hypothesis SsaCheck.ssa_check on the graphs of this run", "first": d}, no_input=True)
    if proofs["failures"]:
        ctx.violation("proof obligations no longer check: " + "; ".join(proofs["failures"])[:400],
                      {"broken": "props/%s.v" % ctx.prop, "failures": proofs["failures"]}, no_input=True)
    if not [f for f in real if f.get("kind") != "advice"]:
        # No wrong claim was found by the oracle (ordinary exploration and, if anything broke, the escalated search at
        # every pass budget 0..40). Three different situations are told apart in the report:
        #  (a) a verified validator rejects the implementation's output (the soundness theorem no longer applies to it);
        #  (b) only the mirror differs: the validators still accept every output, so every claim is still covered by the
        #      soundness theorems, and what changed is the order / amount of what is found per pass;
        #  (c) hypotheses or proofs.
        esc = r.get("escalated") or {}
        searched = ("the interpreter / finite-difference oracle found no wrong claim, neither on the %d explored cases nor in the escalated search (%s programs x %s pass budgets)"
                    % (r["evaluations"], esc.get("programs", 0), esc.get("budgets", 0)))
        if r["unjustified"]:
            u = r["unjustified"][0]
            w = r.get("weak", {})
            only_deg = all(x.get("validator") == "DegJustify.djust_cfg" for x in r["unjustified"])
            if only_deg and w.get("rejected_by_djust_cfg") and w["rejected_by_djust_cfg"] == w.get("of_these_accepted_by_djust_cfg_le"):
                ctx.violation("STRICT VALIDATOR REJECTS, WEAKER VALIDATOR ACCEPTS (a sound weakening), NO WRONG CLAIM FOUND: DegJustify.djust_cfg, which demands every claimed "
                              "range to EQUAL the range the tables give, rejects %d graphs; DegJustifyLe.djust_cfg_le (a claimed upper end may exceed the table's; sound by "
                              "C07_weaker_validator_degrees_true) accepts every one of them, so every claim is still covered by a soundness theorem; %d cases differ from the "
                              "mirror; %s" % (len(r["unjustified"]), len(r["disagreements"]), searched),
                              {"broken": "equality of the implementation's degree claims with the tables (DegJustify.djust_cfg); the claims are weaker but validated",
                               "status": "strict validator rejects, weaker validator accepts, no wrong claim found", "first": u}, no_input=True)
            else:
                ctx.violation("VALIDATOR REJECTS: the verified validator %s rejects the implementation's annotated graph (%d cases; %d cases also differ from the mirror; of the %s "
                              "graphs rejected by DegJustify.djust_cfg the weaker DegJustifyLe.djust_cfg_le accepts %s); %s"
                              % (u.get("validator"), len(r["unjustified"]), len(r["disagreements"]), w.get("rejected_by_djust_cfg", 0), w.get("of_these_accepted_by_djust_cfg_le", 0), searched),
                              {"broken": "validation of the implementation's output by " + str(u.get("validator")), "status": "validator-rejects, no wrong claim found", "first": u}, no_input=True)
        elif r["disagreements"]:
            d = r["disagreements"][0]
            ctx.violation("MIRROR DIFFERS, VALIDATORS STILL ACCEPT, NO WRONG CLAIM FOUND: Model.Propagate differs from Cfg::propagate_values/propagate_degrees on %d cases "
                          "(per-budget equality is the correspondence the budget theorems are tied by), while Justify.vjust_cfg%s accept the implementation's output "
                          "on all %d graphs; %s" % (len(r["disagreements"]), " and DegJustify.djust_cfg" if r.get("check_degs") else "", r["validated"], searched),
                          {"broken": "correspondence propagate (Model.Propagate.propagate)", "status": "mirror differs, validator still accepts, no wrong claim found", "first": d}, no_input=True)
        elif r.get("cc_missing") and "finding" in kinds:
            d = r["cc_missing"][0]
            ctx.violation("correspondence Model.ConstCond vs constant_conditional.rs broken: %d reports the mirror expects are not produced" % len(r["cc_missing"]),
                          {"broken": "correspondence constant-conditional pass (Model.ConstCond.cc_findings)", "first": d}, no_input=True)
    # every program feature the rule text names must have been produced (and lifted) in this run
    feats = r.get("features", {})
    need = list(FEATURES)
    missing = [f for f in need if not feats.get(f)]
    ds = r.get("degstats", {})
    if r.get("check_degs"):
        for f in ("lines_with_signal_dependent_trip_counts", "claims_judged_on_signal_dependent_paths", "component_port_reads_as_indeterminates"):
            if not ds.get(f):
                missing.append(f)
    # the RANDOM grammar alone (not the fixed shapes, the corpus or the hand-shaped families) must keep producing these
    fr = r.get("features_random", {})
    nrand = r.get("random_programs", 0)
    decayed = [f for f in GRAMMAR_FEATURES + (GRAMMAR_FEATURES_RARE if nrand >= 500 else []) if not fr.get(f)] if nrand >= 150 else []
    if decayed:
        ctx.violation("degenerate exploration: the random grammar (%d programs, fixed shapes not counted) never produced: %s" % (nrand, ", ".join(decayed)),
                      {"broken": "generator coverage (random grammar of lib/proggen.py)", "missing": decayed, "counted": fr}, no_input=True)
    st = r["status"]
    tot = sum(st.values()) or 1
    rate = {k: round(st.get(k, 0) / tot, 3) for k in ("ssaerr", "cfgerr", "parseerr", "sugarerr")}
    if rate["ssaerr"] > 0.2 or rate["cfgerr"] + rate["parseerr"] + rate["sugarerr"] > 0.05:
        ctx.violation("degenerate exploration: too many generated definitions are not analysed at all (rates %s; thresholds: ssaerr 20 %%, cfgerr + parseerr + sugarerr 5 %%)" % rate,
                      {"broken": "generator (share of definitions the implementation rejects)", "status": st}, no_input=True)
    cuts = [x for x in (r.get("valstats", {}), ds) if x.get("runs")]
    cutrate = max([x.get("runs_cut_by_the_step_limit", 0) / x["runs"] for x in cuts] or [0])
    if cutrate > 0.15:
        ctx.violation("degenerate exploration: %.1f %% of the interpreter runs were cut by the step limit (threshold 15 %%)" % (100 * cutrate),
                      {"broken": "oracle (share of runs cut by the step limit)", "valstats": r.get("valstats"), "degstats": ds}, no_input=True)
    if missing:
        ctx.violation("degenerate exploration: features named in the rule text were never produced in this run: %s" % ", ".join(missing),
                      {"broken": "generator coverage (lib/proggen.py)", "missing": missing, "counted": feats, "oracle": ds}, no_input=True)
    cov = {
        "evaluations": r["evaluations"],
        "distinct_nontrivial": r["nontrivial"],
        "programs": r["programs"],
        "rule": "seeded generator lib/proggen.py (functions and templates, all operators, nested if/while/for, arrays, calls, signals, "
                "components with port writes and (indexed) port reads, component arrays, dimensions that read variables, signals declared under "
                "control flow, loops whose trip count depends on a signal; 30% hand-shaped programs aimed at joins, loops, boundary constants and at "
                "each of these features) x curves x pass budgets; a case is one (program, budget); `features_produced` counts the definitions "
                "that were lifted and carry each feature, and the run fails when one of them is zero; "
                "distinct-nontrivial = distinct cases whose real output carries a value claim on a non-literal node or a degree bound <= quadratic",
        "samples": r["samples"],
        "exhaustive": False,
        "implementation_status": r["status"],
        "claims_seen": r["claims"],
        "value_claims_checked_by_interpreter": r["exercised_value_claims"],
        "degree_claims_checked_by_finite_differences": r["exercised_degree_claims"],
        "graphs_validated_by_vjust_cfg": r["validated"],
        "graphs_rejected_by_a_validator": len(r["unjustified"]),
        "graphs_validated_by_djust_cfg": r["dvalidated"],
        "graphs_rejected_by_djust_cfg_and_the_weaker_djust_cfg_le": r.get("weak"),
        "graphs_with_array_forms_among_them": r["darrays"],
        "disagreements_model_vs_impl": len(r["disagreements"]),
        "definitions_not_given_to_the_mirror_because_they_need_thousands_of_passes": r.get("not_mirrored", 0),
        "input_origins": r["origins"],
        "features_produced": {f: feats.get(f, 0) for f in FEATURES},
        "features_produced_by_the_random_grammar_alone": dict({f: fr.get(f, 0) for f in FEATURES}, programs=nrand, guarded=GRAMMAR_FEATURES + (GRAMMAR_FEATURES_RARE if nrand >= 500 else [])),
        "share_of_definitions_not_analysed": rate,
        "hypothesis_ssa_check_on_the_graphs_of_this_run": r.get("ssa"),
        "harness_processes_that_died_on_a_line": ABORTS["lines"],
        "interpreter_runs_for_value_claims": r.get("valstats", {}),
    }
    if r.get("check_advice"):
        cov["consumers_of_partial_facts_run_at_every_budget"] = dict(r.get("advice", {}), rule="CS0013 / CS0010 of the real passes on the graph as the budgets left it; every CS0013 must "
                                                                     "stand on a `<--` whose right-hand side carries a degree claim <= quadratic and is of Circom's constraint form; CS0010 is counted only")
    if r.get("check_degs"):
        cov["degree_oracle"] = dict(ds, rule="a line = five valuations base + t*direction; a claim `degree <= d` on a node is judged per iteration context (the loops the run is in "
                                    "with their iteration numbers; behind a loop all runs are compared again) on the runs that reach it there, by divided differences of order d + 1; on lines whose trip "
                                    "counts depend on the valuation a context reached by fewer than d + 2 runs is counted under discarded_signal_dependent_paths, not judged; "
                                    "a port of a component is an indeterminate of its own (an unknown signal)")
    if r.get("hyp", {}).get("checked"):
        # clean_cfg, ldefs_unique_cfg and deg_wf (the decidable hypotheses of the budget theorems and of the degree theorems)
        cov["graphs_meeting_the_hypotheses_of_the_budget_theorems"] = r["hyp"]
        cov["graphs_meeting_clean_cfg_ldefs_unique_deg_wf"] = r["hyp"]
    if r.get("check_degs"):
        cov["dominator_table_hypotheses"] = dict(r.get("dgraph", {}), rule="DegGraph.graph_consistent, idom_is_dominator_table, single_assignment_b on the real SSA graph and "
                                                                           "the real immediate-dominator table of every lifted definition (unmet = violation); forward_b (loop-free) "
                                                                           "decides whether C07_loop_free_graph_claims_true (diverging runs proved represented) applies; its further "
                                                                           "hypothesis `edge lists of the lifted skeleton` is compared by the liftfull engine (C13), not here; "
                                                                           "SsaCheck.infos_ok (on compute_infos of the graph and the real table) and the four conjuncts of "
                                                                           "DegLoops.loops_ok (single_assignment_b, targets_versioned, update_bases_fresh, no_future_version) are the "
                                                                           "graph-side hypotheses of C07_loops_runs_represented / C07_loops_runs_claims_true (diverging runs in graphs WITH "
                                                                           "loops, same loop-header entries); its family assumption picks_decided_sched is NOT evaluated on any case, so this "
                                                                           "is not coverage by the theorem: graphs_meeting_the_graph_hypotheses_of_the_loops_theorem; an unmet one is a violation naming it")
    if r.get("escalated"):
        cov["escalated_search_after_broken_correspondence"] = r["escalated"]
    if "degree" in kinds:
        cov["control_dependence_audit"] = {"join_arrivals_observed": AUDIT["arrivals"], "with_an_evaluated_deciding_condition": AUDIT["decided"],
                                           "rule": "concrete runs arriving at a join in the same context with equal truth values of all conditions named by "
                                                   "Spec.DegSem.decides must arrive along the same edge"}
    if "finding" in kinds:
        cov["constant_condition_reports_compared_with_Model_ConstCond"] = r["cc_seen"]
        if r["cc_seen"]["reports"] < 10 or not r["cc_seen"]["always_true"] or not r["cc_seen"]["always_false"]:
            ctx.violation("degenerate exploration: only %d constant-condition reports were produced (always true: %d, always false: %d); the comparison of the "
                          "CS0009 findings with Model.ConstCond is not exercised" % (r["cc_seen"]["reports"], r["cc_seen"]["always_true"], r["cc_seen"]["always_false"]),
                          {"broken": "generator coverage of the constant-condition finding"}, no_input=True)
    if extra_cov:
        cov.update(extra_cov)
    ctx.coverage.update(cov)
    ctx.assumptions += [
        "executions of the SSA graph are step sequences of Spec.ValueSem (reads see defined cells: SSA validity, property C14)",
        "the primes are prime; num-bigint operator semantics as in C16",
        "the interpreter lib/irsem.py (violation-search oracle) is written from Circom's documentation and is not verified",
    ]


def replay(ctx, rep):
    if "input" not in rep:
        print("replay names a broken obligation, not an input:", rep.get("broken"))
        return 1
    H = common.build_harness("ir")
    kv, kd = rep.get("budget", ["-", "-"])
    out = common.run_lines(H, [], ["%s %s %s %s" % (rep.get("curve", "BN254"), kv, kd, wire(rep["input"]))])[0]
    print(out[:2000])
    x = sexp.parse(out)
    if x[0] != "ok":
        return 1
    p = proggen.PRIMES[rep.get("curve", "BN254")]
    rng = random.Random(1)
    vals, names, sigs, params = valuations(rng, x[1], p, 40)
    bad, ex = irsem.check_values(x[1], x[2], p, vals)
    print("value claims checked:", ex, "wrong:", bad[:3])

    class _C:
        tier = "thorough"
    f_, _, ed = oracle_case(_C, random.Random(1), x, rep["input"], rep.get("curve", "BN254"), kv, kd, False, True)
    print("degree claims checked:", ed, "wrong:", [(f["impl"], f["spec"][:200]) for f in f_[:3]])
    return 1 if (bad or f_) else 0
