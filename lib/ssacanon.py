"""Canonical form of an SSA graph dump, to compare the construction mirror with
the implementation modulo hash-order effects: versions renumbered per key in
order of definition (parameters keep 0; leading phis of a block sorted by key
first, then the statements in order; versions that are only read - the fresh
base of an element-wise update - in order of first appearance), leading phis
sorted by key, phi arguments and declared names sorted."""
import sexp


def key(v):
    return (v[1], v[2])


def canon(ssa):
    blocks = ssa[4][1:]
    ren = {}      # (key, version) -> new version
    nxt = {}      # key -> next number

    def assign(v):
        k = (key(v), v[3])
        if v[3] == "-" or k in ren:
            return
        n = nxt.get(key(v), 0)
        ren[k] = str(n)
        nxt[key(v)] = n + 1

    for p in ssa[2][1:]:
        assign(p)
    # definitions in canonical order
    for b in blocks:
        phis = [s for s in b[3] if s[0] == "subst" and s[4][0] == "phi"]
        lead = []
        for s in b[3]:
            if s[0] == "subst" and s[4][0] == "phi":
                lead.append(s)
            else:
                break
        for s in sorted(lead, key=lambda s: key(s[2])):
            assign(s[2])
        for s in b[3][len(lead):]:
            if s[0] == "subst":
                assign(s[2])
    # read-only versions in order of appearance
    def walk(x):
        if isinstance(x, list):
            if x and x[0] == "v" and len(x) == 4:
                assign(x)
                return
            for y in x:
                walk(y)
    for b in blocks:
        walk(b[3])

    def rn(x):
        if isinstance(x, list):
            if x and x[0] == "v" and len(x) == 4:
                if x[3] == "-":
                    return x
                return ["v", x[1], x[2], ren[(key(x), x[3])]]
            if x and x[0] == "phi":
                args = sorted((rn(a) for a in x[1]), key=lambda a: (a[1], a[2], int(a[3]) if a[3] != "-" else -1))
                return ["phi", args, x[2]]
            if x and x[0] == "decl":
                names = sorted((rn(n) for n in x[2]), key=lambda a: (a[1], a[2], int(a[3]) if a[3] != "-" else -1))
                return ["decl", x[1], names, x[3], [rn(d) for d in x[4]]]
            return [rn(y) for y in x]
        return x

    out_blocks = []
    for b in blocks:
        lead = []
        for s in b[3]:
            if s[0] == "subst" and s[4][0] == "phi":
                lead.append(s)
            else:
                break
        rest = b[3][len(lead):]
        lead = sorted((rn(s) for s in lead), key=lambda s: key(s[2]))
        out_blocks.append([b[0], b[1], b[2], lead + [rn(s) for s in rest], b[4], b[5]])
    return ["ssa", [rn(p) for p in ssa[2][1:]], out_blocks]
