"""Minimal S-expression reader/printer (atoms are strings, lists are lists)."""


def parse(s):
    pos = 0
    n = len(s)
    stack = [[]]
    while pos < n:
        c = s[pos]
        if c in " \n\t":
            pos += 1
        elif c == "(":
            stack.append([])
            pos += 1
        elif c == ")":
            top = stack.pop()
            stack[-1].append(top)
            pos += 1
        else:
            st = pos
            while pos < n and s[pos] not in " \n\t()":
                pos += 1
            stack[-1].append(s[st:pos])
    if len(stack) != 1 or len(stack[0]) != 1:
        raise ValueError("bad sexp: %r" % s[:80])
    return stack[0][0]


def show(x):
    if isinstance(x, str):
        return x
    return "(" + " ".join(show(y) for y in x) + ")"


def strip_knowledge(x):
    """Erase value/degree knowledge: (k ...) -> (k - -); subst statement value -> -."""
    if isinstance(x, str):
        return x
    if x and x[0] == "k" and len(x) == 3:
        return ["k", "-", "-"]
    if x and x[0] == "subst" and len(x) == 7:
        return ["subst", x[1], x[2], x[3], strip_knowledge(x[4]), "-", x[6]]
    return [strip_knowledge(y) for y in x]


def hexs(s):
    return s.encode().hex() if s else "e"


def unhex(h):
    return "" if h == "e" else bytes.fromhex(h).decode(errors="replace")
